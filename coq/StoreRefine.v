(* StoreRefine.v — Store.run (named collections of treaps) refines
   StoreSpec.srun (named collections of sorted lists); laws of the
   collection map (C12) and the invalid-item law (C01). *)
From GK Require Import Base Order Treap TreapSpec Store StoreSpec.

(* ================================================================== *)
(* A. association lists keyed by names under cmp_bytes                 *)

(* strictly increasing list of names *)
Fixpoint keys_sorted (l : list bytes) : Prop :=
  match l with
  | [] => True
  | k :: l' => Forall (fun k' => cmp_bytes k k' = Lt) l' /\ keys_sorted l'
  end.

(* an association list is sorted when its keys are *)
Definition names_sorted {A} (m : list (bytes * A)) : Prop := keys_sorted (map fst m).

Lemma names_sorted_nil : forall A, names_sorted (@nil (bytes * A)).
Proof. intro A. exact I. Qed.

Lemma names_sorted_keys : forall A B (m : list (bytes * A)) (m' : list (bytes * B)),
  map fst m' = map fst m -> names_sorted m -> names_sorted m'.
Proof. unfold names_sorted. intros A B m m' H. rewrite H. auto. Qed.

Lemma cmp_bytes_neq_sym : forall a b, cmp_bytes a b <> Eq -> cmp_bytes b a <> Eq.
Proof.
  intros a b H H'. apply cmp_bytes_eq in H'. subst. apply H. apply cmp_bytes_refl.
Qed.

Lemma cmp_bytes_gt_lt : forall a b, cmp_bytes a b = Gt -> cmp_bytes b a = Lt.
Proof. intros a b H. rewrite (cmp_bytes_opp a b), H. reflexivity. Qed.

Section Assoc.
Context {A : Type}.
Implicit Types (m : list (bytes * A)) (n : bytes) (c : A).

Lemma cget_cset_same : forall m n c, cget (cset m n c) n = Some c.
Proof.
  induction m as [|[k v] m IH]; intros n c; cbn [cset cget].
  - rewrite cmp_bytes_refl. reflexivity.
  - destruct (cmp_bytes n k) eqn:E; cbn [cget].
    + rewrite cmp_bytes_refl. reflexivity.
    + rewrite cmp_bytes_refl. reflexivity.
    + rewrite E. apply IH.
Qed.

Lemma cget_cset_other : forall m n n' c, cmp_bytes n' n <> Eq ->
  cget (cset m n c) n' = cget m n'.
Proof.
  induction m as [|[k v] m IH]; intros n n' c H; cbn [cset cget].
  - destruct (cmp_bytes n' n); congruence.
  - destruct (cmp_bytes n k) eqn:E; cbn [cget].
    + apply cmp_bytes_eq in E. subst k.
      destruct (cmp_bytes n' n); congruence.
    + destruct (cmp_bytes n' n); congruence.
    + destruct (cmp_bytes n' k); auto.
Qed.

Lemma cget_cdel_other : forall m n n', cmp_bytes n' n <> Eq ->
  cget (cdel m n) n' = cget m n'.
Proof.
  induction m as [|[k v] m IH]; intros n n' H; cbn [cdel cget]; auto.
  destruct (cmp_bytes n k) eqn:E; cbn [cget].
  - apply cmp_bytes_eq in E. subst k. destruct (cmp_bytes n' n); congruence.
  - destruct (cmp_bytes n' k); auto.
  - destruct (cmp_bytes n' k); auto.
Qed.

Lemma cget_all_gt : forall m n,
  Forall (fun k' => cmp_bytes n k' = Lt) (map fst m) -> cget m n = None.
Proof.
  induction m as [|[k v] m IH]; intros n H; cbn [cget]; auto.
  cbn [map fst] in H. inversion H; subst. rewrite H2. auto.
Qed.

Lemma cget_cdel_same : forall m n, names_sorted m -> cget (cdel m n) n = None.
Proof.
  unfold names_sorted.
  induction m as [|[k v] m IH]; intros n H; cbn [cdel cget]; auto.
  cbn [map fst keys_sorted] in H. destruct H as [H1 H2].
  destruct (cmp_bytes n k) eqn:E; cbn [cget].
  - apply cmp_bytes_eq in E. subst k. apply cget_all_gt. exact H1.
  - rewrite E. auto.
  - rewrite E. auto.
Qed.

Lemma cget_In : forall m n c, cget m n = Some c -> In (n, c) m.
Proof.
  induction m as [|[k v] m IH]; intros n c; cbn [cget]; [discriminate|].
  destruct (cmp_bytes n k) eqn:E; intro H.
  - apply cmp_bytes_eq in E. subst k. left. congruence.
  - right. auto.
  - right. auto.
Qed.

Lemma cset_keys_Forall : forall (P : bytes -> Prop) m n c,
  Forall P (map fst m) -> P n -> Forall P (map fst (cset m n c)).
Proof.
  induction m as [|[k v] m IH]; intros n c H Hn; cbn [cset map fst].
  - constructor; auto.
  - cbn [map fst] in H. inversion H; subst.
    destruct (cmp_bytes n k); cbn [map fst].
    + constructor; auto.
    + constructor; auto.
    + constructor; auto.
Qed.

Lemma cdel_keys_Forall : forall (P : bytes -> Prop) m n,
  Forall P (map fst m) -> Forall P (map fst (cdel m n)).
Proof.
  induction m as [|[k v] m IH]; intros n H; cbn [cdel map fst]; auto.
  cbn [map fst] in H. inversion H; subst.
  destruct (cmp_bytes n k); cbn [map fst]; auto.
Qed.

Lemma cset_sorted : forall m n c, names_sorted m -> names_sorted (cset m n c).
Proof.
  unfold names_sorted.
  induction m as [|[k v] m IH]; intros n c H; cbn [cset map fst keys_sorted].
  - split; [constructor | exact I].
  - cbn [map fst keys_sorted] in H. destruct H as [H1 H2].
    destruct (cmp_bytes n k) eqn:E; cbn [map fst keys_sorted].
    + apply cmp_bytes_eq in E. subst k. split; assumption.
    + split; [|split; assumption].
      constructor; [exact E|].
      eapply Forall_impl; [|exact H1]. cbn beta. intros a Ha.
      eapply cmp_bytes_lt_trans; eauto.
    + split; [|apply IH; assumption].
      apply cset_keys_Forall; [assumption|].
      apply cmp_bytes_gt_lt. exact E.
Qed.

Lemma cdel_sorted : forall m n, names_sorted m -> names_sorted (cdel m n).
Proof.
  unfold names_sorted.
  induction m as [|[k v] m IH]; intros n H; cbn [cdel map fst keys_sorted]; auto.
  cbn [map fst keys_sorted] in H. destruct H as [H1 H2].
  destruct (cmp_bytes n k) eqn:E; cbn [map fst keys_sorted]; auto.
  - split; [apply cdel_keys_Forall; assumption | apply IH; assumption].
  - split; [apply cdel_keys_Forall; assumption | apply IH; assumption].
Qed.

End Assoc.

(* ---- maps over the values (possibly depending on the name) ---- *)
Section AssocMap.
Context {A B : Type}.
Variable g : bytes -> A -> B.

Definition kmap (m : list (bytes * A)) : list (bytes * B) :=
  map (fun nc => (fst nc, g (fst nc) (snd nc))) m.

Lemma kmap_fst : forall m, map fst (kmap m) = map fst m.
Proof.
  unfold kmap. intro m. rewrite map_map. apply map_ext. reflexivity.
Qed.

Lemma cget_kmap : forall m n, cget (kmap m) n = option_map (g n) (cget m n).
Proof.
  unfold kmap.
  induction m as [|[k v] m IH]; intro n; cbn [map cget fst snd]; auto.
  destruct (cmp_bytes n k) eqn:E; auto.
  apply cmp_bytes_eq in E. subst k. reflexivity.
Qed.

Lemma kmap_sorted : forall m, names_sorted m -> names_sorted (kmap m).
Proof. intro m. apply names_sorted_keys. apply kmap_fst. Qed.

End AssocMap.

Section AssocMapConst.
Context {A B : Type}.
Variable f : A -> B.

Lemma kmap_cset : forall (m : list (bytes * A)) n c,
  kmap (fun _ => f) (cset m n c) = cset (kmap (fun _ => f) m) n (f c).
Proof.
  unfold kmap.
  induction m as [|[k v] m IH]; intros n c; cbn [cset map fst snd]; auto.
  destruct (cmp_bytes n k); cbn [map fst snd]; auto.
  rewrite IH. reflexivity.
Qed.

Lemma kmap_cdel : forall (m : list (bytes * A)) n,
  kmap (fun _ => f) (cdel m n) = cdel (kmap (fun _ => f) m) n.
Proof.
  unfold kmap.
  induction m as [|[k v] m IH]; intros n; cbn [cdel map fst snd]; auto.
  destruct (cmp_bytes n k); cbn [map fst snd]; auto.
  - rewrite IH. reflexivity.
  - rewrite IH. reflexivity.
Qed.

End AssocMapConst.

(* ---- the abstraction of collections is such a map ---- *)
Definition abs_coll (c : coll) : scoll := mkSColl (c_cmp c) (elems (c_tree c)).

Lemma abs_colls_kmap : forall cs, abs_colls cs = kmap (fun _ => abs_coll) cs.
Proof. reflexivity. Qed.

Lemma cget_abs_colls : forall cs n,
  cget (abs_colls cs) n = option_map abs_coll (cget cs n).
Proof. intros. exact (cget_kmap (fun _ => abs_coll) cs n). Qed.

Lemma abs_colls_cset : forall cs n c,
  abs_colls (cset cs n c) = cset (abs_colls cs) n (abs_coll c).
Proof. intros. exact (kmap_cset abs_coll cs n c). Qed.

Lemma abs_colls_cdel : forall cs n, abs_colls (cdel cs n) = cdel (abs_colls cs) n.
Proof. intros. exact (kmap_cdel abs_coll cs n). Qed.

Lemma abs_colls_fst : forall cs, map fst (abs_colls cs) = map fst cs.
Proof. intros. exact (kmap_fst (fun _ => abs_coll) cs). Qed.

Lemma abs_colls_sorted : forall cs, names_sorted cs -> names_sorted (abs_colls cs).
Proof. intro cs. apply names_sorted_keys. apply abs_colls_fst. Qed.

Definition regval (reg : list (bytes * nat)) (n : bytes) : nat :=
  match cget reg n with Some i => i | None => O end.

Lemma recmp_kmap : forall reg cs,
  recmp reg cs = kmap (fun n c => mkColl (regval reg n) (c_tree c)) cs.
Proof. reflexivity. Qed.

Lemma srecmp_kmap : forall reg cs,
  srecmp reg cs = kmap (fun n c => mkSColl (regval reg n) (sc_items c)) cs.
Proof. reflexivity. Qed.

Lemma abs_colls_recmp : forall reg cs,
  abs_colls (recmp reg cs) = srecmp reg (abs_colls cs).
Proof.
  intros reg cs. unfold abs_colls, recmp, srecmp.
  rewrite !map_map. apply map_ext. intros [k v]. reflexivity.
Qed.

(* ================================================================== *)
(* B. the invariant                                                    *)

Definition coll_wf (c : coll) : Prop :=
  bst (cmp_of (c_cmp c)) (c_tree c) /\ aggs (c_tree c).

Definition colls_wf (reg : list (bytes * nat)) (cs : colls) : Prop :=
  names_sorted cs /\
  forall n c, cget cs n = Some c -> coll_wf c /\ cget reg n = Some (c_cmp c).

Definition wf (s : store) : Prop :=
  colls_wf (s_cmpreg s) (s_cur s) /\ Forall (colls_wf (s_cmpreg s)) (s_flushed s).

Lemma colls_wf_nil : forall reg, colls_wf reg [].
Proof. intro reg. split; [exact I|]. intros n c H. discriminate H. Qed.

Theorem wf_init : forall f, wf (init f).
Proof. intro f. split; [apply colls_wf_nil | constructor]. Qed.

Lemma colls_wf_cset : forall reg cs n c,
  colls_wf reg cs -> coll_wf c -> cget reg n = Some (c_cmp c) ->
  colls_wf reg (cset cs n c).
Proof.
  intros reg cs n c [Hs Hc] Hw Hr. split; [apply cset_sorted; exact Hs|].
  intros n' c' G.
  destruct (cmp_bytes n' n) eqn:E.
  - apply cmp_bytes_eq in E. subst n'. rewrite cget_cset_same in G.
    inversion G; subst c'. split; assumption.
  - rewrite cget_cset_other in G by congruence. apply Hc. exact G.
  - rewrite cget_cset_other in G by congruence. apply Hc. exact G.
Qed.

Lemma colls_wf_cdel : forall reg cs n, colls_wf reg cs -> colls_wf reg (cdel cs n).
Proof.
  intros reg cs n [Hs Hc]. split; [apply cdel_sorted; exact Hs|].
  intros n' c' G.
  destruct (cmp_bytes n' n) eqn:E.
  - apply cmp_bytes_eq in E. subst n'. rewrite cget_cdel_same in G by exact Hs. discriminate G.
  - rewrite cget_cdel_other in G by congruence. apply Hc. exact G.
  - rewrite cget_cdel_other in G by congruence. apply Hc. exact G.
Qed.

(* registering (again) the comparator of a name, consistently *)
Lemma colls_wf_reg_cset : forall reg cs name id,
  (cget reg name = None \/ cget reg name = Some id) ->
  colls_wf reg cs -> colls_wf (cset reg name id) cs.
Proof.
  intros reg cs name id Hok [Hs Hc]. split; [exact Hs|].
  intros n c G. destruct (Hc n c G) as [Hw Hr]. split; [exact Hw|].
  destruct (cmp_bytes n name) eqn:E.
  - apply cmp_bytes_eq in E. subst n. rewrite cget_cset_same.
    destruct Hok as [Hok|Hok]; congruence.
  - rewrite cget_cset_other by congruence. exact Hr.
  - rewrite cget_cset_other by congruence. exact Hr.
Qed.

Lemma colls_wf_recmp : forall reg cs, colls_wf reg cs -> colls_wf reg (recmp reg cs).
Proof.
  intros reg cs [Hs Hc]. rewrite recmp_kmap. split; [apply kmap_sorted; exact Hs|].
  intros n c G. rewrite cget_kmap in G.
  destruct (cget cs n) as [c0|] eqn:G0; cbn [option_map] in G; [|discriminate G].
  destruct (Hc n c0 G0) as [[Hb Ha] Hr].
  inversion G; subst c. unfold regval. rewrite Hr.
  split; [split|]; cbn [c_cmp c_tree]; try assumption. reflexivity.
Qed.

Lemma hd_colls_wf : forall reg (fl : list colls),
  Forall (colls_wf reg) fl -> colls_wf reg (match fl with c :: _ => c | [] => [] end).
Proof.
  intros reg fl H. destruct fl as [|c fl]; [apply colls_wf_nil|].
  inversion H; assumption.
Qed.

Lemma hd_abs_colls : forall (fl : list colls),
  match map abs_colls fl with c :: _ => c | [] => [] end =
  abs_colls (match fl with c :: _ => c | [] => [] end).
Proof. intros [|c fl]; reflexivity. Qed.

(* ================================================================== *)
(* C. one-step refinement                                              *)

Lemma filter_map_comm : forall A B (f : A -> B) (p : B -> bool) (l : list A),
  filter p (map f l) = map f (filter (fun x => p (f x)) l).
Proof.
  induction l as [|x l IH]; cbn [map filter]; auto.
  destruct (p (f x)); cbn [map]; rewrite IH; reflexivity.
Qed.

Lemma erase_deliveries : forall (keep : item -> bool) (b : nat) (D : list (item * Z)),
  map (fun x => (fst x, 0)) (firstn b (filter (fun x => keep (fst x)) D)) =
  map (fun i => (i, 0)) (firstn b (filter keep (map fst D))).
Proof.
  intros keep b D.
  rewrite filter_map_comm, firstn_map, map_map. reflexivity.
Qed.

Lemma erase_spec_visit : forall (l : list item),
  map (fun x : item * Z => (fst x, 0)) (map (fun i => (i, 0)) l) = map (fun i => (i, 0)) l.
Proof. intro l. rewrite map_map. apply map_ext. reflexivity. Qed.

Lemma visit_refines : forall id t asc target stop,
  bst (cmp_of id) t ->
  map (fun x => (fst x, 0))
      (fst (fst (visit (cmp_of id) asc t target 0 (visit_budget t stop)))) =
  map (fun i => (i, 0))
      (firstn (S (sbudget (elems t) stop))
         (if asc then filter (asc_keep (cmp_of id) target) (elems t)
          else filter (desc_keep (cmp_of id) target) (rev (elems t)))).
Proof.
  intros id t asc target stop Hb.
  assert (visit_budget t stop = sbudget (elems t) stop) as ->.
  { unfold visit_budget, sbudget. destruct stop; auto. apply size_elems. }
  destruct asc.
  - rewrite (visit_asc_spec _ (cmp_of_laws id) t Hb).
    rewrite <- (depths_elems t 0).
    apply (erase_deliveries (asc_keep (cmp_of id) target)).
  - rewrite (visit_desc_spec _ (cmp_of_laws id) t Hb).
    rewrite <- (depths_elems t 0), <- map_rev.
    apply (erase_deliveries (desc_keep (cmp_of id) target)).
Qed.

Lemma coll_eta : forall c, mkColl (c_cmp c) (c_tree c) = c.
Proof. intros [i t]. reflexivity. Qed.

Ltac proj_cbn :=
  cbn [s_file s_cur s_flushed s_cmpreg ss_file ss_cur ss_flushed ss_cmpreg
       with_cur swith_cur abs_coll sc_cmp sc_items c_cmp c_tree option_map].

(* a collection-reading operation on a missing / present collection *)
Ltac on_coll Hc Hstep c G Hb Ha Hr :=
  rewrite cget_abs_colls;
  match type of Hstep with
  | context [cget ?cur ?name] => destruct (cget cur name) as [c|] eqn:G
  end;
  [ destruct (proj2 Hc _ _ G) as [[Hb Ha] Hr] | ];
  proj_cbn.

Ltac same_state Hstep :=
  inversion Hstep; subst; clear Hstep; unfold abs; proj_cbn;
  split; [split; assumption|]; eexists; split; [|reflexivity].

Theorem step_refines : forall s o s' r,
  wf s -> ops_ok (s_cmpreg s) [o] -> step s o = (s', r) ->
  wf s' /\ exists r', sstep (abs s) o = (abs s', r') /\ erase r = erase r'.
Proof.
  intros [f cur fl reg] o s' r [Hc Hf] Hok Hstep.
  cbn [s_cmpreg s_cur s_flushed] in Hc, Hf, Hok.
  change (abs (mkStore f cur fl reg)) with (mkSStore f (abs_colls cur) (map abs_colls fl) reg).
  unfold step in Hstep. unfold sstep.
  destruct o; cbv beta zeta in Hstep |- *; unfold with_cur in Hstep; unfold swith_cur;
  proj_cbn; cbn [s_file s_cur s_flushed s_cmpreg] in Hstep.
  - (* OColl *)
    inversion Hstep; subst s' r; clear Hstep. unfold abs; proj_cbn.
    cbn [ops_ok] in Hok. destruct Hok as [Hok _].
    split.
    + split; cbn [s_cur s_cmpreg s_flushed].
      * apply colls_wf_cset.
        -- apply colls_wf_reg_cset; assumption.
        -- cbn [c_cmp c_tree]. destruct (cget cur name) as [c|] eqn:G.
           ++ destruct (proj2 Hc _ _ G) as [[Hb Ha] Hr]. 
              assert (cmpid = c_cmp c) by (destruct Hok; congruence). subst cmpid.
              split; assumption.
           ++ split; exact I.
        -- cbn [c_cmp]. apply cget_cset_same.
      * eapply Forall_impl; [|exact Hf]. intro a. apply colls_wf_reg_cset. exact Hok.
    + exists ROk. split; [|reflexivity].
      rewrite abs_colls_cset, cget_abs_colls.
      destruct (cget cur name); reflexivity.
  - (* ORmColl *)
    inversion Hstep; subst s' r; clear Hstep. unfold abs; proj_cbn.
    split.
    + split; cbn [s_cur s_cmpreg s_flushed]; [apply colls_wf_cdel; exact Hc | exact Hf].
    + exists ROk. split; [|reflexivity]. rewrite abs_colls_cdel. reflexivity.
  - (* ONames *)
    inversion Hstep; subst s' r; clear Hstep. unfold abs; proj_cbn.
    split; [split; assumption|].
    eexists. split; [|reflexivity]. rewrite abs_colls_fst. reflexivity.
  - (* OSet *)
    on_coll Hc Hstep c G Hb Ha Hr.
    + destruct val as [v|].
      * destruct (valid_item key (Some v) prio) eqn:V.
        -- rewrite (set_item_spec _ _ _ _ _ V) in Hstep.
           inversion Hstep; subst s' r; clear Hstep. unfold abs; proj_cbn.
           split.
           ++ split; cbn [s_cur s_cmpreg s_flushed]; [|exact Hf].
              apply colls_wf_cset; [exact Hc| |exact Hr].
              split; cbn [c_cmp c_tree].
              ** apply insert_bst; [apply cmp_of_laws | exact Hb].
              ** apply insert_aggs. exact Ha.
           ++ exists ROk. split; [|reflexivity].
              rewrite abs_colls_cset. unfold abs_coll; cbn [c_cmp c_tree].
              rewrite (insert_elems _ (cmp_of_laws (c_cmp c)) _ _ Hb). reflexivity.
        -- rewrite (set_item_invalid _ _ _ _ _ V) in Hstep. same_state Hstep. reflexivity.
      * rewrite set_item_none in Hstep. same_state Hstep. reflexivity.
    + same_state Hstep. reflexivity.
  - (* ODel *)
    on_coll Hc Hstep c G Hb Ha Hr.
    + destruct (delete (cmp_of (c_cmp c)) (c_tree c) key) as [t' b] eqn:D.
      destruct (delete_spec _ (cmp_of_laws (c_cmp c)) _ _ _ _ Hb D) as (He & Hfind & Hb' & Ha' & _).
      inversion Hstep; subst s' r; clear Hstep. unfold abs; proj_cbn.
      split.
      * split; cbn [s_cur s_cmpreg s_flushed]; [|exact Hf].
        apply colls_wf_cset; [exact Hc| |exact Hr].
        split; cbn [c_cmp c_tree]; auto.
      * eexists. split; [|reflexivity].
        rewrite abs_colls_cset. unfold abs_coll; cbn [c_cmp c_tree].
        rewrite He, Hfind. reflexivity.
    + same_state Hstep. reflexivity.
  - (* OGet *)
    on_coll Hc Hstep c G Hb Ha Hr.
    + same_state Hstep. rewrite (lookup_spec _ (cmp_of_laws (c_cmp c)) _ _ Hb). reflexivity.
    + same_state Hstep. reflexivity.
  - (* OGetItem *)
    on_coll Hc Hstep c G Hb Ha Hr.
    + same_state Hstep. rewrite (lookup_spec _ (cmp_of_laws (c_cmp c)) _ _ Hb). reflexivity.
    + same_state Hstep. reflexivity.
  - (* OExist *)
    on_coll Hc Hstep c G Hb Ha Hr.
    + same_state Hstep. rewrite (lookup_spec _ (cmp_of_laws (c_cmp c)) _ _ Hb). reflexivity.
    + same_state Hstep. reflexivity.
  - (* OMin *)
    on_coll Hc Hstep c G Hb Ha Hr.
    + same_state Hstep. rewrite tmin_spec. reflexivity.
    + same_state Hstep. reflexivity.
  - (* OMax *)
    on_coll Hc Hstep c G Hb Ha Hr.
    + same_state Hstep. rewrite tmax_spec. reflexivity.
    + same_state Hstep. reflexivity.
  - (* OTotals *)
    on_coll Hc Hstep c G Hb Ha Hr.
    + rewrite (totals_exact _ Ha) in Hstep. same_state Hstep. reflexivity.
    + same_state Hstep. reflexivity.
  - (* OFlush *)
    destruct f.
    + inversion Hstep; subst s' r; clear Hstep. unfold abs; proj_cbn.
      split.
      * split; cbn [s_cur s_cmpreg s_flushed]; [exact Hc|]. constructor; assumption.
      * exists ROk. split; reflexivity.
    + same_state Hstep. reflexivity.
  - (* OEvict *)
    on_coll Hc Hstep c G Hb Ha Hr.
    + same_state Hstep. reflexivity.
    + same_state Hstep. reflexivity.
  - (* OReopen *)
    destruct f.
    + inversion Hstep; subst s' r; clear Hstep. unfold abs; proj_cbn.
      split.
      * split; cbn [s_cur s_cmpreg s_flushed]; [|exact Hf].
        apply colls_wf_recmp. apply hd_colls_wf. exact Hf.
      * exists ROk. split; [|reflexivity].
        rewrite abs_colls_recmp, hd_abs_colls. reflexivity.
    + same_state Hstep. reflexivity.
  - (* ORevert *)
    destruct f.
    + inversion Hstep; subst s' r; clear Hstep. unfold abs; proj_cbn.
      assert (Hf' : Forall (colls_wf reg) (tl fl)).
      { destruct fl as [|c0 fl0]; [constructor|]. inversion Hf; assumption. }
      split.
      * split; cbn [s_cur s_cmpreg s_flushed]; [|exact Hf'].
        apply colls_wf_recmp. apply hd_colls_wf. exact Hf'.
      * exists ROk. split; [|reflexivity].
        rewrite abs_colls_recmp.
        destruct fl as [|c0 [|c1 fl0]]; reflexivity.
    + same_state Hstep. reflexivity.
  - (* OVisit *)
    on_coll Hc Hstep c G Hb Ha Hr.
    + destruct (visit (cmp_of (c_cmp c)) asc (c_tree c) target 0
                  (visit_budget (c_tree c) stop)) as [[d b1] k1] eqn:V.
      inversion Hstep; subst s' r; clear Hstep. unfold abs; proj_cbn.
      split; [split; assumption|].
      eexists. split; [reflexivity|].
      cbn [erase]. f_equal.
      rewrite erase_spec_visit.
      rewrite <- (visit_refines (c_cmp c) (c_tree c) asc target stop Hb).
      rewrite V. reflexivity.
    + same_state Hstep. reflexivity.
  - (* OLen *)
    on_coll Hc Hstep c G Hb Ha Hr.
    + same_state Hstep. rewrite size_elems. reflexivity.
    + same_state Hstep. reflexivity.
Qed.

(* ================================================================== *)
(* D. the main theorem                                                 *)

Lemma step_cmpreg : forall s o s' r, step s o = (s', r) ->
  s_cmpreg s' = match o with
                | OColl name id => cset (s_cmpreg s) name id
                | _ => s_cmpreg s
                end.
Proof.
  intros [f cur fl reg] o s' r Hstep. unfold step in Hstep.
  destruct o; cbv beta zeta in Hstep; unfold with_cur in Hstep;
    cbn [s_file s_cur s_flushed s_cmpreg] in Hstep |- *;
    try (destruct (cget cur name) as [c|]);
    try (inversion Hstep; subst; reflexivity).
  - destruct (set_item (cmp_of (c_cmp c)) (c_tree c) key val prio);
      inversion Hstep; subst; reflexivity.
  - destruct (delete (cmp_of (c_cmp c)) (c_tree c) key);
      inversion Hstep; subst; reflexivity.
  - destruct f; inversion Hstep; subst; reflexivity.
  - destruct f; inversion Hstep; subst; reflexivity.
  - destruct f; inversion Hstep; subst; reflexivity.
  - destruct (visit (cmp_of (c_cmp c)) asc (c_tree c) target 0
                (visit_budget (c_tree c) stop)) as [[d b1] k1];
      inversion Hstep; subst; reflexivity.
Qed.

Lemma ops_ok_step : forall s o ops s' r,
  ops_ok (s_cmpreg s) (o :: ops) -> step s o = (s', r) ->
  ops_ok (s_cmpreg s) [o] /\ ops_ok (s_cmpreg s') ops.
Proof.
  intros s o ops s' r Hok Hstep.
  rewrite (step_cmpreg _ _ _ _ Hstep).
  destruct o; cbn [ops_ok] in Hok |- *; try (split; [exact I | exact Hok]).
  destruct Hok as [H1 H2]. split; [split; [exact H1 | exact I] | exact H2].
Qed.

Theorem run_refines : forall ops s, wf s -> ops_ok (s_cmpreg s) ops ->
  map erase (run s ops) = map erase (srun (abs s) ops).
Proof.
  induction ops as [|o ops IH]; intros s Hwf Hok; [reflexivity|].
  cbn [run srun].
  destruct (step s o) as [s' r] eqn:Hstep.
  destruct (ops_ok_step _ _ _ _ _ Hok Hstep) as [Hok1 Hok2].
  destruct (step_refines _ _ _ _ Hwf Hok1 Hstep) as [Hwf' [r' [Hs He]]].
  rewrite Hs. cbn [map]. rewrite He. f_equal. apply IH; assumption.
Qed.

Theorem c01_refines_sorted_map : forall file ops, ops_ok [] ops ->
  map erase (run (init file) ops) = map erase (srun (sinit file) ops).
Proof.
  intros file ops Hok.
  change (sinit file) with (abs (init file)).
  apply run_refines; [apply wf_init | exact Hok].
Qed.

(* the state reached by a history *)
Fixpoint exec (s : store) (ops : list op) : store :=
  match ops with
  | [] => s
  | o :: ops' => exec (fst (step s o)) ops'
  end.

Fixpoint sexec (s : sstore) (ops : list op) : sstore :=
  match ops with
  | [] => s
  | o :: ops' => sexec (fst (sstep s o)) ops'
  end.

(* every reachable state is well formed and abstracts to the state the
   specification reaches *)
Theorem run_wf : forall ops s, wf s -> ops_ok (s_cmpreg s) ops -> wf (exec s ops).
Proof.
  induction ops as [|o ops IH]; intros s Hwf Hok; [exact Hwf|].
  cbn [exec].
  destruct (step s o) as [s' r] eqn:Hstep. cbn [fst].
  destruct (ops_ok_step _ _ _ _ _ Hok Hstep) as [Hok1 Hok2].
  destruct (step_refines _ _ _ _ Hwf Hok1 Hstep) as [Hwf' _].
  apply IH; assumption.
Qed.

Theorem exec_refines : forall ops s, wf s -> ops_ok (s_cmpreg s) ops ->
  abs (exec s ops) = sexec (abs s) ops.
Proof.
  induction ops as [|o ops IH]; intros s Hwf Hok; [reflexivity|].
  cbn [exec sexec].
  destruct (step s o) as [s' r] eqn:Hstep. cbn [fst].
  destruct (ops_ok_step _ _ _ _ _ Hok Hstep) as [Hok1 Hok2].
  destruct (step_refines _ _ _ _ Hwf Hok1 Hstep) as [Hwf' [r' [Hs He]]].
  rewrite Hs. cbn [fst]. apply IH; assumption.
Qed.

Lemma ops_ok_app : forall ops1 ops2 reg, ops_ok reg (ops1 ++ ops2) -> ops_ok reg ops1.
Proof.
  induction ops1 as [|o ops1 IH]; intros ops2 reg H; [exact I|].
  cbn [app] in H. destruct o; cbn [ops_ok] in H |- *; try (eapply IH; exact H).
  destruct H as [H1 H2]. split; [exact H1 | eapply IH; exact H2].
Qed.

(* ... in particular after every prefix of an ok history *)
Corollary run_wf_prefix : forall ops1 ops2 s, wf s -> ops_ok (s_cmpreg s) (ops1 ++ ops2) ->
  wf (exec s ops1).
Proof.
  intros ops1 ops2 s Hwf Hok. apply run_wf; [exact Hwf|]. eapply ops_ok_app; exact Hok.
Qed.

(* what wf gives for the abstraction: every collection of every reachable
   state is a strictly sorted list under its comparator *)
Theorem wf_abs_sorted : forall s n c, wf s -> cget (ss_cur (abs s)) n = Some c ->
  sorted (cmp_of (sc_cmp c)) (sc_items c).
Proof.
  intros s n c [[Hs Hc] _] G. unfold abs in G; cbn [ss_cur] in G.
  rewrite cget_abs_colls in G.
  destruct (cget (s_cur s) n) as [c0|] eqn:G0; cbn [option_map] in G; [|discriminate G].
  inversion G; subst c. cbn [abs_coll sc_cmp sc_items].
  destruct (Hc _ _ G0) as [[Hb _] _].
  apply (bst_sorted _ (cmp_of_laws (c_cmp c0))). exact Hb.
Qed.

(* ================================================================== *)
(* E. the specification is a map from names to sorted maps (C12), and  *)
(*    rejects invalid items (C01)                                      *)

(* well-formed specification states: the current collection map and every
   flushed one are sorted by name.  (The flushed ones are needed because
   OReopen / ORevert make a flushed map current.) *)
Definition swf (s : sstore) : Prop :=
  names_sorted (ss_cur s) /\ Forall (fun cs : scolls => names_sorted cs) (ss_flushed s).

Lemma swf_sinit : forall f, swf (sinit f).
Proof. intro f. split; [exact I | constructor]. Qed.

Lemma wf_swf : forall s, wf s -> swf (abs s).
Proof.
  intros s [[Hs _] Hf]. split; cbn [abs ss_cur ss_flushed].
  - apply abs_colls_sorted. exact Hs.
  - apply Forall_map. eapply Forall_impl; [|exact Hf].
    intros cs [H _]. apply abs_colls_sorted. exact H.
Qed.

Definition op_name (o : op) : option bytes :=
  match o with
  | OColl n _ | ORmColl n | OSet n _ _ _ | ODel n _ | OGet n _ | OGetItem n _ _
  | OExist n _ | OMin n _ | OMax n _ | OTotals n | OEvict n | OVisit _ n _ _ _
  | OLen n => Some n
  | ONames | OFlush | OReopen | ORevert => None
  end.

Ltac sproj_cbn := cbn [ss_file ss_cur ss_flushed ss_cmpreg] in *.

(* case analysis of one specification step *)
Ltac sstep_inv Hstep :=
  unfold sstep in Hstep; cbv beta zeta in Hstep; unfold swith_cur in Hstep;
  cbn [ss_file ss_cur ss_flushed ss_cmpreg] in Hstep;
  repeat match type of Hstep with
  | context [match cget ?m ?n with _ => _ end] => destruct (cget m n) eqn:?
  | context [match ?v with Some _ => _ | None => _ end] => destruct v eqn:?
  | context [if ?b then _ else _] => destruct b eqn:?
  end; inversion Hstep; subst; clear Hstep; sproj_cbn.

Theorem c12_new_empty : forall s n id s' r,
  cget (ss_cur s) n = None -> sstep s (OColl n id) = (s', r) ->
  cget (ss_cur s') n = Some (mkSColl id []).
Proof.
  intros [f cur fl reg] n id s' r G Hstep. sproj_cbn.
  sstep_inv Hstep; [congruence|]. apply cget_cset_same.
Qed.

Theorem c12_existing_keeps_items : forall s n id c s' r,
  cget (ss_cur s) n = Some c -> sstep s (OColl n id) = (s', r) ->
  cget (ss_cur s') n = Some (mkSColl id (sc_items c)).
Proof.
  intros [f cur fl reg] n id c s' r G Hstep. sproj_cbn.
  sstep_inv Hstep; [|congruence]. rewrite cget_cset_same. congruence.
Qed.

Theorem c12_remove_then_create_empty : forall s n id s1 r1 s2 r2,
  swf s -> sstep s (ORmColl n) = (s1, r1) -> sstep s1 (OColl n id) = (s2, r2) ->
  cget (ss_cur s2) n = Some (mkSColl id []).
Proof.
  intros [f cur fl reg] n id s1 r1 s2 r2 [Hs _] H1 H2. sproj_cbn.
  sstep_inv H1. eapply c12_new_empty; [|exact H2].
  sproj_cbn. apply cget_cdel_same. exact Hs.
Qed.

(* removal really removes, and is the only thing it does to the name *)
Theorem c12_removed_absent : forall s n s' r,
  swf s -> sstep s (ORmColl n) = (s', r) -> cget (ss_cur s') n = None /\ r = ROk.
Proof.
  intros [f cur fl reg] n s' r [Hs _] H. sproj_cbn. sstep_inv H.
  split; [apply cget_cdel_same; exact Hs | reflexivity].
Qed.

Lemma hd_names_sorted : forall (fl : list scolls),
  Forall (fun cs : scolls => names_sorted cs) fl ->
  names_sorted (match fl with c :: _ => c | [] => [] end).
Proof. intros [|c fl] H; [exact I|]. inversion H; assumption. Qed.

Lemma tl_Forall : forall A (P : A -> Prop) (l : list A), Forall P l -> Forall P (tl l).
Proof. intros A P [|x l] H; [constructor|]. inversion H; assumption. Qed.

Lemma srecmp_sorted : forall reg cs, names_sorted cs -> names_sorted (srecmp reg cs).
Proof. intros reg cs H. rewrite srecmp_kmap. apply kmap_sorted. exact H. Qed.

Theorem c12_names_sorted : forall s o s' r, swf s -> sstep s o = (s', r) -> swf s'.
Proof.
  intros [f cur fl reg] o s' r [Hs Hf] Hstep. sproj_cbn. unfold swf.
  destruct o; sstep_inv Hstep;
    try (split; [first [apply cset_sorted | apply cdel_sorted | idtac]; assumption | assumption]).
  - (* OFlush *) split; [assumption | constructor; assumption].
  - (* OReopen *) split; [|assumption]. apply srecmp_sorted, hd_names_sorted. exact Hf.
  - (* ORevert *) split; [|apply tl_Forall; exact Hf].
    apply srecmp_sorted, hd_names_sorted, tl_Forall. exact Hf.
Qed.

Theorem c12_names_exact : forall s, sstep s ONames = (s, RNames (map fst (ss_cur s))).
Proof. reflexivity. Qed.

(* the names are strictly increasing bytewise, hence duplicate-free *)
Lemma keys_sorted_NoDup : forall l, keys_sorted l -> NoDup l.
Proof.
  induction l as [|k l IH]; intros H; [constructor|].
  destruct H as [H1 H2]. constructor; [|auto].
  intro Hin. rewrite Forall_forall in H1. specialize (H1 _ Hin).
  rewrite cmp_bytes_refl in H1. discriminate H1.
Qed.

Theorem c12_names_strict : forall s s' l, swf s -> sstep s ONames = (s', RNames l) ->
  keys_sorted l /\ NoDup l /\ forall n, In n l <-> cget (ss_cur s) n <> None.
Proof.
  intros s s' l [Hs _] H. rewrite c12_names_exact in H. inversion H; subst; clear H.
  split; [exact Hs|]. split; [apply keys_sorted_NoDup; exact Hs|].
  intro n. clear Hs. induction (ss_cur s') as [|[k v] m IH]; cbn [map fst In cget].
  - split; [intros [] | intro H; congruence].
  - destruct (cmp_bytes n k) eqn:E.
    + apply cmp_bytes_eq in E. subst k. split; [intros _; discriminate | auto].
    + rewrite <- IH. split; [intros [H|H]; [subst; rewrite cmp_bytes_refl in E; discriminate | exact H] | auto].
    + rewrite <- IH. split; [intros [H|H]; [subst; rewrite cmp_bytes_refl in E; discriminate | exact H] | auto].
Qed.

Theorem c12_others_untouched : forall s o n n' s' r,
  op_name o = Some n -> cmp_bytes n' n <> Eq -> sstep s o = (s', r) ->
  cget (ss_cur s') n' = cget (ss_cur s) n'.
Proof.
  intros [f cur fl reg] o n n' s' r Hn Hne Hstep. sproj_cbn.
  destruct o; cbn [op_name] in Hn; inversion Hn; subst; clear Hn;
    sstep_inv Hstep;
    first [ reflexivity
          | apply cget_cset_other; exact Hne
          | apply cget_cdel_other; exact Hne ].
Qed.

Theorem c12_durable_only_at_flush : forall s o s' r,
  sstep s o = (s', r) -> o <> OFlush -> o <> ORevert -> ss_flushed s' = ss_flushed s.
Proof.
  intros [f cur fl reg] o s' r Hstep H1 H2. sproj_cbn.
  destruct o; try congruence; sstep_inv Hstep; reflexivity.
Qed.

Theorem c12_flush_durable : forall s s' r, sstep s OFlush = (s', r) ->
  if ss_file s
  then ss_flushed s' = ss_cur s :: ss_flushed s /\ ss_cur s' = ss_cur s /\ r = ROk
  else s' = s /\ r = RErr.
Proof.
  intros [f cur fl reg] s' r Hstep. sproj_cbn. sstep_inv Hstep; auto.
Qed.

Theorem c12_revert_drops_last_flush : forall s s' r,
  ss_file s = true -> sstep s ORevert = (s', r) ->
  ss_flushed s' = tl (ss_flushed s) /\ r = ROk /\
  map fst (ss_cur s') = map fst (hd [] (ss_flushed s')) /\
  forall n, option_map sc_items (cget (ss_cur s') n) =
            option_map sc_items (cget (hd [] (ss_flushed s')) n).
Proof.
  intros [f cur fl reg] s' r Hf Hstep. sproj_cbn. subst f.
  sstep_inv Hstep. split; [reflexivity|]. split; [reflexivity|].
  unfold hd. rewrite srecmp_kmap. split; [apply kmap_fst|].
  intro n. rewrite cget_kmap. destruct (cget _ n); reflexivity.
Qed.

Theorem c12_reopen_shows_last_flush : forall s s' r,
  ss_file s = true -> sstep s OReopen = (s', r) ->
  map fst (ss_cur s') = map fst (hd [] (ss_flushed s)) /\
  forall n, option_map sc_items (cget (ss_cur s') n) =
            option_map sc_items (cget (hd [] (ss_flushed s)) n).
Proof.
  intros [f cur fl reg] s' r Hf Hstep. sproj_cbn. subst f.
  sstep_inv Hstep.
  unfold hd. rewrite srecmp_kmap. split; [apply kmap_fst|].
  intro n. rewrite cget_kmap. destruct (cget _ n); reflexivity.
Qed.

Theorem c12_reopen_no_file : forall s s' r,
  ss_file s = false -> sstep s OReopen = (s', r) -> s' = s /\ r = RNoFile.
Proof.
  intros [f cur fl reg] s' r Hf Hstep. sproj_cbn. subst f. sstep_inv Hstep. auto.
Qed.

Theorem c01_invalid_rejected : forall s n key val prio s' r,
  valid_item key val prio = false -> sstep s (OSet n key val prio) = (s', r) ->
  s' = s /\ (r = RErr \/ r = RNoColl).
Proof.
  intros [f cur fl reg] n key val prio s' r V Hstep. sproj_cbn.
  unfold sstep in Hstep; cbv beta zeta in Hstep; unfold swith_cur in Hstep. sproj_cbn.
  destruct (cget cur n) as [c|].
  - destruct val as [v|].
    + rewrite V in Hstep. inversion Hstep; auto.
    + inversion Hstep; auto.
  - inversion Hstep; auto.
Qed.

(* ================================================================== *)
(* For every operation but OVisit the answers agree exactly (erase is  *)
(* the identity on them).                                              *)

Definition is_visit (o : op) : bool :=
  match o with OVisit _ _ _ _ _ => true | _ => false end.

Lemma step_erase_id : forall s o s' r,
  is_visit o = false -> step s o = (s', r) -> erase r = r.
Proof.
  intros [f cur fl reg] o s' r Hv Hstep.
  destruct o; cbn [is_visit] in Hv; try discriminate Hv; clear Hv;
    unfold step in Hstep; cbv beta zeta in Hstep; unfold with_cur in Hstep;
    cbn [s_file s_cur s_flushed s_cmpreg] in Hstep;
    repeat match type of Hstep with
    | context [match cget ?m ?n with _ => _ end] => destruct (cget m n) eqn:?
    | context [match ?v with (_, _) => _ end] => destruct v eqn:?
    | context [match ?v with Some _ => _ | None => _ end] => destruct v eqn:?
    | context [if ?b then _ else _] => destruct b eqn:?
    end; inversion Hstep; subst; reflexivity.
Qed.

Lemma sstep_erase_id : forall s o s' r,
  is_visit o = false -> sstep s o = (s', r) -> erase r = r.
Proof.
  intros [f cur fl reg] o s' r Hv Hstep.
  destruct o; cbn [is_visit] in Hv; try discriminate Hv; clear Hv;
    sstep_inv Hstep; reflexivity.
Qed.

Theorem step_refines_exact : forall s o s' r,
  wf s -> ops_ok (s_cmpreg s) [o] -> is_visit o = false -> step s o = (s', r) ->
  wf s' /\ sstep (abs s) o = (abs s', r).
Proof.
  intros s o s' r Hwf Hok Hv Hstep.
  destruct (step_refines _ _ _ _ Hwf Hok Hstep) as [Hwf' [r' [Hs He]]].
  split; [exact Hwf'|].
  rewrite (step_erase_id _ _ _ _ Hv Hstep), (sstep_erase_id _ _ _ _ Hv Hs) in He.
  subst r'. exact Hs.
Qed.

(* Why swf has to speak about the flushed maps too: if only ss_cur is
   required to be sorted, OReopen does not preserve the invariant. *)
Example swf_cur_only_not_preserved :
  let s := mkSStore true [] [[([2%N], mkSColl 0 []); ([1%N], mkSColl 0 [])]] [] in
  names_sorted (ss_cur s) /\ ~ names_sorted (ss_cur (fst (sstep s OReopen))).
Proof.
  split; [exact I|]. cbn. intros [H _]. inversion H; subst. discriminate.
Qed.
