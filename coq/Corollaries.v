(* Corollaries.v — compositions of the main lemmas, stated the way the
   properties speak (used by Props/*.v). *)
From GK Require Import Base Order Treap TreapSpec Store StoreSpec StoreRefine.

(* every state reachable from the empty store by a comparator-consistent history is
   well formed: every collection's tree (current and flushed) is a search tree under its
   comparator with exact aggregates at every node *)
Lemma reachable_wf : forall file ops, ops_ok [] ops -> wf (exec (init file) ops).
Proof.
  intros file ops H. apply run_wf; [apply wf_init | exact H].
Qed.

Lemma reachable_tree_invariants : forall file ops n c, ops_ok [] ops ->
  cget (s_cur (exec (init file) ops)) n = Some c ->
  bst (cmp_of (c_cmp c)) (c_tree c) /\ aggs (c_tree c).
Proof.
  intros file ops n c H Hc. pose proof (reachable_wf file ops H) as [[_ Hw] _].
  destruct (Hw n c Hc) as [Hwf _]. exact Hwf.
Qed.

(* the depth of every item is a function of the shape alone *)
Lemma depths_shape : forall a b d, shape_of a = shape_of b -> depths a d = depths b d.
Proof.
  induction a as [|nl l IHl il it nn nb r IHr]; intros b d H; destruct b as [|nl' l' il' it' nn' nb' r'];
    cbn [shape_of] in H; try discriminate; [reflexivity|].
  injection H as Hl Hi Hr. subst it'. cbn [depths].
  rewrite (IHl l' (d + 1) Hl), (IHr r' (d + 1) Hr). reflexivity.
Qed.

(* with pairwise distinct priorities the depth of every item is determined by the
   current keys and priorities alone *)
Lemma depth_canonical : forall cmp a b, bst cmp a -> bst cmp b -> heap a -> heap b ->
  elems a = elems b -> NoDup (map iprio (elems a)) -> forall d, depths a d = depths b d.
Proof.
  intros cmp a b Ha Hb Hha Hhb He Hn d. apply depths_shape.
  eapply treap_unique; eauto.
Qed.

(* SetItem / Delete preserve heap order unless a key is overwritten with a lower priority *)
Lemma set_item_heap : forall cmp, cmp_laws cmp -> forall t key v prio t',
  bst cmp t -> heap t ->
  (forall old, find cmp key (elems t) = Some old -> iprio old <= prio) ->
  set_item cmp t key (Some v) prio = Some t' -> heap t'.
Proof.
  intros cmp L t key v prio t' Hb Hh Hold Hs.
  destruct (valid_item key (Some v) prio) eqn:Hv.
  - rewrite (set_item_spec cmp t key v prio Hv) in Hs. injection Hs as <-.
    apply insert_heap; auto.
  - rewrite (set_item_invalid cmp t key (Some v) prio Hv) in Hs. discriminate.
Qed.

Lemma delete_heap : forall cmp, cmp_laws cmp -> forall t k t' b,
  bst cmp t -> heap t -> delete cmp t k = (t', b) -> heap t'.
Proof.
  intros cmp L t k t' b Hb Hh Hd.
  destruct (delete_spec cmp L t k t' b Hb Hd) as (_ & _ & _ & _ & H). exact (H Hh).
Qed.
