(* Layout.v — the constants and record layouts that the Go source uses NOW
   (Generated.v, rewritten by tools/gen on every run) are those of file layout
   version 4 as written out independently in Codec.v and below. *)
From Coq Require Import String.
From GK Require Import Base Codec Generated.
Open Scope string_scope.

Definition v4_node_fields : list string :=
  ["item:ploc"; "left:ploc"; "right:ploc"; "numNodes:u64be"; "numBytes:u64be"].
Definition v4_ploc_fields : list string := ["Offset:u64be"; "Length:u32be"].
(* item header: length, keyLength (32-bit since keyPSize = 4; the 16-bit branch is dead), valLength, priority *)
Definition v4_item_fields : list string :=
  ["uint32@lenLoc:PutUint32"; "uint16@keyLoc:PutUint16"; "uint32@keyLoc:PutUint32";
   "uint32@valLoc:PutUint32"; "uint32@priLoc:PutUint32"].
Definition v4_root_fields : list string :=
  ["MagicBeg"; "MagicBeg"; "binary.BigEndian:uint32"; "binary.BigEndian:uint32"; "sJSON";
   "binary.BigEndian:int64"; "binary.BigEndian:uint32"; "MagicEnd"; "MagicEnd"].

Definition generated_layout :=
  (g_version, g_ploc_length, g_item_hdr_length, (g_len_loc, g_key_loc, g_val_loc, g_pri_loc, g_pri_sz),
   g_keyp_size, g_roots_end_len, g_roots_len, g_magic_beg, g_magic_end,
   g_node_enc, g_node_dec, g_ploc_enc, g_item_enc, g_root_enc).

Definition v4_layout :=
  (Codec.version, ploc_len, item_hdr_len, (0, 4, 8, 12, 16)%Z,
   4%Z, roots_end_len, roots_len, magic_beg, magic_end,
   v4_node_fields, v4_node_fields, v4_ploc_fields, v4_item_fields, v4_root_fields).

Lemma layout_is_v4 : generated_layout = v4_layout.
Proof. reflexivity. Qed.

(* the derived sizes used by Codec.v agree with the field lists *)
Lemma node_len_is_fields : node_len = (3 * ploc_len + 8 + 8)%Z.
Proof. reflexivity. Qed.
Lemma roots_len_is_fields : roots_len = (2 * blen magic_beg + 4 + 4 + roots_end_len)%Z /\
                            roots_end_len = (8 + 4 + 2 * blen magic_end)%Z.
Proof. split; reflexivity. Qed.

Lemma max_block_cnt_is_1024 : g_max_block_cnt = 1024%Z.
Proof. reflexivity. Qed.
