(* HeapHistory.v — property C13 over whole histories: as long as no key is overwritten
   with a lower priority than it had, no child outranks its parent in any collection of
   any reachable state (current or flushed); and with pairwise distinct priorities the
   shape (hence every depth) is a function of the final items alone. *)
From GK Require Import Base Order Treap TreapSpec Store StoreSpec StoreRefine Corollaries.

Definition heap_colls (cs : colls) : Prop := forall n c, cget cs n = Some c -> heap (c_tree c).
Definition heap_store (s : store) : Prop := heap_colls (s_cur s) /\ Forall heap_colls (s_flushed s).

(* the history never overwrites a key with a lower priority: checked against the model
   state as it evolves *)
Fixpoint no_lower_overwrite (s : store) (ops : list op) : Prop :=
  match ops with
  | [] => True
  | o :: ops' =>
    (match o with
     | OSet name key (Some v) prio =>
         match cget (s_cur s) name with
         | Some c => match lookup (cmp_of (c_cmp c)) (c_tree c) key with
                     | Some old => iprio old <= prio
                     | None => True
                     end
         | None => True
         end
     | _ => True
     end) /\ no_lower_overwrite (fst (step s o)) ops'
  end.

(* ---------- heap_colls under the map operations ---------- *)

Lemma heap_colls_nil : heap_colls [].
Proof. intros n c H. discriminate H. Qed.

Lemma heap_store_init : forall f, heap_store (init f).
Proof. intro f. split; [apply heap_colls_nil | constructor]. Qed.

Lemma heap_colls_cset : forall cs n c,
  heap_colls cs -> heap (c_tree c) -> heap_colls (cset cs n c).
Proof.
  intros cs n c Hc Hh n' c' G.
  destruct (cmp_bytes n' n) eqn:E.
  - apply cmp_bytes_eq in E. subst n'. rewrite cget_cset_same in G.
    inversion G; subst c'. exact Hh.
  - rewrite cget_cset_other in G by congruence. eapply Hc. exact G.
  - rewrite cget_cset_other in G by congruence. eapply Hc. exact G.
Qed.

Lemma heap_colls_cdel : forall (cs : colls) n,
  names_sorted cs -> heap_colls cs -> heap_colls (cdel cs n).
Proof.
  intros cs n Hs Hc n' c' G.
  destruct (cmp_bytes n' n) eqn:E.
  - apply cmp_bytes_eq in E. subst n'. rewrite cget_cdel_same in G by exact Hs. discriminate G.
  - rewrite cget_cdel_other in G by congruence. eapply Hc. exact G.
  - rewrite cget_cdel_other in G by congruence. eapply Hc. exact G.
Qed.

(* re-opening installs the registered comparators but keeps the trees *)
Lemma heap_colls_recmp : forall reg cs, heap_colls cs -> heap_colls (recmp reg cs).
Proof.
  intros reg cs Hc n c G. rewrite recmp_kmap, cget_kmap in G.
  destruct (cget cs n) as [c0|] eqn:G0; cbn [option_map] in G; [|discriminate G].
  inversion G; subst c. cbn [c_tree]. eapply Hc. exact G0.
Qed.

Lemma hd_heap_colls : forall (fl : list colls),
  Forall heap_colls fl -> heap_colls (match fl with c :: _ => c | [] => [] end).
Proof.
  intros fl H. destruct fl as [|c fl]; [apply heap_colls_nil|].
  inversion H; assumption.
Qed.

(* ---------- A1: one step ---------- *)

Lemma heap_step_rel : forall s o s' r,
  wf s -> heap_store s -> ops_ok (s_cmpreg s) [o] -> no_lower_overwrite s [o] ->
  step s o = (s', r) -> heap_store s'.
Proof.
  intros [f cur fl reg] o s' r [Hc Hf] [Hh Hhf] Hok Hno Hstep.
  cbn [s_cmpreg s_cur s_flushed] in Hc, Hf, Hh, Hhf, Hok.
  cbn [no_lower_overwrite] in Hno. destruct Hno as [Hno _].
  unfold step in Hstep.
  destruct o; cbv beta zeta in Hstep; unfold with_cur in Hstep;
    cbn [s_file s_cur s_flushed s_cmpreg] in Hstep, Hno.
  - (* OColl: keeps the tree or installs E *)
    inversion Hstep; subst s' r; clear Hstep.
    split; cbn [s_cur s_flushed]; [|exact Hhf].
    apply heap_colls_cset; [exact Hh|]. cbn [c_tree].
    destruct (cget cur name) as [c|] eqn:G; [eapply Hh; exact G | exact I].
  - (* ORmColl *)
    inversion Hstep; subst s' r; clear Hstep.
    split; cbn [s_cur s_flushed]; [|exact Hhf].
    apply heap_colls_cdel; [exact (proj1 Hc) | exact Hh].
  - (* ONames *)
    inversion Hstep; subst s' r; split; assumption.
  - (* OSet *)
    destruct (cget cur name) as [c|] eqn:G.
    + destruct (proj2 Hc _ _ G) as [[Hb Ha] Hr].
      destruct (set_item (cmp_of (c_cmp c)) (c_tree c) key val prio) as [t'|] eqn:S.
      * inversion Hstep; subst s' r; clear Hstep.
        split; cbn [s_cur s_flushed]; [|exact Hhf].
        apply heap_colls_cset; [exact Hh|]. cbn [c_tree].
        destruct val as [v|]; [|rewrite set_item_none in S; discriminate S].
        eapply (set_item_heap (cmp_of (c_cmp c)) (cmp_of_laws (c_cmp c))); [exact Hb | eapply Hh; exact G | | exact S].
        intros old Hfind.
        rewrite (lookup_spec _ (cmp_of_laws (c_cmp c)) _ _ Hb), Hfind in Hno. exact Hno.
      * inversion Hstep; subst s' r; split; assumption.
    + inversion Hstep; subst s' r; split; assumption.
  - (* ODel *)
    destruct (cget cur name) as [c|] eqn:G.
    + destruct (proj2 Hc _ _ G) as [[Hb Ha] Hr].
      destruct (delete (cmp_of (c_cmp c)) (c_tree c) key) as [t' b] eqn:D.
      inversion Hstep; subst s' r; clear Hstep.
      split; cbn [s_cur s_flushed]; [|exact Hhf].
      apply heap_colls_cset; [exact Hh|]. cbn [c_tree].
      eapply (delete_heap (cmp_of (c_cmp c)) (cmp_of_laws (c_cmp c))); [exact Hb | eapply Hh; exact G | exact D].
    + inversion Hstep; subst s' r; split; assumption.
  - (* OGet *)
    destruct (cget cur name) as [c|]; inversion Hstep; subst s' r; split; assumption.
  - (* OGetItem *)
    destruct (cget cur name) as [c|]; inversion Hstep; subst s' r; split; assumption.
  - (* OExist *)
    destruct (cget cur name) as [c|]; inversion Hstep; subst s' r; split; assumption.
  - (* OMin *)
    destruct (cget cur name) as [c|]; inversion Hstep; subst s' r; split; assumption.
  - (* OMax *)
    destruct (cget cur name) as [c|]; inversion Hstep; subst s' r; split; assumption.
  - (* OTotals *)
    destruct (cget cur name) as [c|].
    + destruct (totals (c_tree c)) as [n0 b0]. inversion Hstep; subst s' r; split; assumption.
    + inversion Hstep; subst s' r; split; assumption.
  - (* OFlush: pushes the current collections *)
    destruct f.
    + inversion Hstep; subst s' r; clear Hstep.
      split; cbn [s_cur s_flushed]; [exact Hh|]. constructor; assumption.
    + inversion Hstep; subst s' r; split; assumption.
  - (* OEvict *)
    destruct (cget cur name) as [c|]; inversion Hstep; subst s' r; split; assumption.
  - (* OReopen *)
    destruct f.
    + inversion Hstep; subst s' r; clear Hstep.
      split; cbn [s_cur s_flushed]; [|exact Hhf].
      apply heap_colls_recmp. apply hd_heap_colls. exact Hhf.
    + inversion Hstep; subst s' r; split; assumption.
  - (* ORevert *)
    destruct f.
    + inversion Hstep; subst s' r; clear Hstep.
      assert (Hhf' : Forall heap_colls (tl fl)) by (apply tl_Forall; exact Hhf).
      split; cbn [s_cur s_flushed]; [|exact Hhf'].
      apply heap_colls_recmp. apply hd_heap_colls. exact Hhf'.
    + inversion Hstep; subst s' r; split; assumption.
  - (* OVisit *)
    destruct (cget cur name) as [c|].
    + destruct (visit (cmp_of (c_cmp c)) asc (c_tree c) target 0
                  (visit_budget (c_tree c) stop)) as [[d b1] k1].
      inversion Hstep; subst s' r; split; assumption.
    + inversion Hstep; subst s' r; split; assumption.
  - (* OLen *)
    destruct (cget cur name) as [c|]; inversion Hstep; subst s' r; split; assumption.
Qed.

Theorem heap_step : forall s o,
  wf s -> heap_store s -> ops_ok (s_cmpreg s) [o] -> no_lower_overwrite s [o] ->
  heap_store (fst (step s o)).
Proof.
  intros s o Hwf Hh Hok Hno.
  destruct (step s o) as [s' r] eqn:Hstep. cbn [fst].
  eapply heap_step_rel; eauto.
Qed.

(* ---------- A2: whole histories ---------- *)

Theorem heap_history : forall ops s,
  wf s -> heap_store s -> ops_ok (s_cmpreg s) ops -> no_lower_overwrite s ops ->
  heap_store (exec s ops).
Proof.
  induction ops as [|o ops IH]; intros s Hwf Hh Hok Hno; [exact Hh|].
  cbn [exec]. cbn [no_lower_overwrite] in Hno. destruct Hno as [Hno1 Hno2].
  destruct (step s o) as [s' r] eqn:Hstep. cbn [fst] in Hno2 |- *.
  destruct (ops_ok_step _ _ _ _ _ Hok Hstep) as [Hok1 Hok2].
  destruct (step_refines _ _ _ _ Hwf Hok1 Hstep) as [Hwf' _].
  apply IH; try assumption.
  eapply heap_step_rel; [exact Hwf | exact Hh | exact Hok1 | | exact Hstep].
  cbn [no_lower_overwrite]. split; [exact Hno1 | exact I].
Qed.

Theorem c13_heap_history : forall file ops,
  ops_ok [] ops -> no_lower_overwrite (init file) ops -> heap_store (exec (init file) ops).
Proof.
  intros file ops Hok Hno.
  apply heap_history; [apply wf_init | apply heap_store_init | exact Hok | exact Hno].
Qed.

(* every collection of the state reached by such a history is heap ordered *)
Corollary c13_heap_reachable : forall file ops n c,
  ops_ok [] ops -> no_lower_overwrite (init file) ops ->
  cget (s_cur (exec (init file) ops)) n = Some c -> heap (c_tree c).
Proof.
  intros file ops n c Hok Hno G.
  destruct (c13_heap_history file ops Hok Hno) as [Hh _]. eapply Hh. exact G.
Qed.

(* ---------- A3: canonical shape over histories ---------- *)

Theorem c13_history_canonical : forall f1 f2 ops1 ops2 n c1 c2,
  ops_ok [] ops1 -> ops_ok [] ops2 ->
  no_lower_overwrite (init f1) ops1 -> no_lower_overwrite (init f2) ops2 ->
  cget (s_cur (exec (init f1) ops1)) n = Some c1 ->
  cget (s_cur (exec (init f2) ops2)) n = Some c2 ->
  c_cmp c1 = c_cmp c2 ->
  elems (c_tree c1) = elems (c_tree c2) ->
  NoDup (map iprio (elems (c_tree c1))) ->
  shape_of (c_tree c1) = shape_of (c_tree c2) /\
  forall d, depths (c_tree c1) d = depths (c_tree c2) d.
Proof.
  intros f1 f2 ops1 ops2 n c1 c2 Hok1 Hok2 Hno1 Hno2 G1 G2 Hcmp He Hnd.
  destruct (reachable_tree_invariants f1 ops1 n c1 Hok1 G1) as [Hb1 _].
  destruct (reachable_tree_invariants f2 ops2 n c2 Hok2 G2) as [Hb2 _].
  rewrite <- Hcmp in Hb2.
  pose proof (c13_heap_reachable f1 ops1 n c1 Hok1 Hno1 G1) as Hh1.
  pose proof (c13_heap_reachable f2 ops2 n c2 Hok2 Hno2 G2) as Hh2.
  split.
  - eapply (treap_unique (cmp_of (c_cmp c1))); eassumption.
  - eapply (depth_canonical (cmp_of (c_cmp c1))); eassumption.
Qed.
