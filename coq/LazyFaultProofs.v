(* LazyFaultProofs.v — the fault model of LazyFault.v (a key-only lookup when ONE ReadAt call fails):
   RF0 without a fault inside the call the reads are the fault-free ones, RF1 with a fault at call k the calls
   issued are the first k+1 fault-free calls, RF2 the cache only grows and only by touched records,
   RF3 the retried call reads exactly what the failed call had not completely read, RF4 attempt and retry
   never read a value, RF5 the file-level function computes the tree-level one, RF6 the retry is a suffix. *)
From GK Require Import Base Treap TreapSpec Codec CodecProofs Disk DiskProofs Lazy LazyProofs LazyVisit LazyMut LazyMutProofs LazyFault.
From Coq Require Import Lia ZArith NArith List Bool.
Import ListNotations.
Open Scope Z_scope.

(* ------------------------------------------------------------------ *)
(* the two presentations of offsets / reads of a touch agree *)

Lemma toff_eq x : LazyFault.toff x = LazyMutProofs.toff x.
Proof. destruct x; reflexivity. Qed.

Lemma treads_eq x : treads x = touch_reads x.
Proof. destruct x; reflexivity. Qed.

(* reads_of, uniformly in the kind of touch *)
Lemma reads_of_cons s x r :
  reads_of s (x :: r) =
  if seen (LazyFault.toff x) s then reads_of s r
  else treads x ++ reads_of (LazyFault.toff x :: s) r.
Proof. destruct x; reflexivity. Qed.

Lemma run_fault_cons k s x r :
  run_fault k s (x :: r) =
  if seen (LazyFault.toff x) s then run_fault k s r else
  if (k <? length (treads x))%nat then (firstn (S k) (treads x), s, true)
  else let '(rr, s', f) := run_fault (k - length (treads x)) (LazyFault.toff x :: s) r in
       (treads x ++ rr, s', f).
Proof. reflexivity. Qed.

Lemma treads_len x : (1 <= length (treads x) <= 2)%nat.
Proof. destruct x; cbn; lia. Qed.

Lemma seen_cons_self o s : seen o (o :: s) = true.
Proof. apply seen_spec. now left. Qed.

Lemma Forall_firstn_ {A} (P : A -> Prop) : forall n l, Forall P l -> Forall P (firstn n l).
Proof.
  induction n as [|n IH]; intros l H; [constructor|].
  destruct H as [|a l Ha Hl]; [constructor|]. cbn [firstn]. constructor; [exact Ha|apply IH; exact Hl].
Qed.

(* ------------------------------------------------------------------ *)
(* RF0 *)

Theorem run_fault_none ts : forall k s,
  (length (reads_of s ts) <= k)%nat ->
  fst (fst (run_fault k s ts)) = reads_of s ts /\ snd (run_fault k s ts) = false.
Proof.
  induction ts as [|x r IH]; intros k s H; [split; reflexivity|].
  rewrite reads_of_cons in *. rewrite run_fault_cons.
  destruct (seen (LazyFault.toff x) s); [apply IH; exact H|].
  rewrite app_length in H.
  destruct (Nat.ltb_spec k (length (treads x))) as [Hlt|Hge]; [lia|].
  destruct (IH (k - length (treads x))%nat (LazyFault.toff x :: s)) as [A B]; [lia|].
  destruct (run_fault (k - length (treads x)) (LazyFault.toff x :: s) r) as [[rr s'] f].
  cbn [fst snd] in *. subst. split; reflexivity.
Qed.

(* ------------------------------------------------------------------ *)
(* RF1 *)

Theorem run_fault_prefix ts : forall k s,
  (k < length (reads_of s ts))%nat ->
  fst (fst (run_fault k s ts)) = firstn (S k) (reads_of s ts) /\ snd (run_fault k s ts) = true.
Proof.
  induction ts as [|x r IH]; intros k s H; [cbn in H; lia|].
  rewrite reads_of_cons in *. rewrite run_fault_cons.
  destruct (seen (LazyFault.toff x) s); [apply IH; exact H|].
  rewrite app_length in H. rewrite firstn_app.
  destruct (Nat.ltb_spec k (length (treads x))) as [Hlt|Hge].
  - cbn [fst snd]. split; [|reflexivity].
    replace (S k - length (treads x))%nat with O by lia.
    rewrite firstn_O, app_nil_r. reflexivity.
  - destruct (IH (k - length (treads x))%nat (LazyFault.toff x :: s)) as [A B]; [lia|].
    destruct (run_fault (k - length (treads x)) (LazyFault.toff x :: s) r) as [[rr s'] f].
    cbn [fst snd] in *. subst. split; [|reflexivity].
    rewrite (firstn_all2 (n := S k)) by lia.
    replace (S k - length (treads x))%nat with (S (k - length (treads x))) by lia. reflexivity.
Qed.

(* ------------------------------------------------------------------ *)
(* RF2 *)

Theorem run_fault_seen ts : forall k s o,
  In o (snd (fst (run_fault k s ts))) -> In o s \/ exists x, In x ts /\ LazyFault.toff x = o.
Proof.
  induction ts as [|x r IH]; intros k s o H; [left; exact H|].
  rewrite run_fault_cons in H.
  destruct (seen (LazyFault.toff x) s).
  { destruct (IH k s o H) as [A|(y & Hy & E)]; [left; exact A|]. right. exists y. split; [now right|exact E]. }
  destruct (k <? length (treads x))%nat; [left; exact H|].
  specialize (IH (k - length (treads x))%nat (LazyFault.toff x :: s) o).
  destruct (run_fault (k - length (treads x)) (LazyFault.toff x :: s) r) as [[rr s'] f].
  cbn [fst snd] in *. destruct (IH H) as [[A|A]|(y & Hy & E)].
  - right. exists x. split; [now left|exact A].
  - left. exact A.
  - right. exists y. split; [now right|exact E].
Qed.

Theorem run_fault_seen_mono ts : forall k s o, In o s -> In o (snd (fst (run_fault k s ts))).
Proof.
  induction ts as [|x r IH]; intros k s o H; [exact H|].
  rewrite run_fault_cons.
  destruct (seen (LazyFault.toff x) s); [apply IH; exact H|].
  destruct (k <? length (treads x))%nat; [exact H|].
  specialize (IH (k - length (treads x))%nat (LazyFault.toff x :: s) o).
  destruct (run_fault (k - length (treads x)) (LazyFault.toff x :: s) r) as [[rr s'] f].
  cbn [fst snd] in *. apply IH. now right.
Qed.

(* ------------------------------------------------------------------ *)
(* RF3 *)

Theorem retry_reads_the_rest ts : forall k s,
  (k < length (reads_of s ts))%nat ->
  let s' := snd (fst (run_fault k s ts)) in
  exists m : nat, (m <= k)%nat /\ (k - m <= 1)%nat /\
    reads_of s ts = firstn m (reads_of s ts) ++ reads_of s' ts.
Proof.
  induction ts as [|x r IH]; intros k s H; [cbn in H; lia|].
  cbv zeta.
  (* x is in memory after the call whenever it was before, or was added *)
  rewrite (reads_of_cons (snd (fst (run_fault k s (x :: r)))) x r).
  rewrite (reads_of_cons s x r) in *.
  pose proof (run_fault_seen_mono (x :: r) k s (LazyFault.toff x)) as Hmono.
  rewrite run_fault_cons in *.
  destruct (seen (LazyFault.toff x) s) eqn:Es.
  { apply seen_spec in Es. apply Hmono in Es. apply seen_spec in Es. rewrite Es.
    apply (IH k s H). }
  clear Hmono. rewrite app_length in H. pose proof (treads_len x) as Hl.
  destruct (Nat.ltb_spec k (length (treads x))) as [Hlt|Hge].
  - cbn [fst snd]. rewrite Es. exists O. split; [lia|]. split; [lia|]. reflexivity.
  - assert (Hk : (k - length (treads x) < length (reads_of (LazyFault.toff x :: s) r))%nat) by lia.
    pose proof (IH _ _ Hk) as IH'. cbv zeta in IH'.
    pose proof (run_fault_seen_mono r (k - length (treads x))%nat (LazyFault.toff x :: s)
                  (LazyFault.toff x) (or_introl eq_refl)) as Hin.
    destruct (run_fault (k - length (treads x)) (LazyFault.toff x :: s) r) as [[rr s'] f].
    cbn [fst snd] in *. apply seen_spec in Hin. rewrite Hin.
    destruct IH' as (m & Hm1 & Hm2 & Hm3).
    exists (length (treads x) + m)%nat. split; [lia|]. split; [lia|].
    rewrite firstn_app_2, <- app_assoc, <- Hm3. reflexivity.
Qed.

(* ------------------------------------------------------------------ *)
(* RF6 *)

Theorem retry_is_suffix ts : forall k s,
  (k < length (reads_of s ts))%nat ->
  exists pre, reads_of s ts = pre ++ reads_of (snd (fst (run_fault k s ts))) ts.
Proof.
  intros k s H. destruct (retry_reads_the_rest ts k s H) as (m & _ & _ & E).
  exists (firstn m (reads_of s ts)). exact E.
Qed.

(* ------------------------------------------------------------------ *)
(* RF4 *)

Lemma run_fault_attempt_firstn ts k s :
  exists n, fst (fst (run_fault k s ts)) = firstn n (reads_of s ts).
Proof.
  destruct (Nat.le_gt_cases (length (reads_of s ts)) k) as [Hle|Hlt].
  - exists (length (reads_of s ts)). rewrite firstn_all. apply run_fault_none. exact Hle.
  - exists (S k). apply run_fault_prefix. exact Hlt.
Qed.

Theorem get_fault_key_only cmp t key k :
  let '(attempt, retry, _) := get_fault_reads cmp t key k in
  Forall (fun r => in_node t r \/ in_keypart t r) attempt /\
  Forall (fun r => in_node t r \/ in_keypart t r) retry.
Proof.
  unfold get_fault_reads.
  destruct (run_fault_attempt_firstn (get_t cmp t key) k []) as (n & Hn).
  destruct (run_fault k [] (get_t cmp t key)) as [[attempt s'] failed].
  cbn [fst] in Hn. subst attempt. split.
  - apply Forall_firstn_. apply (reads_of_key_only t). apply get_t_in.
  - apply (reads_of_key_only t). apply get_t_in.
Qed.

(* ------------------------------------------------------------------ *)
(* RF5 *)

Theorem get_fault_file_spec cmp f t b key k :
  rep f t -> persisted t -> below t b -> (Treap.size t <= S (length f))%nat ->
  get_fault_file cmp f (root_loc t) b key k = Some (get_fault_reads cmp t key k).
Proof.
  intros Hrep Hper Hb Hs. unfold get_fault_file.
  pose proof (rep_height_le_file f t Hrep Hper) as Hh.
  rewrite (load_rep f t b (S (length f)) (S (length f)) Hrep Hper Hb Hs) by lia.
  reflexivity.
Qed.

(* ------------------------------------------------------------------ *)
(* non-vacuity *)

Definition ex_tree : tree :=
  T (Some (mkPloc 100 52)) (T (Some (mkPloc 40 52)) E (Some (mkPloc 20 20)) (mkItem [97%N] [1%N] 3) 1 2 E)
    (Some (mkPloc 0 20)) (mkItem [98%N] [1%N] 9) 2 4 E.

Example ex_fault_get : exists t key, persisted t /\ (length (reads_of [] (get_t cmp_bytes t key)) = 6)%nat /\
  forall k, (k < 6)%nat -> snd (get_fault_reads cmp_bytes t key k) = true.
Proof.
  exists ex_tree, [97%N]. split; [|split].
  - unfold ex_tree. cbn [persisted]. repeat split; discriminate.
  - vm_compute. reflexivity.
  - intros k Hk. do 6 (destruct k as [|k]; [vm_compute; reflexivity|]). lia.
Qed.

(* attempt ++ retry at each fault position: the failed call issued the first k+1 calls; the retry starts again at
   the record whose read was interrupted *)
Example ex_fault_get_shape :
  get_fault_reads cmp_bytes ex_tree [97%N] 1 =
    ([Rd 100 52; Rd 0 16], [Rd 0 16; Rd 16 1; Rd 40 52; Rd 20 16; Rd 36 1], true) /\
  get_fault_reads cmp_bytes ex_tree [97%N] 2 =
    ([Rd 100 52; Rd 0 16; Rd 16 1], [Rd 0 16; Rd 16 1; Rd 40 52; Rd 20 16; Rd 36 1], true) /\
  get_fault_reads cmp_bytes ex_tree [97%N] 3 =
    ([Rd 100 52; Rd 0 16; Rd 16 1; Rd 40 52], [Rd 40 52; Rd 20 16; Rd 36 1], true) /\
  get_fault_reads cmp_bytes ex_tree [97%N] 6 =
    ([Rd 100 52; Rd 0 16; Rd 16 1; Rd 40 52; Rd 20 16; Rd 36 1], [], false).
Proof. vm_compute. repeat split. Qed.

Print Assumptions run_fault_none.
Print Assumptions run_fault_prefix.
Print Assumptions run_fault_seen.
Print Assumptions run_fault_seen_mono.
Print Assumptions retry_reads_the_rest.
Print Assumptions retry_is_suffix.
Print Assumptions get_fault_key_only.
Print Assumptions get_fault_file_spec.
Print Assumptions ex_fault_get.
Print Assumptions ex_fault_get_shape.
