(* DecMarks.v — part of the decision theorems (see DecBase.v): the reclaim marks.
   A mutation marks the nodes it replaces; when it fails, unmarkReclaimable must clear EVERY mark it left, wherever it is
   (union marks a node only after both recursive calls returned, so marked nodes can sit below an unmarked one): it walks
   the whole loaded tree, taking the lock for each node and releasing it before it descends. *)
From GK Require Import Base Treap Codec Blocks GExpr Generated DecBase.
From Coq Require Import ZArith NArith List String Bool Lia.
Import ListNotations.
Open Scope string_scope.
Open Scope list_scope.
Open Scope Z_scope.

Theorem unmark_walks_the_whole_tree :
  body "Collection.unmarkReclaimable" =
    [SIf [] (GCall "nloc.isEmpty" []) [SReturn []] [];
     SAssign [GVar "n"] ":=" [GCall "nloc.Node" []];
     SIf [] (GBin "==" (GVar "n") GNil) [SReturn []] [];
     SExpr (GCall "t.rootLock.Lock" []);
     SIf [] (GBin "==" (GVar "n.next") (GVar "reclaimMark")) [SAssign [GVar "n.next"] "=" [GNil]] [];
     SExpr (GCall "t.rootLock.Unlock" []);
     SExpr (GCall "t.unmarkReclaimable" [GUn "&" (GVar "n.left"); GVar "reclaimMark"]);
     SExpr (GCall "t.unmarkReclaimable" [GUn "&" (GVar "n.right"); GVar "reclaimMark"])] /\
  body "Collection.markReclaimable" =
    [SExpr (GCall "t.rootLock.Lock" []);
     SDefer (GCall "t.rootLock.Unlock" []);
     SIf [] (GBin "||" (GBin "||" (GBin "==" (GVar "n") GNil) (GBin "!=" (GVar "n.next") GNil))
                       (GBin "==" (GVar "n") (GVar "reclaimMark")))
       [SReturn []] [];
     SAssign [GVar "n.next"] "=" [GVar "reclaimMark"]].
Proof. split; vm_compute; reflexivity. Qed.
