(* StoreSpec.v — the specification of the store: every collection is a
   strictly sorted association list; Store.run (treaps) refines it. *)
From GK Require Import Base Order Treap TreapSpec Store.

Record scoll := mkSColl { sc_cmp : nat; sc_items : list item }.
Definition scolls := list (bytes * scoll).

Record sstore := mkSStore {
  ss_file : bool;
  ss_cur : scolls;
  ss_flushed : list scolls;
  ss_cmpreg : list (bytes * nat)
}.

Definition sinit (file : bool) : sstore := mkSStore file [] [] [].

Definition srecmp (reg : list (bytes * nat)) (cs : scolls) : scolls :=
  map (fun nc => (fst nc, mkSColl (match cget reg (fst nc) with Some i => i | None => O end)
                                  (sc_items (snd nc)))) cs.

Definition swith_cur (s : sstore) (c : scolls) : sstore :=
  mkSStore (ss_file s) c (ss_flushed s) (ss_cmpreg s).

Definition asc_keep (cmp : bytes -> bytes -> comparison) (target : bytes) (i : item) : bool :=
  match cmp target (ikey i) with Gt => false | _ => true end.
Definition desc_keep (cmp : bytes -> bytes -> comparison) (target : bytes) (i : item) : bool :=
  match cmp target (ikey i) with Gt => true | _ => false end.

Definition sbudget (l : list item) (stop : option nat) : nat :=
  match stop with Some n => n | None => length l end.

(* one step of the specification *)
Definition sstep (s : sstore) (o : op) : sstore * out :=
  let on (name : bytes) (f : scoll -> sstore * out) : sstore * out :=
    match cget (ss_cur s) name with None => (s, RNoColl) | Some c => f c end in
  match o with
  | OColl name id =>
    let l := match cget (ss_cur s) name with Some c => sc_items c | None => [] end in
    (mkSStore (ss_file s) (cset (ss_cur s) name (mkSColl id l)) (ss_flushed s) (cset (ss_cmpreg s) name id), ROk)
  | ORmColl name => (swith_cur s (cdel (ss_cur s) name), ROk)
  | ONames => (s, RNames (map fst (ss_cur s)))
  | OSet name key val prio => on name (fun c =>
      match val with
      | Some v =>
        if valid_item key val prio then
          (swith_cur s (cset (ss_cur s) name (mkSColl (sc_cmp c) (ins (cmp_of (sc_cmp c)) (mkItem key v prio) (sc_items c)))), ROk)
        else (s, RErr)
      | None => (s, RErr)
      end)
  | ODel name key => on name (fun c =>
      (swith_cur s (cset (ss_cur s) name (mkSColl (sc_cmp c) (del (cmp_of (sc_cmp c)) key (sc_items c)))),
       RBool (match find (cmp_of (sc_cmp c)) key (sc_items c) with Some _ => true | None => false end)))
  | OGet name key => on name (fun c => (s, RVal (option_map ival (find (cmp_of (sc_cmp c)) key (sc_items c)))))
  | OGetItem name key wv => on name (fun c => (s, RItem (find (cmp_of (sc_cmp c)) key (sc_items c)) wv))
  | OExist name key => on name (fun c =>
      (s, RBool (match find (cmp_of (sc_cmp c)) key (sc_items c) with Some _ => true | None => false end)))
  | OMin name wv => on name (fun c => (s, RItem (hd_error (sc_items c)) wv))
  | OMax name wv => on name (fun c => (s, RItem (last_error (sc_items c)) wv))
  | OTotals name => on name (fun c => (s, RTotals (Z.of_nat (length (sc_items c))) (sum_bytes (sc_items c))))
  | OFlush =>
    if ss_file s then (mkSStore true (ss_cur s) (ss_cur s :: ss_flushed s) (ss_cmpreg s), ROk)
    else (s, RErr)
  | OEvict name => on name (fun _ => (s, ROk))
  | OReopen =>
    if ss_file s then
      (swith_cur s (srecmp (ss_cmpreg s) (match ss_flushed s with c :: _ => c | [] => [] end)), ROk)
    else (s, RNoFile)
  | ORevert =>
    if ss_file s then
      let fl := tl (ss_flushed s) in
      (mkSStore true (srecmp (ss_cmpreg s) (match fl with c :: _ => c | [] => [] end)) fl (ss_cmpreg s), ROk)
    else (s, RErr)
  | OVisit asc name target wv stop => on name (fun c =>
      let cmp := cmp_of (sc_cmp c) in
      let l := if asc then filter (asc_keep cmp target) (sc_items c)
               else filter (desc_keep cmp target) (rev (sc_items c)) in
      (s, RVisit (map (fun i => (i, 0)) (firstn (S (sbudget (sc_items c) stop)) l)) wv))
  | OLen name => on name (fun c => (s, RLen (Z.of_nat (length (sc_items c)))))
  end.

Fixpoint srun (s : sstore) (ops : list op) : list out :=
  match ops with
  | [] => []
  | o :: ops' => let '(s', r) := sstep s o in r :: srun s' ops'
  end.

(* depth is not a notion of the sorted map: it is erased before comparing
   (that the depth reported is the true depth is visit_*_spec / C06, C13) *)
Definition erase (r : out) : out :=
  match r with
  | RVisit l wv => RVisit (map (fun x => (fst x, 0)) l) wv
  | _ => r
  end.

(* the abstraction function *)
Definition abs_colls (cs : colls) : scolls :=
  map (fun nc => (fst nc, mkSColl (c_cmp (snd nc)) (elems (c_tree (snd nc))))) cs.
Definition abs (s : store) : sstore :=
  mkSStore (s_file s) (abs_colls (s_cur s)) (map abs_colls (s_flushed s)) (s_cmpreg s).

(* histories in which the comparator of a collection name never changes
   (SetCollection on an existing name may install another comparator, but then
   the tree is only a search tree under the new one if the application
   guarantees it; the generator re-installs the same comparator) *)
Fixpoint ops_ok (reg : list (bytes * nat)) (ops : list op) : Prop :=
  match ops with
  | [] => True
  | OColl name id :: ops' =>
    (cget reg name = None \/ cget reg name = Some id) /\ ops_ok (cset reg name id) ops'
  | _ :: ops' => ops_ok reg ops'
  end.
