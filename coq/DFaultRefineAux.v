(* DFaultRefineAux.v — helper lemmas for DFaultRefine.v: facts on Flush that do not need the file to
   end at the store size (a dirty tail / junk may lie beyond it), and the no-sharing invariant
   NoDup (node_offs t) after a FAILED Flush. *)
From GK Require Import Base Order Treap TreapSpec Store StoreSpec StoreRefine Codec CodecProofs
  Disk DiskProofs DStore DStoreRefine DiskFault DiskFaultProofs DFaultRun DFaultHist.
From Coq Require Import Lia ZArith NArith List Bool.
Import ListNotations.
Open Scope Z_scope.

(* ------------------------------------------------------------------ *)
(* 1. Flush over junk: the new root record decodes at the new size, nothing below the old size
      changes, the size stays inside the file (flush_decodes without [blen f' = size']) *)
Lemma flush_root f size cs f' size' cs' :
  Forall (coll_ok f size) cs -> 0 <= size <= blen f ->
  flush_bytes f size cs = (f', size', cs') ->
  size' < two63 -> roots_len + blen (enc_json (root_map cs')) < two32 ->
  root_at f' size' = Some (root_map cs') /\ agree f f' size /\ size' <= blen f'.
Proof.
  intros Hok Hsz H H63 H32. unfold flush_bytes in H.
  destruct (write_colls f size cs) as [[f1 s1] cs1] eqn:E.
  revert H63 H32. inversion H; subst f' size' cs'; clear H. intros H63 H32.
  set (r := enc_root (root_map cs1) s1) in *.
  assert (Hbr : blen r = roots_len + blen (enc_json (root_map cs1))) by apply blen_enc_root.
  pose proof (blen_nonneg (enc_json (root_map cs1))) as Hj. change roots_len with 44 in *.
  destruct (write_colls_spec _ _ _ _ _ _ Hok Hsz E ltac:(lia)) as (A1 & A2 & A3 & A4).
  destruct (append_facts f1 s1 r ltac:(lia)) as (W1 & W2 & W3 & W4).
  assert (Hnames : Forall (fun nc => name_ok (fst nc)) cs).
  { eapply Forall_impl; [|exact Hok]. intros nc Hnc. apply Hnc. }
  assert (Hentries : Forall entry_ok (root_map cs1)) by (eapply coll_post_entry_ok; eauto; lia).
  split; [|split].
  - apply root_at_enc; auto; try lia. fold r. rewrite Hbr. exact H32.
  - eapply agree_trans; eauto. lia.
  - exact W2.
Qed.

(* ------------------------------------------------------------------ *)
(* 2. writing a tree only ADDS node locations: every offset occurs in the result at least as
      often as in the argument *)
Lemma write_items_cnt t f s f1 s1 t1 o :
  write_items f s t = (f1, s1, t1) -> cnt o t1 = cnt o t.
Proof. intro H. unfold cnt. rewrite (write_items_offs _ _ _ _ _ _ H). reflexivity. Qed.

Lemma write_nodes_cnt : forall t f s f1 s1 t1 o,
  write_nodes f s t = (f1, s1, t1) -> (cnt o t <= cnt o t1)%nat.
Proof.
  induction t as [|nl l IHl il it nn nb r IHr]; intros f s f1 s1 t1 o H; cbn [write_nodes] in H.
  - inversion H; subst. lia.
  - destruct nl as [p|]; [inversion H; subst; lia|].
    destruct (write_nodes f s l) as [[fa sa] la] eqn:El.
    destruct (write_nodes fa sa r) as [[fb sb] rb] eqn:Er.
    inversion H; subst; clear H.
    pose proof (IHl _ _ _ _ _ o El). pose proof (IHr _ _ _ _ _ o Er).
    rewrite !cnt_T. cbn [oloc_off]. change (count_occ Z.eq_dec [] o) with 0%nat. lia.
Qed.

Lemma write_tree_cnt t f s f1 s1 t1 o :
  write_tree f s t = (f1, s1, t1) -> (cnt o t <= cnt o t1)%nat.
Proof.
  unfold write_tree. destruct (write_items f s t) as [[fa sa] ta] eqn:E1. intro E2.
  rewrite <- (write_items_cnt _ _ _ _ _ _ o E1). eapply write_nodes_cnt; eauto.
Qed.

Definition offs_le (nc nc' : bytes * coll) : Prop :=
  forall o, (cnt o (c_tree (snd nc)) <= cnt o (c_tree (snd nc')))%nat.

Lemma write_colls_cnt : forall cs f s f1 s1 cs1,
  write_colls f s cs = (f1, s1, cs1) -> Forall2 offs_le cs cs1.
Proof.
  induction cs as [|[n c] cs IH]; intros f s f1 s1 cs1 H; cbn [write_colls] in H.
  - inversion H; subst. constructor.
  - destruct (write_tree f s (c_tree c)) as [[fa sa] t'] eqn:E1.
    destruct (write_colls fa sa cs) as [[fb sb] cs2] eqn:E2.
    inversion H; subst; clear H. constructor; [|eapply IH; eauto].
    intro o. cbn [snd c_tree]. eapply write_tree_cnt; eauto.
Qed.

Lemma flush_bytes_cnt f s cs f1 s1 cs1 :
  flush_bytes f s cs = (f1, s1, cs1) -> Forall2 offs_le cs cs1.
Proof.
  unfold flush_bytes. destruct (write_colls f s cs) as [[fa sa] ca] eqn:E. intro H.
  inversion H; subst. eapply write_colls_cnt; eauto.
Qed.

Lemma offs_le_nodup cs cs1 : Forall2 offs_le cs cs1 ->
  Forall (fun nc => NoDup (node_offs (c_tree (snd nc)))) cs1 ->
  Forall (fun nc => NoDup (node_offs (c_tree (snd nc)))) cs.
Proof.
  induction 1 as [|nc nc' cs cs1 Hle H2 IH]; intro Hn; [constructor|].
  inversion Hn; subst. constructor; [|auto].
  eapply nodup_le; [|eassumption]. exact Hle.
Qed.

Lemma flush_bytes_size_mono f s cs f1 s1 cs1 : flush_bytes f s cs = (f1, s1, cs1) -> s <= s1.
Proof.
  unfold flush_bytes. destruct (write_colls f s cs) as [[fa sa] ca] eqn:E. intro H.
  pose proof (blen_nonneg (enc_root (root_map ca) sa)). apply write_colls_mono in E.
  inversion H; subst. lia.
Qed.

(* ------------------------------------------------------------------ *)
(* 3. the failed Flush: the collections it leaves (with the locations recorded before the error)
      still satisfy the invariants of the current state.  The no-sharing invariant comes from the
      retried Flush (flush_retry_same): it only adds locations, and its result has no sharing. *)
Theorem flush_fault_inv k torn f size cs f1 s1 cs1 f' size' cs' :
  0 <= size <= blen f -> Forall (coll_ok f size) cs ->
  Forall (fun nc => NoDup (node_offs (c_tree (snd nc)))) cs ->
  flush_fault k torn f size cs = (f1, s1, cs1, true) ->
  flush_bytes f size cs = (f', size', cs') -> size' < two63 ->
  s1 <= size' /\ Forall (coll_ok f1 s1) cs1 /\
  Forall (fun nc => NoDup (node_offs (c_tree (snd nc)))) cs1.
Proof.
  intros Hsz Hok Hnd E Hfl H63.
  pose proof (flush_retry_same _ _ _ _ _ _ _ _ Hsz E) as Hre. rewrite Hfl in Hre.
  pose proof (flush_bytes_size_mono _ _ _ _ _ _ Hre) as Hle.
  split; [exact Hle|]. split.
  - eapply flush_fault_coll_ok; eauto. lia.
  - destruct (flush_nodup_facts _ _ _ _ _ _ Hok Hsz Hfl H63 Hnd) as (_ & _ & G3).
    eapply offs_le_nodup; [|exact G3]. eapply flush_bytes_cnt; eauto.
Qed.

(* ------------------------------------------------------------------ *)
(* 4. names, comparators and erased trees determine the erased collections *)
Lemma contents_ecolls : forall cs1 cs,
  map fst cs1 = map fst cs ->
  map (fun nc => c_cmp (snd nc)) cs1 = map (fun nc => c_cmp (snd nc)) cs ->
  map (fun nc => terase (c_tree (snd nc))) cs1 = map (fun nc => terase (c_tree (snd nc))) cs ->
  ecolls cs1 = ecolls cs.
Proof.
  induction cs1 as [|[n1 c1] cs1 IH]; intros [|[n c] cs] H1 H2 H3; try discriminate; [reflexivity|].
  cbn [map fst snd] in H1, H2, H3. inversion H1; inversion H2; inversion H3; subst.
  unfold ecolls, kmap in *. cbn [map fst snd]. f_equal; [|apply IH; assumption].
  unfold ecoll. congruence.
Qed.

(* ------------------------------------------------------------------ *)
(* 5. small facts on the scan and on strictly decreasing lists *)
Lemma revert_bytes_0 f : revert_bytes f 0 = ([], 0, []).
Proof. reflexivity. Qed.

Lemma sdesc_hd_nonneg f ends fl : Forall2 (snap_ok f) ends fl -> 0 <= hd 0 ends.
Proof.
  intros H. destruct H as [|e st ends fl [cs (Hr & _)] _]; cbn [hd]; [lia|].
  apply root_at_Some_gt in Hr. change roots_len with 44 in Hr. lia.
Qed.

Print Assumptions flush_root.
Print Assumptions flush_fault_inv.
