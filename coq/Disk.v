(* Disk.v — M4: loading persisted trees, the backward root scan, opening and
   independently decoding a store file, conformance of a file to layout v4,
   and the model of Flush / FlushRevert on bytes. *)
From GK Require Import Base Treap Codec Store.

(* ---------- loading a persisted tree (all of it) ----------
   budget: total number of node records that may be read (guards against
   cyclic or shared garbage); children must lie at smaller offsets than
   their parent (node records are written after their children). *)
Fixpoint load (depth : nat) (f : file) (l : option ploc) (bound : Z) (budget : nat) : option (tree * nat) :=
  match l with
  | None => Some (E, budget)
  | Some p =>
    match depth, budget with
    | S k, S bud =>
      if negb (poff p + plen p <=? bound) then None else
      match dec_node f p with
      | None => None
      | Some nr =>
        match nr_item nr with
        | None => None
        | Some il =>
          if negb (poff il + plen il <=? poff p) then None else
          match dec_item f il with
          | None => None
          | Some it =>
            match load k f (nr_left nr) (poff p) bud with
            | None => None
            | Some (lt, b1) =>
              match load k f (nr_right nr) (poff p) b1 with
              | None => None
              | Some (rt, b2) => Some (T (Some p) lt (Some il) it (nr_nn nr) (nr_nb nr) rt, b2)
              end
            end
          end
        end
      end
    | _, _ => None
    end
  end.

(* ---------- the backward scan for the last valid root record ----------
   store.go readRootsScan / scanBackwardsForMagicEnd: try the candidate end
   positions size, size-1, ... while size > rootsLen. *)
Inductive scan_res :=
| ScanOutOfFuel
| ScanNone                                          (* no valid root record at or below the start *)
| ScanFound (e : Z) (m : list (bytes * option ploc)).

Fixpoint scan_back (fuel : nat) (f : file) (e : Z) : scan_res :=
  match fuel with
  | O => ScanOutOfFuel
  | S k =>
    if e <=? roots_len then ScanNone else
    match root_at f e with
    | Some m => ScanFound e m
    | None => scan_back k f (e - 1)
    end
  end.

(* the fuel is sufficient for every file and start (scan_total in DiskProofs.v) *)
Definition scan (f : file) (size : Z) : scan_res := scan_back (S (Z.to_nat size)) f size.

(* ---------- the independent decoder (C14) ---------- *)
Inductive opened :=
| OpEmpty                                    (* zero length file: an empty store *)
| OpNoRoots                                  (* the documented error: no root record found *)
| OpBad                                      (* a root was found but a tree does not decode *)
| OpOk (size : Z) (cs : list (bytes * tree)).  (* end of the root record, the collections *)

Fixpoint load_all (f : file) (m : list (bytes * option ploc)) (bound : Z) : option (list (bytes * tree)) :=
  match m with
  | [] => Some []
  | (name, p) :: m' =>
    match load (S (length f)) f p bound (S (length f)), load_all f m' bound with
    | Some (t, _), Some r => Some ((name, t) :: r)
    | _, _ => None
    end
  end.

Definition decode_store (f : file) : opened :=
  if blen f =? 0 then OpEmpty else
  match scan f (blen f) with
  | ScanOutOfFuel => OpBad
  | ScanNone => OpNoRoots
  | ScanFound e m =>
    match load_all f m e with
    | Some cs => OpOk e cs
    | None => OpBad
    end
  end.

(* ---------- conformance to layout v4 of everything reachable from the last root ---------- *)
Fixpoint aggs_b (t : tree) : bool :=
  match t with
  | E => true
  | T _ l _ it nn nb r =>
    aggs_b l && aggs_b r && (nn =? num l + num r + 1) && (nb =? nby l + nby r + item_bytes it)
  end.

Fixpoint sorted_b (cmp : bytes -> bytes -> comparison) (l : list item) : bool :=
  match l with
  | [] => true
  | x :: xs =>
    match xs with
    | [] => true
    | y :: _ => match cmp (ikey x) (ikey y) with Lt => sorted_b cmp xs | _ => false end
    end
  end.

(* every record persisted with the right length; item records self-delimiting *)
Fixpoint locs_b (t : tree) : bool :=
  match t with
  | E => true
  | T nl l il it _ _ r =>
    match nl, il with
    | Some p, Some q => (plen p =? node_len) && (plen q =? item_loc_len it) && locs_b l && locs_b r
    | _, _ => false
    end
  end.

(* names strictly increasing bytewise (Go writes the JSON map with sorted keys) *)
Fixpoint names_b (m : list (bytes * tree)) : bool :=
  match m with
  | [] => true
  | (n, _) :: m' =>
    match m' with
    | [] => true
    | (n', _) :: _ => match cmp_bytes n n' with Lt => names_b m' | _ => false end
    end
  end.

Definition conforms_v4 (cmpid : bytes -> nat) (f : file) : bool :=
  match decode_store f with
  | OpEmpty => true
  | OpOk e cs =>
    names_b cs &&
    forallb (fun nt => aggs_b (snd nt) && locs_b (snd nt) && sorted_b (cmp_of (cmpid (fst nt))) (elems (snd nt))) cs
  | _ => false
  end.

(* ---------- the byte-level model of Flush ---------- *)
(* collection.go writeItems: in key order, items of unpersisted nodes *)
Fixpoint write_items (f : file) (size : Z) (t : tree) : file * Z * tree :=
  match t with
  | E => (f, size, E)
  | T (Some p) l il it nn nb r => (f, size, t)
  | T None l il it nn nb r =>
    let '(f1, s1, l') := write_items f size l in
    let '(f2, s2, il') :=
      match il with
      | Some _ => (f1, s1, il)
      | None => (write_at f1 s1 (enc_item it), s1 + item_loc_len it, Some (mkPloc s1 (item_loc_len it)))
      end in
    let '(f3, s3, r') := write_items f2 s2 r in
    (f3, s3, T None l' il' it nn nb r')
  end.

(* collection.go writeNodes: children first *)
Fixpoint write_nodes (f : file) (size : Z) (t : tree) : file * Z * tree :=
  match t with
  | E => (f, size, E)
  | T (Some p) l il it nn nb r => (f, size, t)
  | T None l il it nn nb r =>
    let '(f1, s1, l') := write_nodes f size l in
    let '(f2, s2, r') := write_nodes f1 s1 r in
    (write_at f2 s2 (enc_node il (root_loc l') (root_loc r') nn nb), s2 + node_len,
     T (Some (mkPloc s2 node_len)) l' il it nn nb r')
  end.

Definition write_tree (f : file) (size : Z) (t : tree) : file * Z * tree :=
  let '(f1, s1, t1) := write_items f size t in write_nodes f1 s1 t1.

Fixpoint write_colls (f : file) (size : Z) (cs : colls) : file * Z * colls :=
  match cs with
  | [] => (f, size, [])
  | (n, c) :: cs' =>
    let '(f1, s1, t') := write_tree f size (c_tree c) in
    let '(f2, s2, cs2) := write_colls f1 s1 cs' in
    (f2, s2, (n, mkColl (c_cmp c) t') :: cs2)
  end.

Definition root_map (cs : colls) : list (bytes * option ploc) :=
  map (fun nc => (fst nc, root_loc (c_tree (snd nc)))) cs.

(* Store.Flush: all collections in name order, then the root record *)
Definition flush_bytes (f : file) (size : Z) (cs : colls) : file * Z * colls :=
  let '(f1, s1, cs1) := write_colls f size cs in
  let r := enc_root (root_map cs1) s1 in
  (write_at f1 s1 r, s1 + blen r, cs1).

(* Store.FlushRevert on bytes: step below the current root, scan, truncate *)
Definition revert_bytes (f : file) (size : Z) : file * Z * list (bytes * option ploc) :=
  let size1 := if roots_len <? size then size - 1 else size in
  match scan f size1 with
  | ScanFound e m => (firstn (Z.to_nat e) f, e, m)
  | _ => ([], 0, [])
  end.

(* the contents of a decoded store: names with their items *)
Definition contents (cs : list (bytes * tree)) : list (bytes * list item) :=
  map (fun nt => (fst nt, elems (snd nt))) cs.
