(* LazySeq3.v — LazySeq2 extended by Store.Flush inside the run: the memory AFTER a Flush.
   State: the file as the model predicts it (Disk.write_tree + root record, byte for byte what DStore writes), the
   trees of all collections (the run works on ONE of them; the others are untouched since the re-open, so Flush writes
   nothing for them but names them in the root record), and the memory of LazySeq.
   Flush performs no ReadAt call; every record it writes gets its location and STAYS in memory (nodes; items with their
   values), everything loaded before stays loaded.  From then on the flushed items are evictable: a visit drops them when
   it leaves their nodes and the next call reads them again -- at the offsets this model assigned.
   Executable; compared call by call with the implementation (C19). *)
From GK Require Import Base Treap Codec Disk Lazy LazyMut LazySeq LazySeq2.
From Coq Require Import ZArith List Bool.
Import ListNotations.
Open Scope Z_scope.

Inductive sop3 :=
| S2 (o : sop2)
| SFlush.

(* Store.Flush over the trees in the order of the root map (name order) *)
Fixpoint write_trees (f : file) (size : Z) (cs : list (bytes * tree)) : file * Z * list (bytes * tree) :=
  match cs with
  | [] => (f, size, [])
  | (n, t) :: cs' =>
    let '(f1, s1, t') := write_tree f size t in
    let '(f2, s2, cs2) := write_trees f1 s1 cs' in
    (f2, s2, (n, t') :: cs2)
  end.

Definition tree_root_map (cs : list (bytes * tree)) : list (bytes * option ploc) :=
  map (fun nt => (fst nt, root_loc (snd nt))) cs.

Definition flush_trees (f : file) (size : Z) (cs : list (bytes * tree)) : file * Z * list (bytes * tree) :=
  let '(f1, s1, cs1) := write_trees f size cs in
  let r := enc_root (tree_root_map cs1) s1 in
  (write_at f1 s1 r, s1 + blen r, cs1).

(* the records Flush has just written: t before, t' after (same shape) *)
Fixpoint fresh_mem (t t' : tree) : mem :=
  match t, t' with
  | T nl l il _ _ _ r, T nl' l' il' _ _ _ r' =>
    (match nl, nl' with None, Some p => [(poff p, false)] | _, _ => [] end) ++
    (match il, il' with None, Some q => [(poff q, true)] | _, _ => [] end) ++
    fresh_mem l l' ++ fresh_mem r r'
  | _, _ => []
  end.

Fixpoint fresh_mems (cs cs' : list (bytes * tree)) : mem :=
  match cs, cs' with
  | (_, t) :: r, (_, t') :: r' => fresh_mem t t' ++ fresh_mems r r'
  | _, _ => []
  end.

Fixpoint cs_get (name : bytes) (cs : list (bytes * tree)) : option tree :=
  match cs with
  | [] => None
  | (n, t) :: r => match cmp_bytes name n with Eq => Some t | _ => cs_get name r end
  end.

Fixpoint cs_set (name : bytes) (t' : tree) (cs : list (bytes * tree)) : list (bytes * tree) :=
  match cs with
  | [] => []
  | (n, t) :: r => match cmp_bytes name n with Eq => (n, t') :: r | _ => (n, t) :: cs_set name t' r end
  end.

Record sst := mkSst {
  ss_file : file;
  ss_size : Z;
  ss_colls : list (bytes * tree);
  ss_mem : mem
}.

Definition sstep3 (cmp : bytes -> bytes -> comparison) (name : bytes) (s : sst) (o : sop3) : list rd * sst :=
  match o with
  | S2 o2 =>
    match cs_get name (ss_colls s) with
    | Some t =>
      let '(rs, t', m') := sstep2 cmp t (ss_mem s) o2 in
      (rs, mkSst (ss_file s) (ss_size s) (cs_set name t' (ss_colls s)) m')
    | None => ([], s)
    end
  | SFlush =>
    let '(f', size', cs') := flush_trees (ss_file s) (ss_size s) (ss_colls s) in
    ([], mkSst f' size' cs' (fresh_mems (ss_colls s) cs' ++ ss_mem s))
  end.

Fixpoint srun3 (cmp : bytes -> bytes -> comparison) (name : bytes) (s : sst) (ops : list sop3) : list (list rd) :=
  match ops with
  | [] => []
  | o :: r => let '(rs, s') := sstep3 cmp name s o in rs :: srun3 cmp name s' r
  end.

(* the state after a run (for the theorems and for comparing the predicted file) *)
Fixpoint sfinal3 (cmp : bytes -> bytes -> comparison) (name : bytes) (s : sst) (ops : list sop3) : sst :=
  match ops with
  | [] => s
  | o :: r => sfinal3 cmp name (snd (sstep3 cmp name s o)) r
  end.

(* from the file: all collections as the independent decoder loads them, nothing in memory *)
Definition seq3_start (f : file) : option sst :=
  match decode_store f with
  | OpOk e cs => Some (mkSst f e cs [])
  | _ => None
  end.

Definition seq3_reads_file (cmp : bytes -> bytes -> comparison) (f : file) (name : bytes) (ops : list sop3)
  : option (list (list rd) * file) :=
  match seq3_start f with
  | Some s => Some (srun3 cmp name s ops, ss_file (sfinal3 cmp name s ops))
  | None => None
  end.
