(* BlocksProofs.v — proofs about the executable model Blocks.v (Len, determineBlocks,
   VisitItemsAscendBlockEx, VisitItemsRandom).  Standard library only; no axioms.

   Main results (numbers refer to STATEMENTS.md):
     1. len_spec                  6. block_visit_perm  (C16)
     2. determine_blocks_facts    7. random_visit_perm (C16)
     3. block_starts_spec         8. random_pinned_refuted
     4. visit_block_spec          9. sanity checks by vm_compute
     5. segments_concat / block_segments_concat

   All structural lemmas are stated for an arbitrary block length L (with 1 <= L where the
   code needs it); max_block_cnt (the nat 1024) is only ever handled as an abstract M >= 1. *)
From GK Require Import Base Blocks.
From Coq Require Import Arith Lia List Permutation.
Local Open Scope nat_scope.

(* Blocks.v closes its Section over an explicit A; make it implicit here (notation only,
   no definition is changed). *)
Arguments visit_from {A S} v st l.
Arguments len_visit {A} l.
Arguments first_pass_v {A} lenBlock st _.
Arguments block_starts {A} lenBlock l.
Arguments block_v {A} lenBlock st x.
Arguments visit_block {A} lenBlock l start.
Arguments block_visit {A} mangle l.
Arguments random_step {A} l cur.
Arguments random_round {A} l bs.
Arguments random_rounds {A} n l bs.
Arguments random_visit {A} mangle l.
Arguments random_step_pinned {A} l cur.

(* ------------------------------------------------------------------ *)
(* 0. small list facts missing from the 8.16 library                    *)

Lemma skipn_skipn' : forall (A : Type) (b a : nat) (l : list A),
  skipn a (skipn b l) = skipn (b + a) l.
Proof.
  induction b as [|b IH]; intros a l.
  - reflexivity.
  - destruct l as [|x l].
    + rewrite Nat.add_succ_l. rewrite !skipn_nil. reflexivity.
    + rewrite Nat.add_succ_l. rewrite !skipn_cons. apply IH.
Qed.

Lemma firstn_S_snoc : forall (A : Type) (k : nat) (m : list A),
  firstn (S k) m = firstn k m ++ firstn 1 (skipn k m).
Proof.
  induction k as [|k IH]; intros m.
  - reflexivity.
  - destruct m as [|x m].
    + reflexivity.
    + rewrite skipn_cons. rewrite firstn_cons. rewrite IH. reflexivity.
Qed.

Lemma flat_map_app_pointwise : forall (I B : Type) (g h : I -> list B) (rs : list I),
  Permutation (flat_map (fun i => g i ++ h i) rs) (flat_map g rs ++ flat_map h rs).
Proof.
  induction rs as [|i rs IH].
  - constructor.
  - cbn [flat_map]. rewrite <- !app_assoc. apply Permutation_app_head.
    rewrite IH. rewrite !app_assoc. apply Permutation_app_tail.
    apply Permutation_app_comm.
Qed.

Lemma flat_map_nil_fun : forall (I B : Type) (rs : list I),
  flat_map (fun _ : I => @nil B) rs = [].
Proof. induction rs as [|i rs IH]; [reflexivity | exact IH]. Qed.

(* "for r, for s" versus "for s, for r" *)
Lemma flat_map_transpose : forall (I J B : Type) (f : J -> I -> list B) (bs : list J) (rs : list I),
  Permutation (flat_map (fun i => flat_map (fun s => f s i) bs) rs)
              (flat_map (fun s => flat_map (fun i => f s i) rs) bs).
Proof.
  induction bs as [|a bs IH]; intros rs.
  - cbn [flat_map]. rewrite flat_map_nil_fun. constructor.
  - cbn [flat_map].
    rewrite (flat_map_app_pointwise I B (fun i => f a i) (fun i => flat_map (fun s => f s i) bs) rs).
    apply Permutation_app_head. apply IH.
Qed.

Lemma flat_map_perm : forall (I B : Type) (f : I -> list B) (l1 l2 : list I),
  Permutation l1 l2 -> Permutation (flat_map f l1) (flat_map f l2).
Proof.
  intros I B f l1 l2 H. induction H.
  - constructor.
  - cbn [flat_map]. apply Permutation_app_head. assumption.
  - cbn [flat_map]. rewrite !app_assoc. apply Permutation_app_tail. apply Permutation_app_comm.
  - eapply Permutation_trans; eassumption.
Qed.

(* ------------------------------------------------------------------ *)
(* 1. Len                                                               *)

Lemma len_visit_gen : forall (A : Type) (l : list A) (c : nat),
  visit_from (fun (c : nat) (_ : A) => (S c, true)) c l = c + length l.
Proof.
  induction l as [|x l IH]; intros c.
  - cbn [visit_from length]. lia.
  - cbn [visit_from length]. rewrite IH. lia.
Qed.

Theorem len_spec : forall (A : Type) (l : list A), len_visit l = length l.
Proof. intros A l. unfold len_visit. rewrite len_visit_gen. reflexivity. Qed.

(* ------------------------------------------------------------------ *)
(* 2. determineBlocks                                                   *)

Lemma max_block_cnt_pos : 1 <= max_block_cnt.
Proof. apply Nat.leb_le. vm_compute. reflexivity. Qed.

(* the arithmetic of determineBlocks for an abstract M >= 1 *)
Lemma determine_arith : forall M cnt, 1 <= M -> M < cnt ->
  let L := cnt / M + (if cnt mod M =? 0 then 0 else 1) in
  1 <= L /\ cnt <= L * M /\ (L - 1) * M < cnt /\ L = (cnt + M - 1) / M.
Proof.
  intros M cnt HM Hlt L.
  assert (HM0 : M <> 0) by lia.
  pose proof (Nat.div_mod cnt M HM0) as Hdm.
  pose proof (Nat.mod_upper_bound cnt M HM0) as Hub.
  assert (Hq : 1 <= cnt / M) by (apply Nat.div_str_pos; lia).
  subst L. remember (cnt / M) as q. remember (cnt mod M) as r.
  destruct (r =? 0) eqn:Er.
  - apply Nat.eqb_eq in Er. subst r.
    rewrite Nat.add_0_r.
    repeat split; try nia.
    apply (Nat.div_unique _ _ _ (M - 1)); nia.
  - apply Nat.eqb_neq in Er.
    repeat split; try nia.
    apply (Nat.div_unique _ _ _ (r - 1)); nia.
Qed.

Theorem determine_blocks_facts : forall cnt, 1 <= cnt ->
  let '(nb, L) := determine_blocks cnt in
  1 <= L /\ 1 <= nb /\
  (cnt <= max_block_cnt -> L = 1 /\ nb = cnt) /\
  (max_block_cnt < cnt ->
     nb = max_block_cnt /\
     L = (cnt + max_block_cnt - 1) / max_block_cnt /\          (* ceil (cnt / 1024) *)
     cnt <= L * max_block_cnt /\ (L - 1) * max_block_cnt < cnt) /\
  cnt <= nb * (L + 1).
Proof.
  intros cnt Hc. unfold determine_blocks.
  generalize max_block_cnt_pos. generalize max_block_cnt. intros M HM.
  destruct (M <? cnt) eqn:E.
  - apply Nat.ltb_lt in E.
    destruct (determine_arith M cnt HM E) as (H1 & H2 & H3 & H4).
    remember (cnt / M + (if cnt mod M =? 0 then 0 else 1)) as L.
    repeat split; try lia; try assumption; nia.
  - apply Nat.ltb_ge in E.
    repeat split; try lia.
Qed.

(* the only fact the enumerations rely on *)
Lemma determine_blocks_len_pos : forall cnt, 1 <= cnt -> 1 <= snd (determine_blocks cnt).
Proof.
  intros cnt Hc. pose proof (determine_blocks_facts cnt Hc) as H.
  destruct (determine_blocks cnt) as [nb L]. cbn [snd]. tauto.
Qed.

(* ------------------------------------------------------------------ *)
(* 3. first pass: block starts                                          *)

Section FirstPass.
Variable A : Type.
Variable L : nat.
Hypothesis HL : 1 <= L.

Definition accof (st : list nat * nat * nat) : list nat := fst (fst st).

(* number of blocks for n items: ceil (n / (L+1)) *)
Definition nblocks (n : nat) : nat := (n + L) / S L.

Lemma nblocks_0 : nblocks 0 = 0.
Proof. unfold nblocks. apply Nat.div_small. lia. Qed.

Lemma nblocks_S : forall m, nblocks (S m) = S (nblocks (m - L)).
Proof.
  intros m. unfold nblocks.
  destruct (le_lt_dec L m) as [Hle|Hlt].
  - replace (S m + L) with (m + 1 * S L) by lia.
    rewrite Nat.div_add by lia.
    replace (m - L + L) with m by lia. lia.
  - replace (m - L + L) with L by lia.
    rewrite (Nat.div_small L (S L)) by lia.
    symmetry. apply (Nat.div_unique _ _ _ m); lia.
Qed.

Lemma nblocks_cover : forall n, n <= nblocks n * S L.
Proof.
  intros n. unfold nblocks.
  assert (H0 : S L <> 0) by lia.
  pose proof (Nat.div_mod (n + L) (S L) H0) as Hdm.
  pose proof (Nat.mod_upper_bound (n + L) (S L) H0) as Hub.
  remember ((n + L) / S L) as q. remember ((n + L) mod S L) as r. nia.
Qed.

Lemma nblocks_start_lt : forall n i, i < nblocks n -> i * S L < n.
Proof.
  intros n i. unfold nblocks.
  assert (H0 : S L <> 0) by lia.
  pose proof (Nat.div_mod (n + L) (S L) H0) as Hdm.
  pose proof (Nat.mod_upper_bound (n + L) (S L) H0) as Hub.
  remember ((n + L) / S L) as q. remember ((n + L) mod S L) as r.
  intros Hi. nia.
Qed.

(* inside a block (1 <= j <= L, r = L - j): the remaining S r items are skipped *)
Lemma first_pass_mid : forall (l : list A) (r j : nat) (acc : list nat) (pos : nat),
  1 <= j -> j + r = L ->
  accof (visit_from (first_pass_v L) (acc, j, pos) l) =
  accof (visit_from (first_pass_v L) (acc, 0, pos + S r) (skipn (S r) l)).
Proof.
  induction l as [|x l IH]; intros r j acc pos Hj Hr.
  - rewrite skipn_nil. reflexivity.
  - rewrite skipn_cons. cbn [visit_from first_pass_v].
    destruct (j =? 0) eqn:E0; [apply Nat.eqb_eq in E0; lia|].
    destruct (L <=? j) eqn:E1.
    + apply Nat.leb_le in E1. assert (r = 0) by lia. subst r.
      rewrite skipn_O. replace (pos + 1) with (S pos) by lia. reflexivity.
    + apply Nat.leb_gt in E1. destruct r as [|r]; [lia|].
      rewrite (IH r (S j) acc (S pos)) by lia.
      replace (S pos + S r) with (pos + S (S r)) by lia. reflexivity.
Qed.

(* one whole block: its start is recorded, the next S L items are consumed *)
Lemma first_pass_block : forall (x : A) (l : list A) (acc : list nat) (pos : nat),
  accof (visit_from (first_pass_v L) (acc, 0, pos) (x :: l)) =
  accof (visit_from (first_pass_v L) (pos :: acc, 0, pos + S L) (skipn L l)).
Proof.
  intros x l acc pos. cbn [visit_from first_pass_v Nat.eqb].
  rewrite (first_pass_mid l (L - 1) 1 (pos :: acc) (S pos)) by lia.
  replace (S (L - 1)) with L by lia.
  replace (S pos + L) with (pos + S L) by lia. reflexivity.
Qed.

Lemma first_pass_spec : forall (n : nat) (l : list A), length l <= n ->
  forall (acc : list nat) (pos : nat),
  accof (visit_from (first_pass_v L) (acc, 0, pos) l) =
  rev (map (fun k => pos + k * S L) (seq 0 (nblocks (length l)))) ++ acc.
Proof.
  induction n as [|n IH]; intros l Hn acc pos.
  - destruct l as [|x l]; [|cbn [length] in Hn; lia].
    cbn [length]. rewrite nblocks_0. reflexivity.
  - destruct l as [|x l].
    + cbn [length]. rewrite nblocks_0. reflexivity.
    + cbn [length] in Hn |- *.
      rewrite first_pass_block.
      rewrite IH by (rewrite skipn_length; lia).
      rewrite skipn_length. rewrite nblocks_S.
      remember (nblocks (length l - L)) as k.
      cbn [seq map]. rewrite <- seq_shift. rewrite map_map.
      cbn [rev]. rewrite <- app_assoc. cbn [app].
      f_equal; [|f_equal; lia].
      f_equal. apply map_ext. intros i. lia.
Qed.

Theorem block_starts_spec' : forall (l : list A),
  block_starts L l = map (fun k => k * S L) (seq 0 (nblocks (length l))).
Proof.
  intros l. unfold block_starts.
  pose proof (first_pass_spec (length l) l (le_n _) [] 0) as H.
  destruct (visit_from (first_pass_v L) ([], 0, 0) l) as [[acc j] pos].
  unfold accof in H. cbn [fst] in H. rewrite H.
  rewrite app_nil_r. rewrite rev_involutive.
  apply map_ext. intros k. lia.
Qed.

Lemma block_starts_lt : forall (l : list A) (s : nat), In s (block_starts L l) -> s < length l.
Proof.
  intros l s Hin. rewrite block_starts_spec' in Hin.
  apply in_map_iff in Hin. destruct Hin as (i & <- & Hi).
  apply in_seq in Hi. apply nblocks_start_lt. lia.
Qed.

End FirstPass.

(* Statement 3, closed form:  block_starts L l = [0; (L+1); 2(L+1); ...] with
   ceil (length l / (L+1)) = (length l + L) / (L+1) entries.  Needs 1 <= L:
   for L = 0 the code's counter still makes blocks of 2 (see block_starts_L0 below). *)
Theorem block_starts_spec : forall (A : Type) (L : nat) (l : list A), 1 <= L ->
  block_starts L l = map (fun k => k * (L + 1)) (seq 0 ((length l + L) / (L + 1))).
Proof.
  intros A L l HL. rewrite (block_starts_spec' A L HL).
  unfold nblocks. replace (L + 1) with (S L) by lia. reflexivity.
Qed.

(* ------------------------------------------------------------------ *)
(* 4. second pass: one block                                            *)

Lemma visit_block_gen : forall (A : Type) (L : nat) (m : list A) (r j : nat) (out : list A),
  j + r = L ->
  fst (visit_from (block_v L) (out, j) m) = rev (firstn (S r) m) ++ out.
Proof.
  intros A L. induction m as [|x m IH]; intros r j out Hr.
  - reflexivity.
  - cbn [visit_from block_v]. destruct (j =? L) eqn:E.
    + apply Nat.eqb_eq in E. assert (r = 0) by lia. subst r. reflexivity.
    + apply Nat.eqb_neq in E. destruct r as [|r]; [lia|].
      rewrite (IH r (S j)) by lia.
      rewrite (firstn_cons (S r) x m). cbn [rev]. rewrite <- app_assoc. reflexivity.
Qed.

Theorem visit_block_spec : forall (A : Type) (L : nat) (l : list A) (s : nat),
  visit_block L l s = firstn (S L) (skipn s l).
Proof.
  intros A L l s. unfold visit_block.
  rewrite (visit_block_gen A L (skipn s l) L 0 []) by lia.
  rewrite app_nil_r. apply rev_involutive.
Qed.

(* ------------------------------------------------------------------ *)
(* 5. the consecutive segments concatenate to the list                  *)

(* for ANY segment length B and any k with k * B >= length l *)
Lemma segments_concat_gen : forall (A : Type) (B k : nat) (l : list A),
  length l <= k * B ->
  flat_map (fun s => firstn B (skipn s l)) (map (fun i => i * B) (seq 0 k)) = l.
Proof.
  intros A B. induction k as [|k IH]; intros l Hl.
  - destruct l; [reflexivity | cbn [length] in Hl; lia].
  - cbn [seq map flat_map]. rewrite <- seq_shift. rewrite map_map.
    transitivity (firstn B l ++ skipn B l); [|apply firstn_skipn].
    change (0 * B) with 0. rewrite skipn_O. apply (f_equal (app (firstn B l))).
    etransitivity; [|apply (IH (skipn B l)); rewrite skipn_length; lia].
    rewrite !flat_map_concat_map. f_equal. rewrite !map_map.
    apply map_ext. intros i. rewrite skipn_skipn'.
    replace (S i * B) with (B + i * B) by lia. reflexivity.
Qed.

Theorem segments_concat : forall (A : Type) (L : nat) (l : list A), 1 <= L ->
  flat_map (fun s => firstn (S L) (skipn s l)) (block_starts L l) = l.
Proof.
  intros A L l HL. rewrite (block_starts_spec' A L HL).
  apply segments_concat_gen. apply nblocks_cover; assumption.
Qed.

Theorem block_segments_concat : forall (A : Type) (L : nat) (l : list A), 1 <= L ->
  flat_map (visit_block L l) (block_starts L l) = l.
Proof.
  intros A L l HL.
  rewrite (flat_map_ext _ _ (visit_block_spec A L l)).
  apply segments_concat; assumption.
Qed.

(* DEVIATION from STATEMENTS.md item 5 ("in fact any L"): the statement is FALSE for L = 0.
   With lenBlock = 0 the first pass still records every second position (j: 0 -> 1 -> 0),
   while the second pass delivers a single item per block, so the odd positions are lost.
   determine_blocks never returns L = 0 for cnt >= 1 (determine_blocks_facts), so the
   enumerations are unaffected; the closest true statement is segments_concat (1 <= L). *)
Example block_starts_L0 : block_starts 0 [10; 11; 12; 13] = [0; 2].
Proof. vm_compute. reflexivity. Qed.

Example segments_concat_L0_false :
  flat_map (fun s => firstn 1 (skipn s [10; 11; 12; 13])) (block_starts 0 [10; 11; 12; 13])
  = [10; 12].
Proof. vm_compute. reflexivity. Qed.

Theorem segments_concat_any_L_refuted :
  ~ (forall (A : Type) (L : nat) (l : list A),
       flat_map (fun s => firstn (S L) (skipn s l)) (block_starts L l) = l).
Proof.
  intros H. specialize (H nat 0 [10; 11; 12; 13]). vm_compute in H. discriminate H.
Qed.

(* ------------------------------------------------------------------ *)
(* 6. MAIN: VisitItemsAscendBlockEx delivers every item exactly once    *)

Lemma block_visit_cons : forall (A : Type) (mangle : list nat -> list nat) (x : A) (l : list A),
  block_visit mangle (x :: l) =
  let '(_, lenBlock) := determine_blocks (len_visit (x :: l)) in
  flat_map (visit_block lenBlock (x :: l)) (mangle (block_starts lenBlock (x :: l))).
Proof. reflexivity. Qed.

Theorem block_visit_perm : forall (A : Type) (l : list A) (mangle : list nat -> list nat),
  (forall bs, Permutation (mangle bs) bs) ->
  Permutation (block_visit mangle l) l.
Proof.
  intros A l mangle Hm. destruct l as [|x l'].
  - constructor.
  - rewrite block_visit_cons.
    remember (x :: l') as l eqn:El.
    assert (Hc : 1 <= len_visit l) by (rewrite len_spec; subst l; cbn [length]; lia).
    pose proof (determine_blocks_len_pos _ Hc) as HL.
    destruct (determine_blocks (len_visit l)) as [nb L]. cbn [snd] in HL.
    eapply Permutation_trans.
    + apply flat_map_perm. apply Hm.
    + rewrite block_segments_concat by assumption. apply Permutation_refl.
Qed.

(* ------------------------------------------------------------------ *)
(* 7. MAIN: VisitItemsRandom (repaired) delivers every item exactly once *)

Section Random.
Variable A : Type.
Variable l : list A.

(* state of the block with start s after r rounds *)
Definition rstate (r s : nat) : option nat :=
  if s + r <? length l then Some (s + r) else None.

Lemma random_step_rstate : forall r s,
  random_step l (rstate r s) = (firstn 1 (skipn (s + r) l), rstate (S r) s).
Proof.
  intros r s. unfold rstate.
  destruct (s + r <? length l) eqn:E.
  - apply Nat.ltb_lt in E. cbn [random_step].
    pose proof (skipn_length (s + r) l) as Hlen.
    destruct (skipn (s + r) l) as [|x rest].
    + cbn [length] in Hlen. lia.
    + cbn [length] in Hlen. cbn [firstn]. f_equal.
      destruct rest as [|y rest].
      * cbn [length] in Hlen.
        destruct (s + S r <? length l) eqn:E2; [apply Nat.ltb_lt in E2; lia | reflexivity].
      * cbn [length] in Hlen.
        destruct (s + S r <? length l) eqn:E2; [|apply Nat.ltb_ge in E2; lia].
        f_equal. lia.
  - apply Nat.ltb_ge in E. cbn [random_step].
    rewrite (skipn_all2 l) by lia. cbn [firstn]. f_equal.
    destruct (s + S r <? length l) eqn:E2; [apply Nat.ltb_lt in E2; lia | reflexivity].
Qed.

(* round r delivers, for each block start s (in the given order), the item at s + r if any *)
Lemma random_round_rstate : forall r bs,
  random_round l (map (rstate r) bs) =
  (flat_map (fun s => firstn 1 (skipn (s + r) l)) bs, map (rstate (S r)) bs).
Proof.
  intros r. induction bs as [|s bs IH].
  - reflexivity.
  - cbn [map random_round flat_map]. rewrite random_step_rstate. rewrite IH. reflexivity.
Qed.

Lemma random_rounds_rstate : forall k r bs,
  random_rounds k l (map (rstate r) bs) =
  flat_map (fun i => flat_map (fun s => firstn 1 (skipn (s + i) l)) bs) (seq r k).
Proof.
  induction k as [|k IH]; intros r bs.
  - reflexivity.
  - cbn [random_rounds seq flat_map]. rewrite random_round_rstate. rewrite IH. reflexivity.
Qed.

(* one block over k rounds: its first k items *)
Lemma block_rows : forall k s,
  flat_map (fun i => firstn 1 (skipn (s + i) l)) (seq 0 k) = firstn k (skipn s l).
Proof.
  induction k as [|k IH]; intros s.
  - reflexivity.
  - rewrite seq_S. rewrite flat_map_app. rewrite IH.
    cbn [flat_map]. rewrite app_nil_r. rewrite Nat.add_0_l.
    rewrite (firstn_S_snoc A k (skipn s l)). rewrite skipn_skipn'. reflexivity.
Qed.

Lemma random_rounds_perm : forall k bs,
  (forall s, In s bs -> s < length l) ->
  Permutation (random_rounds k l (map Some bs))
              (flat_map (fun s => firstn k (skipn s l)) bs).
Proof.
  intros k bs Hlt.
  replace (map Some bs) with (map (rstate 0) bs).
  2:{ apply map_ext_in. intros s Hs. unfold rstate.
      rewrite Nat.add_0_r. apply Hlt in Hs. apply Nat.ltb_lt in Hs. rewrite Hs. reflexivity. }
  rewrite random_rounds_rstate.
  eapply Permutation_trans.
  - apply (flat_map_transpose nat nat A (fun s i => firstn 1 (skipn (s + i) l)) bs (seq 0 k)).
  - rewrite (flat_map_ext _ _ (block_rows k)). apply Permutation_refl.
Qed.

End Random.

Lemma random_visit_cons : forall (A : Type) (mangle : list nat -> list nat) (x : A) (l : list A),
  random_visit mangle (x :: l) =
  let '(_, lenBlock) := determine_blocks (len_visit (x :: l)) in
  random_rounds (S lenBlock) (x :: l) (map Some (mangle (block_starts lenBlock (x :: l)))).
Proof. reflexivity. Qed.

Theorem random_visit_perm : forall (A : Type) (l : list A) (mangle : list nat -> list nat),
  (forall bs, Permutation (mangle bs) bs) ->
  Permutation (random_visit mangle l) l.
Proof.
  intros A l mangle Hm. destruct l as [|x l'].
  - constructor.
  - rewrite random_visit_cons.
    remember (x :: l') as l eqn:El.
    assert (Hc : 1 <= len_visit l) by (rewrite len_spec; subst l; cbn [length]; lia).
    pose proof (determine_blocks_len_pos _ Hc) as HL.
    destruct (determine_blocks (len_visit l)) as [nb L]. cbn [snd] in HL.
    eapply Permutation_trans.
    + apply random_rounds_perm. intros s Hs.
      apply (Permutation_in _ (Hm _)) in Hs.
      apply (block_starts_lt A L HL) in Hs. exact Hs.
    + eapply Permutation_trans.
      * apply flat_map_perm. apply Hm.
      * rewrite segments_concat by assumption. apply Permutation_refl.
Qed.

(* ------------------------------------------------------------------ *)
(* 8. the PINNED (unrepaired) random visit is wrong                     *)

Fixpoint random_round_pinned {A : Type} (l : list A) (bs : list (option nat))
  : list A * list (option nat) :=
  match bs with
  | [] => ([], [])
  | b :: bs' =>
    let '(d, b') := random_step_pinned l b in
    let '(ds, bs'') := random_round_pinned l bs' in
    (d ++ ds, b' :: bs'')
  end.

Fixpoint random_rounds_pinned {A : Type} (n : nat) (l : list A) (bs : list (option nat)) : list A :=
  match n with
  | O => []
  | S k => let '(d, bs') := random_round_pinned l bs in d ++ random_rounds_pinned k l bs'
  end.

Definition random_visit_pinned {A : Type} (mangle : list nat -> list nat) (l : list A) : list A :=
  match l with
  | [] => []
  | _ =>
    let '(_, lenBlock) := determine_blocks (len_visit l) in
    random_rounds_pinned (S lenBlock) l (map Some (mangle (block_starts lenBlock l)))
  end.

(* the single item of a one-item collection is delivered twice *)
Example random_pinned_witness : random_visit_pinned (fun bs => bs) [7] = [7; 7].
Proof. vm_compute. reflexivity. Qed.

Theorem random_pinned_refuted :
  exists l : list nat, ~ Permutation (random_visit_pinned (fun bs => bs) l) l.
Proof.
  exists [7]. intros H. apply Permutation_length in H.
  rewrite random_pinned_witness in H. cbn [length] in H. discriminate H.
Qed.

(* ------------------------------------------------------------------ *)
(* 9. sanity checks by computation                                      *)

Example determine_blocks_2049 : determine_blocks 2049 = (1024, 3).
Proof. vm_compute. reflexivity. Qed.

Example determine_blocks_1024 : determine_blocks 1024 = (1024, 1).
Proof. vm_compute. reflexivity. Qed.

Example determine_blocks_2048 : determine_blocks 2048 = (1024, 2).
Proof. vm_compute. reflexivity. Qed.

(* 41 items, lenBlock 1: blocks [0;1] ... [38;39] [40], delivered last block first *)
Example block_visit_rev_41 :
  block_visit (@rev nat) (seq 0 41) =
  40 :: flat_map (fun k => [2 * k; 2 * k + 1]) (rev (seq 0 20)).
Proof. vm_compute. reflexivity. Qed.

(* 5 items, lenBlock 1, starts [0;2;4]: round 0 delivers 0 2 4, round 1 delivers 1 3 *)
Example random_visit_id_5 : random_visit (fun bs => bs) (seq 0 5) = [0; 2; 4; 1; 3].
Proof. vm_compute. reflexivity. Qed.

Example random_visit_rev_5 : random_visit (@rev nat) (seq 0 5) = [4; 2; 0; 3; 1].
Proof. vm_compute. reflexivity. Qed.

(* beyond 1024 items: 2049 items, lenBlock 3 (blocks of 4), nothing lost or duplicated *)
Example block_visit_id_2049 : block_visit (fun bs => bs) (seq 0 2049) = seq 0 2049.
Proof. vm_cast_no_check (@eq_refl (list nat) (seq 0 2049)). Qed.   (* checked by the VM at Qed *)

Example random_visit_2049_length : length (random_visit (@rev nat) (seq 0 2049)) = 2049.
Proof. vm_compute. reflexivity. Qed.

Example len_visit_nil : len_visit (@nil nat) = 0.
Proof. reflexivity. Qed.
