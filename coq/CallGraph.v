(* CallGraph.v — M8: theorems over the call graph that tools/gen regenerates
   from the Go source on every run (Generated.v).  The reachable sets in
   g_reach are an UNTRUSTED certificate: closedness is checked here. *)
From Coq Require Import String Bool.
From GK Require Import Base Generated.
Open Scope string_scope.

Definition lookup_fn (n : string) : option gfn :=
  find (fun f => String.eqb (g_name f) n) g_funcs.

Definition mem (n : string) (l : list string) : bool := existsb (String.eqb n) l.

Definition reach_of (n : string) : list string :=
  match find (fun p => String.eqb (fst p) n) g_reach with
  | Some p => snd p
  | None => []
  end.

(* edges of the graph *)
Definition calls (a b : string) : Prop :=
  exists f, lookup_fn a = Some f /\ In b (g_calls f).

Inductive reaches : string -> string -> Prop :=
| reaches_refl a : reaches a a
| reaches_step a b c : calls a b -> reaches b c -> reaches a c.

(* a set is closed when every member is a known function all of whose callees are members *)
Definition closed (S : list string) : bool :=
  forallb (fun n => match lookup_fn n with
                    | Some f => forallb (fun c => mem c S) (g_calls f)
                    | None => false
                    end) S.

Lemma mem_In n l : mem n l = true <-> In n l.
Proof.
  unfold mem. rewrite existsb_exists. split.
  - intros (x & Hin & He). apply String.eqb_eq in He. subst. exact Hin.
  - intros H. exists n. split; [exact H | apply String.eqb_refl].
Qed.

Lemma closed_sound S : closed S = true -> forall a b, In a S -> reaches a b -> In b S.
Proof.
  intros Hc a b Ha Hr. induction Hr as [a | a b c (f & Hf & Hin) _ IH].
  - exact Ha.
  - apply IH. unfold closed in Hc. rewrite forallb_forall in Hc.
    specialize (Hc a Ha). rewrite Hf in Hc. rewrite forallb_forall in Hc.
    apply mem_In. apply Hc. exact Hin.
Qed.

Definition prop_of (p : gfn -> bool) (n : string) : bool :=
  match lookup_fn n with Some f => p f | None => false end.

(* "from entry e no function satisfying bad is reachable", decided with the certificate *)
Definition safe_from (bad : gfn -> bool) (e : string) : bool :=
  let S := reach_of e in
  mem e S && closed S && forallb (fun n => negb (prop_of bad n)) S.

Lemma safe_from_sound bad e : safe_from bad e = true ->
  forall w f, reaches e w -> lookup_fn w = Some f -> bad f = false.
Proof.
  unfold safe_from. intros H w f Hr Hf.
  apply andb_prop in H as [H Hb]. apply andb_prop in H as [Hm Hc].
  apply mem_In in Hm. pose proof (closed_sound _ Hc e w Hm Hr) as Hin.
  rewrite forallb_forall in Hb. specialize (Hb w Hin).
  unfold prop_of in Hb. rewrite Hf in Hb. destruct (bad f); [discriminate | reflexivity].
Qed.

(* ---------------- C09: read paths never write ---------------- *)

(* the read-only API entry points of the package (and tools/view) *)
Definition read_entries : list string :=
  ["NewStore"; "NewStoreEx"; "Store.GetCollection"; "Store.GetCollectionNames";
   "Collection.Name"; "Collection.GetItem"; "Collection.Get"; "Collection.GetAny";
   "Collection.Exist"; "Collection.ExistAny"; "Collection.MinItem"; "Collection.MaxItem";
   "Collection.VisitItemsAscend"; "Collection.VisitItemsDescend";
   "Collection.VisitItemsAscendEx"; "Collection.VisitItemsDescendEx";
   "Collection.VisitItemsAscendBlockEx"; "Collection.VisitItemsRandom";
   "Collection.IterateAscend"; "Collection.IterateDescend";
   "Collection.iteratorVisitorAscend"; "Collection.iteratorVisitorDescend";
   "iterator.Next"; "iterator.Close"; "iterator.Result"; "iterator.Err";
   "Collection.Len"; "Collection.GetTotals"; "Collection.EvictSomeItems";
   "Collection.AllocStats"; "Collection.MarshalJSON";
   "Store.Snapshot"; "Store.Stats"; "Store.Close"; "Store.MakePrivateCollection";
   "Store.SetCollection"; "Store.RemoveCollection";
   "Store.ItemAlloc"; "Store.ItemAddRef"; "Store.ItemDecRef"; "Store.ItemValRead";
   "Item.Copy"; "Item.NumBytes"; "Item.NumValBytes"; "RandBm";
   "view.mainDo"; "view.main"].

Definition writes_file (f : gfn) : bool := g_writes f.

Lemma read_entries_checked : forallb (safe_from writes_file) read_entries = true.
Proof. vm_compute. reflexivity. Qed.

Theorem static_read_paths : forall e w f,
  In e read_entries -> reaches e w -> lookup_fn w = Some f -> g_writes f = false.
Proof.
  intros e w f He. apply (safe_from_sound writes_file).
  pose proof read_entries_checked as H. rewrite forallb_forall in H. exact (H e He).
Qed.

(* the iterator goroutines are started with `go`; they are entry points too (listed above) *)

(* exactly these functions call WriteAt / Truncate *)
Theorem write_sites :
  map g_name (filter g_writes g_funcs) =
  ["Store.FlushRevert"; "Store.ItemValWrite"; "Store.writeRoots"; "itemLoc.write"; "nodeLoc.write"].
Proof. vm_compute. reflexivity. Qed.

(* ---------------- C05 / C18: nothing blocks or calls out while a lock is held ---------------- *)

(* file I/O, or a call of a user-supplied function (visitor, comparator, block mangler) *)
Definition blocks_or_calls_user (f : gfn) : bool := g_reads f || g_writes f || g_user f.

(* for every function: no direct I/O / user call under its own lock, and nothing it calls
   while holding the lock can reach one *)
Definition lock_discipline (f : gfn) : bool :=
  negb (g_io_under f) && negb (g_user_under f) &&
  forallb (safe_from blocks_or_calls_user) (g_under f).

Lemma lock_discipline_checked : forallb lock_discipline g_funcs = true.
Proof. vm_compute. reflexivity. Qed.

Theorem no_callout_under_lock : forall f, In f g_funcs ->
  g_io_under f = false /\ g_user_under f = false /\
  forall c w h, In c (g_under f) -> reaches c w -> lookup_fn w = Some h ->
                g_reads h = false /\ g_writes h = false /\ g_user h = false.
Proof.
  intros f Hf. pose proof lock_discipline_checked as H. rewrite forallb_forall in H.
  specialize (H f Hf). unfold lock_discipline in H.
  apply andb_prop in H as [H Hu]. apply andb_prop in H as [Hio Hus].
  split; [destruct (g_io_under f); [discriminate | reflexivity]|].
  split; [destruct (g_user_under f); [discriminate | reflexivity]|].
  intros c w h Hc Hr Hl.
  rewrite forallb_forall in Hu. specialize (Hu c Hc).
  pose proof (safe_from_sound _ _ Hu w h Hr Hl) as Hb. unfold blocks_or_calls_user in Hb.
  apply orb_false_elim in Hb as [Hb Hb3]. apply orb_false_elim in Hb as [Hb1 Hb2].
  repeat split; assumption.
Qed.

(* ---------------- lock order (C05 / C18: no deadlock on gkvlite's own locks) ---------------- *)

(* g_lock_order lists every pair (A, B) such that lock B is acquired -- directly or anywhere below a callee --
   while lock A is held.  The order below is a linear extension of it, so the relation is acyclic and no two
   goroutines can wait for each other's gkvlite locks. *)
Definition lock_rank : list string :=
  ["Store.m"; "rootLock"; "freeNodeLock"; "freeNodeLocLock"; "freeRootNodeLocLock"; "itemLocGL"; "nodeLocGL"].

Fixpoint index_of (n : string) (l : list string) : option nat :=
  match l with
  | [] => None
  | x :: xs => if String.eqb n x then Some O else option_map S (index_of n xs)
  end.

Definition forward (e : string * string) : bool :=
  match index_of (fst e) lock_rank, index_of (snd e) lock_rank with
  | Some i, Some j => Nat.ltb i j
  | _, _ => false
  end.

Lemma lock_order_checked : forallb forward g_lock_order = true.
Proof. vm_compute. reflexivity. Qed.

Theorem lock_order_acyclic : forall a b, In (a, b) g_lock_order ->
  exists i j, index_of a lock_rank = Some i /\ index_of b lock_rank = Some j /\ (i < j)%nat.
Proof.
  intros a b H. pose proof lock_order_checked as Hc. rewrite forallb_forall in Hc.
  specialize (Hc (a, b) H). unfold forward in Hc. cbn [fst snd] in Hc.
  destruct (index_of a lock_rank) as [i|]; [|discriminate].
  destruct (index_of b lock_rank) as [j|]; [|discriminate].
  exists i, j. repeat split. apply PeanoNat.Nat.ltb_lt. exact Hc.
Qed.

(* hence no cycle: along any chain of nested acquisitions the rank strictly increases *)
Lemma lock_chain_increases : forall l a b, In (a, b) g_lock_order -> In (b, l) g_lock_order -> a <> l.
Proof.
  intros l a b H1 H2 He. subst l.
  destruct (lock_order_acyclic _ _ H1) as (i & j & Hi & Hj & Hlt).
  destruct (lock_order_acyclic _ _ H2) as (j' & i' & Hj' & Hi' & Hlt').
  rewrite Hi in Hi'. rewrite Hj in Hj'. injection Hi' as <-. injection Hj' as <-. lia.
Qed.
