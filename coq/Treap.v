(* Treap.v — M1: the treap of treap.go / collection.go, branch for branch.
   Executable definitions only; proofs are in TreapSpec.v / TreapShape.v. *)
From GK Require Import Base.

(* persisted location of a record: offset and length (ploc.go) *)
Record ploc := mkPloc { poff : Z; plen : Z }.

(* A node: persisted location of the node (None = dirty), left subtree,
   persisted location of the item (None = dirty), the item, the STORED
   aggregates numNodes / numBytes, right subtree. *)
Inductive tree :=
| E
| T (nloc : option ploc) (l : tree) (iloc : option ploc) (it : item) (nn nb : Z) (r : tree).

(* numInfo (node.go): the stored aggregates of a child *)
Definition num (t : tree) : Z := match t with E => 0 | T _ _ _ _ nn _ _ => nn end.
Definition nby (t : tree) : Z := match t with E => 0 | T _ _ _ _ _ nb _ => nb end.

(* mkNode as called by split/join/union: a fresh (dirty) node whose
   aggregates are computed from the children's stored aggregates *)
Definition mk (l : tree) (il : option ploc) (it : item) (r : tree) : tree :=
  T None l il it (num l + num r + 1) (nby l + nby r + item_bytes it) r.

(* the node SetItem builds for a new item (collection.go:192) *)
Definition single (it : item) : tree := T None E None it 1 (item_bytes it) E.

Section WithCmp.
Variable cmp : bytes -> bytes -> comparison.

(* treap.go:134 split.  The middle is the item (and its location) of the
   node holding key s, if any. *)
Fixpoint split (t : tree) (s : bytes) : tree * option (option ploc * item) * tree :=
  match t with
  | E => (E, None, E)
  | T nl l il it nn nb r =>
    match cmp s (ikey it) with
    | Eq => (l, Some (il, it), r)
    | Lt =>
      match l with
      | E => (E, None, t)
      | _ => let '(ll, m, lr) := split l s in (ll, m, mk lr il it r)
      end
    | Gt =>
      match r with
      | E => (t, None, E)
      | _ => let '(rl, m, rr) := split r s in (mk l il it rl, m, rr)
      end
    end
  end.

(* treap.go:200 join: the root is this iff this.prio > that.prio (strict) *)
Fixpoint join (this : tree) : tree -> tree :=
  fix join_that (that : tree) : tree :=
  match this, that with
  | E, _ => that
  | _, E => this
  | T _ tl til ti _ _ tr, T _ al ail ai _ _ ar =>
    if iprio ti >? iprio ai then mk tl til ti (join tr that)
    else mk (join_that al) ail ai ar
  end.

(* treap.go:26 union, on fuel (the Go recursion is on the sizes) *)
Fixpoint union (fuel : nat) (this that : tree) : option tree :=
  match fuel with
  | O => None
  | S f =>
    match this, that with
    | E, _ => Some that
    | _, E => Some this
    | T _ tl til ti _ _ tr, T _ al ail ai _ _ ar =>
      if iprio ti >? iprio ai then
        let '(l, m, r) := split that (ikey ti) in
        match union f tl l, union f tr r with
        | Some nl, Some nr =>
          match m with
          | Some (mil, mi) => Some (mk nl mil mi nr)
          | None => Some (mk nl til ti nr)
          end
        | _, _ => None
        end
      else
        let '(l, _, r) := split this (ikey ai) in
        match union f l al, union f r ar with
        | Some nl, Some nr => Some (mk nl ail ai nr)
        | _, _ => None
        end
    end
  end.

(* union specialised to a single new node: structurally recursive *)
Fixpoint insert (t : tree) (new : item) : tree :=
  match t with
  | E => single new
  | T _ l il it _ _ r =>
    if iprio it >? iprio new then
      match cmp (ikey it) (ikey new) with
      | Eq => mk l None new r
      | Lt => mk l il it (insert r new)
      | Gt => mk (insert l new) il it r
      end
    else
      let '(l', _, r') := split t (ikey new) in mk l' None new r'
  end.

Fixpoint height (t : tree) : nat :=
  match t with E => O | T _ l _ _ _ _ r => S (Nat.max (height l) (height r)) end.

(* collection.go:107 GetItem *)
Fixpoint lookup (t : tree) (k : bytes) : option item :=
  match t with
  | E => None
  | T _ l _ it _ _ r =>
    match cmp k (ikey it) with
    | Lt => lookup l k
    | Gt => lookup r k
    | Eq => Some it
    end
  end.

(* treap.go:263 walk with MinItem / MaxItem's child choice *)
Fixpoint tmin (t : tree) : option item :=
  match t with
  | E => None
  | T _ l _ it _ _ _ => match l with E => Some it | _ => tmin l end
  end.

Fixpoint tmax (t : tree) : option item :=
  match t with
  | E => None
  | T _ _ _ it _ _ r => match r with E => Some it | _ => tmax r end
  end.

(* collection.go:178 SetItem: validation, then union with the single node *)
Definition valid_item (key : bytes) (val : option bytes) (prio : Z) : bool :=
  match key, val with
  | [], _ => false
  | _, None => false
  | _ :: _, Some _ => (Z.of_nat (length key) <=? 65535) && (0 <=? prio)
  end.

Definition set_item (t : tree) (key : bytes) (val : option bytes) (prio : Z) : option tree :=
  match val with
  | Some v =>
    if valid_item key val prio then
      union (S (S (height t))) t (single (mkItem key v prio))
    else None
  | None => None
  end.

(* collection.go:229 Delete *)
Definition delete (t : tree) (k : bytes) : tree * bool :=
  match lookup t k with
  | None => (t, false)
  | Some _ =>
    let '(l, m, r) := split t k in
    match m with
    | None => (t, false) (* "concurrent delete": unreachable, see delete_mid *)
    | Some _ => (join l r, true)
    end
  end.

(* collection.go:661 GetTotals: the root's stored aggregates *)
Definition totals (t : tree) : Z * Z := (num t, nby t).

(* ---- visits: treap.go:292 visitNodes with ascendChoice / descendChoice.
   The visitor answers true for the first b deliveries and false for the
   next one.  Result: deliveries (item, depth), remaining budget, keepGoing. *)
Fixpoint visit (asc : bool) (t : tree) (target : bytes) (depth : Z) (b : nat)
  : list (item * Z) * nat * bool :=
  match t with
  | E => ([], b, true)
  | T _ l _ it _ _ r =>
    let c := cmp target (ikey it) in
    let choice := if asc then match c with Gt => false | _ => true end
                  else match c with Gt => true | _ => false end in
    let choiceT := if asc then l else r in
    let choiceF := if asc then r else l in
    if choice then
      let '(d1, b1, k1) := visit asc choiceT target (depth + 1) b in
      if k1 then
        match b1 with
        | O => (d1 ++ [(it, depth)], O, false)
        | S b' =>
          let '(d2, b2, k2) := visit asc choiceF target (depth + 1) b' in
          (d1 ++ (it, depth) :: d2, b2, k2)
        end
      else (d1, b1, false)
    else visit asc choiceF target (depth + 1) b
  end.

End WithCmp.

Fixpoint elems (t : tree) : list item :=
  match t with E => [] | T _ l _ it _ _ r => elems l ++ it :: elems r end.

Fixpoint size (t : tree) : nat :=
  match t with E => O | T _ l _ _ _ _ r => S (size l + size r) end.
