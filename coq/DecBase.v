From GK Require Import Base Treap Codec Blocks GExpr Generated.
From Coq Require Import ZArith NArith List String Bool Lia.
Import ListNotations.
Open Scope string_scope.
Open Scope list_scope.
Open Scope Z_scope.

Local Arguments Z.gtb : simpl never.
Local Arguments Z.ltb : simpl never.
Local Arguments Z.leb : simpl never.
Local Arguments Z.geb : simpl never.
Local Arguments Z.eqb : simpl never.
Local Arguments Z.quot : simpl never.
Local Arguments Z.rem : simpl never.
Local Arguments Z.add : simpl never.
Local Arguments Z.sub : simpl never.
Local Arguments Z.of_nat : simpl never.

(* Decisions.v — the decisions of the hand-written models ARE the decisions of the Go source.
   tools/gen translates every function body of /repo into Generated.g_code on every run; here the
   translated conditions (and, for the small pure functions, whole bodies) are evaluated with
   GExpr.geval / gexec and proved equal, for all values of their variables, to what Treap.v,
   Blocks.v, Codec.v, Lazy.v and Proto.v decide at the same points.  A change of a comparison, a
   bound or a validation in the source therefore breaks one of these theorems on the next run,
   whatever the random histories happen to exercise.
   The conditions are found by the variables they mention, so unrelated edits of a function do not
   disturb them. *)
From GK Require Import Base Treap Codec Blocks GExpr Generated.
From Coq Require Import ZArith NArith List String Bool Lia.
Import ListNotations.
Open Scope string_scope.
Open Scope list_scope.
Open Scope Z_scope.
(* ---- finding decisions ---- *)
Fixpoint mentions (v : string) (e : gexpr) : bool :=
  match e with
  | GVar n => (n =? v)%string
  | GSel a _ => mentions v a
  | GBin _ a b => mentions v a || mentions v b
  | GUn _ a => mentions v a
  | GCall f args => (f =? v)%string || existsb (mentions v) args
  | _ => false
  end.

Definition body (f : string) : list gstmt := lookup_code g_code f.

Definition decisions (f v : string) : list gexpr := filter (mentions v) (conds 400 (body f)).

(* environments *)
Definition env0 : env := fun _ => None.

Definition cmpz (c : comparison) : Z := match c with Lt => -1 | Eq => 0 | Gt => 1 end.

(* ------------------------------------------------------------------------------------------- *)
(* 1. treap.go union / join: the root is `this` iff this.Priority > that.Priority (strict): Treap.union, Treap.join *)
Definition prio_env (x y : Z) : env := upd (upd env0 "thisItem.Priority" x) "thatItem.Priority" y.

(* 2. split and GetItem branch on the three-way comparison exactly as Treap.split / Treap.lookup match on it *)
Definition c_env (c : Z) : env := upd env0 "c" c.

(* 3. SetItem's validation is Treap.valid_item.  A nil key and an empty key are both rejected, so the model's single
   empty list stands for both (keynil chooses which one the environment describes). *)
Definition item_env (keynil : bool) (key : bytes) (val : option bytes) (prio : Z) : env :=
  upd (upd (upd (upd env0 "item.Key" (if keynil then 0 else 1))
                 "len(item.Key)" (Z.of_nat (List.length key)))
            "item.Val" (match val with Some _ => 1 | None => 0 end))
       "item.Priority" prio.

(* 4. ascendChoice / descendChoice (collection.go) are the choices of Treap.visit *)
Definition choice_of (f : string) : option gexpr :=
  match body f with [SReturn (c :: _)] => Some c | _ => None end.

(* 5. determineBlocks: the WHOLE translated body, executed, is Blocks.determine_blocks (for every item count that
   fits the int64 the code uses) *)
Definition db_env (cnt : Z) : env := upd (upd env0 "t.Len()#0" cnt) "t.Len()#1" 0.

(* 14. the backward scan (store.go scanBackwardsForMagicEnd): gives up at size <= rootsLen, tests the two MagicEnd
   copies at offsets 12 and 18 of the 24-byte trailer, and otherwise moves down by exactly one byte (Disk.scan) *)
Definition scan_loop : list gstmt :=
  match body "Store.scanBackwardsForMagicEnd" with SFor _ _ _ b :: _ => b | _ => [] end.

(* ------------------------------------------------------------------------------------------- *)
(* 19. structure and ORDER OF EFFECTS of the durability-critical functions (calls in source order, GExpr.calls) *)
Definition call_list (f : string) : list string := calls 400 (body f).

(* 20. Flush pins the collections in NAME order (C05: a later-named collection is never persisted in an older state
   than it had when an earlier-named one was captured): both loops of Flush range over cnames = collNames(coll), and
   collNames sorts *)
Definition ranges (ss : list gstmt) : list (gexpr * list gstmt) :=
  flat_map (fun s => match s with SRange _ _ x b => [(x, b)] | _ => [] end) ss.

(* 21. the aggregates of every node built by union / split / join (Treap.mk): numNodes = left + right + 1 and
   numBytes = left + right + the bytes of THE item the node is built with, the children's aggregates being read
   (numInfo) from exactly the two children the node is built with; the node SetItem builds is Treap.single *)
Definition agg_calls (f : string) : list (string * list gexpr) :=
  filter (fun c => String.eqb (fst c) "t.mkNode" || String.eqb (fst c) "numInfo") (calls_a 400 (body f)).

Fixpoint aggs_ok (last : option (gexpr * gexpr)) (cs : list (string * list gexpr)) : bool :=
  match cs with
  | [] => true
  | ("numInfo", [_; l; r]) :: rest => aggs_ok (Some (l, r)) rest
  | ("t.mkNode", [GVar it; l; r; n; b]) :: rest =>
    match last with
    | Some (l0, r0) =>
      (String.eqb (gshow l) (gshow l0)) && (String.eqb (gshow r) (gshow r0)) &&
      (String.eqb (gshow n) (gshow (GBin "+" (GBin "+" (GVar "leftNum") (GVar "rightNum")) (GInt 1)))) &&
      (String.eqb (gshow b) (gshow (GBin "+" (GBin "+" (GVar "leftBytes") (GVar "rightBytes"))
                                      (GCall "uint64" [GCall (it ++ ".NumBytes") [GVar "t"]])))) &&
      aggs_ok last rest
    | None => false
    end
  | _ => false
  end.

(* 23. item references (C15, Refcount.v: one event per place where the code touches a reference) *)
Definition has_sub (sub s : string) : bool := match index 0 sub s with Some _ => true | None => false end.

Ltac in_tac := vm_compute; repeat (first [left; reflexivity | right]).

