(* Neutral.v — property C17: behaviourally neutral callbacks.
   The harness installs an ItemValWrite callback that writes the value in
   chunks and an ItemValRead callback that reads it in chunks; both are
   indistinguishable from the single WriteAt / ReadAt of the default path. *)
From GK Require Import Base Treap Codec CodecProofs.

(* ---------- definitions ---------- *)

(* split [b] into consecutive pieces of [k] bytes (the last may be shorter);
   [fuel] bounds the number of pieces, [length b] is always enough when 1 <= k *)
Fixpoint chunks (k : nat) (fuel : nat) (b : bytes) : list bytes :=
  match fuel with
  | O => []
  | S fuel' =>
    match b with
    | [] => []
    | _ :: _ => firstn k b :: chunks k fuel' (skipn k b)
    end
  end.

Fixpoint write_chunks (f : file) (off : Z) (cs : list bytes) : file :=
  match cs with
  | [] => f
  | c :: cs' => write_chunks (write_at f off c) (off + blen c) cs'
  end.

(* read consecutive pieces of the given lengths and concatenate them *)
Fixpoint read_chunks (f : file) (off : Z) (lens : list Z) : option bytes :=
  match lens with
  | [] => Some []
  | n :: lens' =>
    match read_at f off n with
    | None => None
    | Some b =>
      match read_chunks f (off + n) lens' with
      | None => None
      | Some bs => Some (b ++ bs)
      end
    end
  end.

Definition zsum (l : list Z) : Z := fold_right Z.add 0 l.

(* the identity callbacks *)
Definition before_write_id (it : item) : item := it.
Definition after_read_id (it : item) : item := it.
Definition item_val_length (it : item) : Z := blen (ival it).

(* ---------- B1 ---------- *)

Lemma concat_chunks_gen : forall k, (1 <= k)%nat -> forall fuel b, (length b <= fuel)%nat ->
  concat (chunks k fuel b) = b.
Proof.
  intros k Hk. induction fuel as [|fuel IH]; intros b Hl.
  - destruct b; [reflexivity | cbn in Hl; lia].
  - destruct b as [|x b]; [reflexivity|].
    cbn [chunks concat]. rewrite IH.
    + apply firstn_skipn.
    + rewrite skipn_length. cbn [length] in *. lia.
Qed.

Theorem concat_chunks : forall k b, (1 <= k)%nat -> concat (chunks k (length b) b) = b.
Proof. intros k b Hk. apply concat_chunks_gen; auto. Qed.

(* the pieces are non-empty and at most [k] bytes long *)
Lemma chunks_sizes : forall k, (1 <= k)%nat -> forall fuel b,
  Forall (fun c => (1 <= length c <= k)%nat) (chunks k fuel b).
Proof.
  intros k Hk. induction fuel as [|fuel IH]; intro b; cbn [chunks]; [constructor|].
  destruct b as [|x b]; constructor.
  - rewrite firstn_length. cbn [length]. lia.
  - apply IH.
Qed.

(* all pieces but the last are exactly [k] bytes long *)
Lemma chunks_full : forall k, (1 <= k)%nat -> forall fuel b c cs c' cs',
  chunks k fuel b = c :: cs -> cs = c' :: cs' -> length c = k.
Proof.
  intros k Hk fuel b c cs c' cs' H1 H2. destruct fuel as [|fuel]; [discriminate|].
  cbn [chunks] in H1. destruct b as [|x b]; [discriminate|].
  injection H1 as H1 H3. subst c.
  destruct (Nat.le_gt_cases k (length (x :: b))) as [Hle|Hgt].
  - apply firstn_length_le. exact Hle.
  - rewrite skipn_all2 in H3 by lia. subst cs.
    destruct fuel; discriminate.
Qed.

(* ---------- B2 ---------- *)

Lemma write_at_nil : forall f off, write_at f off [] = f.
Proof.
  intros f off. unfold write_at. cbn [app length]. rewrite Nat.add_0_r. apply firstn_skipn.
Qed.

(* two adjacent writes are one write of the concatenation *)
Lemma write_at_adjacent : forall f off c d, 0 <= off <= blen f ->
  write_at (write_at f off c) (off + blen c) d = write_at f off (c ++ d).
Proof.
  intros f off c d Hoff. unfold write_at, blen in *.
  set (n := Z.to_nat off).
  assert (Hn : (n <= length f)%nat) by (unfold n; lia).
  replace (Z.to_nat (off + Z.of_nat (length c))) with (n + length c)%nat by (unfold n; lia).
  clearbody n.
  set (a := firstn n f).
  assert (Ha : length a = n) by (unfold a; apply firstn_length_le; exact Hn).
  clearbody a.
  set (rest := skipn (n + length c) f).
  replace (a ++ c ++ rest) with ((a ++ c) ++ rest) by (rewrite app_assoc; reflexivity).
  assert (Hac : length (a ++ c) = (n + length c)%nat) by (rewrite app_length; lia).
  rewrite firstn_app, firstn_all2 by lia.
  replace (n + length c - length (a ++ c))%nat with O by lia.
  rewrite firstn_O, app_nil_r.
  rewrite skipn_app, (skipn_all2 (a ++ c)) by lia.
  replace (n + length c + length d - length (a ++ c))%nat with (length d) by lia.
  unfold rest. rewrite skipn_skipn'.
  rewrite app_length. cbn [app].
  rewrite <- !app_assoc. rewrite Nat.add_assoc. reflexivity.
Qed.

Theorem write_chunks_whole : forall cs f off, 0 <= off <= blen f ->
  write_chunks f off cs = write_at f off (concat cs).
Proof.
  induction cs as [|c cs IH]; intros f off Hoff; cbn [write_chunks concat].
  - symmetry. apply write_at_nil.
  - rewrite IH.
    + apply write_at_adjacent. exact Hoff.
    + rewrite blen_write_at by exact Hoff. pose proof (blen_nonneg c). lia.
Qed.

Theorem chunked_write_neutral : forall k f off v, (1 <= k)%nat -> 0 <= off <= blen f ->
  write_chunks f off (chunks k (length v) v) = write_at f off v.
Proof.
  intros k f off v Hk Hoff. rewrite write_chunks_whole by exact Hoff.
  rewrite concat_chunks by exact Hk. reflexivity.
Qed.

(* ---------- B3 ---------- *)

Lemma zsum_nonneg : forall lens, Forall (fun n => 0 <= n) lens -> 0 <= zsum lens.
Proof.
  induction 1 as [|n lens Hn _ IH]; cbn [zsum fold_right]; [lia|]. fold (zsum lens). lia.
Qed.

(* The lengths must be non-negative: a negative length makes read_at return
   Some [] and moves the offset backwards, e.g. lens = [-1; 2] on a file
   [x0; x1; x2] at offset 1 reads [x0; x1] although read_at f 1 1 = Some [x1]
   (read_chunks_negative below). *)
Theorem read_chunks_whole : forall lens f off b,
  Forall (fun n => 0 <= n) lens ->
  read_at f off (zsum lens) = Some b -> read_chunks f off lens = Some b.
Proof.
  induction lens as [|n lens IH]; intros f off b Hl Hr.
  - cbn [zsum fold_right] in Hr. rewrite read_at_0 in Hr. exact Hr.
  - inversion Hl as [|? ? Hn Hl']; subst.
    cbn [zsum fold_right] in Hr. fold (zsum lens) in Hr.
    pose proof (zsum_nonneg lens Hl') as Hs.
    pose proof (read_at_length _ _ _ _ Hr) as Hlen.
    assert (H1 : read_at f off n = Some (sub b 0 (Z.to_nat n))).
    { pose proof (read_sub f off (n + zsum lens) b 0 n Hr) as H.
      rewrite Z.add_0_r in H. apply H; lia. }
    assert (H2 : read_at f (off + n) (zsum lens) = Some (sub b (Z.to_nat n) (Z.to_nat (zsum lens)))).
    { apply (read_sub f off (n + zsum lens) b n (zsum lens) Hr); lia. }
    cbn [read_chunks]. rewrite H1, (IH f (off + n) _ Hl' H2).
    f_equal. unfold sub. cbn [skipn].
    rewrite (firstn_all2 (skipn (Z.to_nat n) b)).
    + apply firstn_skipn.
    + rewrite skipn_length. lia.
Qed.

Example read_chunks_negative :
  let f := [10; 11; 12]%N in
  read_at f 1 (zsum [-1; 2]) = Some [11%N] /\ read_chunks f 1 [-1; 2] = Some [10; 11]%N.
Proof. split; reflexivity. Qed.

(* strictly positive lengths are a special case *)
Corollary read_chunks_whole_pos : forall lens f off b,
  Forall (fun n => 0 < n) lens ->
  read_at f off (zsum lens) = Some b -> read_chunks f off lens = Some b.
Proof.
  intros lens f off b Hl. apply read_chunks_whole.
  eapply Forall_impl; [|exact Hl]. cbn. intros; lia.
Qed.

Lemma zsum_map_blen : forall cs, zsum (map blen cs) = blen (concat cs).
Proof.
  induction cs as [|c cs IH]; [reflexivity|].
  cbn [map zsum fold_right concat]. fold (zsum (map blen cs)). rewrite IH, blen_app. reflexivity.
Qed.

(* reading back in chunks what was written in chunks (chunk sizes need not agree) *)
Theorem chunked_read_write_neutral : forall k k' f off v,
  (1 <= k)%nat -> (1 <= k')%nat -> 0 <= off <= blen f ->
  read_chunks (write_chunks f off (chunks k (length v) v)) off
              (map blen (chunks k' (length v) v)) = Some v.
Proof.
  intros k k' f off v Hk Hk' Hoff.
  rewrite chunked_write_neutral by assumption.
  apply read_chunks_whole.
  - apply Forall_forall. intros n Hin. apply in_map_iff in Hin.
    destruct Hin as (c & <- & _). apply blen_nonneg.
  - rewrite zsum_map_blen, concat_chunks by exact Hk'.
    apply read_write_same. exact Hoff.
Qed.

(* ---------- B4: identity callbacks (for the record) ---------- *)

Lemma before_write_id_neutral : forall it, enc_item (before_write_id it) = enc_item it.
Proof. reflexivity. Qed.

Lemma after_read_id_neutral : forall f l, option_map after_read_id (dec_item f l) = dec_item f l.
Proof. intros f l. destruct (dec_item f l); reflexivity. Qed.

(* ItemValLength = blen (ival it) is what the header stores as valLength *)
Lemma item_val_length_hdr : forall it,
  enc_item_hdr it =
  be 4 (item_hdr_len + blen (ikey it) + item_val_length it) ++ be 4 (blen (ikey it)) ++
  be 4 (item_val_length it) ++ be 4 (iprio it mod two32).
Proof. reflexivity. Qed.

Lemma item_val_length_field : forall it,
  sub (enc_item_hdr it) 8 4 = be 4 (item_val_length it).
Proof.
  intro it. unfold enc_item_hdr, item_val_length.
  pose proof (hdr_fields (item_hdr_len + blen (ikey it) + blen (ival it)) (blen (ikey it))
                (blen (ival it)) (iprio it mod two32)) as H.
  cbv zeta in H. tauto.
Qed.

(* and decodes back to it when it fits in 32 bits *)
Lemma item_val_length_decoded : forall it, item_val_length it < two32 ->
  de (sub (enc_item_hdr it) 8 4) = item_val_length it.
Proof.
  intros it H. rewrite item_val_length_field. apply de_be.
  rewrite pow256_4. unfold item_val_length in *. pose proof (blen_nonneg (ival it)).
  rewrite two32_eq in H. lia.
Qed.
