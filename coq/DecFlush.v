(* DecFlush.v — part of the decision theorems (see DecBase.v): each file serves a few properties, so that a change of
   the source breaks only the theorems -- and the properties -- it concerns. *)
From GK Require Import Base Treap Codec Blocks GExpr Generated DecBase.
From Coq Require Import ZArith NArith List String Bool Lia.
Import ListNotations.
Open Scope string_scope.
Open Scope list_scope.
Open Scope Z_scope.

Local Arguments Z.gtb : simpl never.
Local Arguments Z.ltb : simpl never.
Local Arguments Z.leb : simpl never.
Local Arguments Z.geb : simpl never.
Local Arguments Z.eqb : simpl never.
Local Arguments Z.quot : simpl never.
Local Arguments Z.rem : simpl never.
Local Arguments Z.add : simpl never.
Local Arguments Z.sub : simpl never.
Local Arguments Z.of_nat : simpl never.

(* Flush: after its two guards and the write loop's error check there is no other way out: it always ends by writing
   the root record, for the versions it pinned (rnls), not for the live collections *)
Theorem flush_always_writes_roots :
  conds 400 (body "Store.Flush") = [GVar "s.readOnly"; GBin "==" (GVar "s.file") GNil; GBin "!=" (GVar "err") GNil] /\
  last (body "Store.Flush") (SOther "") = SReturn [GCall "s.writeRoots" [GVar "rnls"]] /\
  hd (SOther "") (body "Store.writeRoots") = SAssign [GVar "sJSON"; GVar "err"] ":=" [GCall "json.Marshal" [GVar "rnls"]] /\
  before "c.rootAddRef" "coll[name].write" (call_list "Store.Flush") = true /\
  before "coll[name].write" "s.writeRoots" (call_list "Store.Flush") = true.
Proof. repeat split; vm_compute; reflexivity. Qed.

(* every condition of writeRoots is an error check: nothing else can skip the WriteAt or the size update, and size
   moves only after the WriteAt *)
Theorem write_roots_order :
  Forall (fun c => c = GBin "!=" (GVar "err") GNil) (conds 400 (body "Store.writeRoots")) /\
  before "s.file.WriteAt" "atomic.StoreInt64" (call_list "Store.writeRoots") = true.
Proof. split; [vm_compute; repeat constructor | vm_compute; reflexivity]. Qed.

Theorem flush_pins_in_name_order :
  In (SAssign [GVar "cnames"] ":=" [GCall "collNames" [GVar "coll"]]) (body "Store.Flush") /\
  (exists b1 b2, ranges (body "Store.Flush") = [(GVar "cnames", b1); (GVar "cnames", b2)] /\
                 In "c.rootAddRef" (calls 50 b1) /\ In "coll[name].write" (calls 50 b2)) /\
  (exists pre, body "collNames" = pre ++ [SExpr (GCall "sort.Strings" [GVar "res"]); SReturn [GVar "res"]]).
Proof.
  split; [vm_compute; auto 10|]. split.
  - do 2 eexists. split; [vm_compute; reflexivity|]. split; vm_compute; auto.
  - eexists [_; _]. vm_compute. reflexivity.
Qed.

