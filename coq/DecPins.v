(* DecPins.v — part of the decision theorems (see DecBase.v): a reader holds its version for the WHOLE call; a lost
   rootCAS only reports; the JSON form of a version is computed from its root's current location every time.
   Regenerated from the Go source on every run. *)
From GK Require Import Base Treap Codec Blocks GExpr Generated DecBase.
From Coq Require Import ZArith NArith List String Bool Lia.
Import ListNotations.
Open Scope string_scope.
Open Scope list_scope.
Open Scope Z_scope.

(* every call that walks a version pins it first and releases the pin by defer, i.e. only when the call returns
   (Proto: pin ... unpin bracket the reads; C05/C10: a pinned version's cells are never freed) *)
Definition pinned_by_defer (f : string) : bool :=
  match body f with
  | SAssign [GVar "rnl"] ":=" [GCall "t.rootAddRef" []] :: SDefer (GCall "t.rootDecRef" [GVar "rnl"]) :: _ =>
    Nat.eqb (count_occ string_dec (calls 400 (body f)) "t.rootDecRef") 1
  | _ => false
  end.

Theorem readers_hold_their_pin :
  forallb pinned_by_defer
    ["Collection.GetItem"; "Collection.GetTotals"; "Collection.VisitItemsAscendEx"; "Collection.VisitItemsDescendEx";
     "Store.walk"; "Collection.MarshalJSON"] = true.
Proof. vm_compute. reflexivity. Qed.

(* a mutation pins by defer as well and gives back exactly one more reference (the handle's reference on the version
   it replaced) after a successful rootCAS; when the CAS is lost it only reports, releasing nothing else *)
Theorem mutations_release_once :
  (forall f, In f ["Collection.SetItem"; "Collection.Delete"] ->
     In (SDefer (GCall "t.rootDecRef" [GVar "rnl"])) (body f) /\
     count_occ string_dec (calls 400 (body f)) "t.rootDecRef" = 2%nat /\
     last (calls 400 (body f)) "" = "t.rootDecRef" /\
     before "t.rootCAS" "errors.New" (skipn 10 (calls 400 (body f))) = true) /\
  filter (fun s => match s with SIf _ (GUn "!" (GCall "t.rootCAS" _)) _ _ => true | _ => false end)
         (body "Collection.SetItem" ++ body "Collection.Delete") =
  [SIf [] (GUn "!" (GCall "t.rootCAS" [GVar "rnl"; GVar "rnlNew"]))
     [SReturn [GCall "errors.New" [GLit """concurrent mutation attempted"""]]] [];
   SIf [] (GUn "!" (GCall "t.rootCAS" [GVar "rnl"; GVar "rnlNew"]))
     [SReturn [GVar "false"; GCall "errors.New" [GLit """concurrent mutation attempted"""]]] []].
Proof.
  split; [|vm_compute; reflexivity].
  intros f [<-|[<-|[]]]; repeat split; try (vm_compute; reflexivity); in_tac.
Qed.

(* the JSON form of a version (what the root record stores for a collection) is computed from the root node's CURRENT
   location at every call: nothing is cached across a Flush that gives the root its location *)
Theorem root_location_json :
  body "rootNodeLoc.MarshalJSON" =
    [SAssign [GVar "loc"] ":=" [GCall "rnl.root.Loc" []];
     SIf [] (GCall "loc.isEmpty" []) [SReturn [GCall "json.Marshal" [GVar "plocEmpty"]]] [];
     SReturn [GCall "json.Marshal" [GVar "loc"]]] /\
  body "Collection.MarshalJSON" =
    [SAssign [GVar "rnl"] ":=" [GCall "t.rootAddRef" []];
     SDefer (GCall "t.rootDecRef" [GVar "rnl"]);
     SReturn [GCall "rnl.MarshalJSON" []]].
Proof. split; vm_compute; reflexivity. Qed.
