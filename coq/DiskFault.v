(* DiskFault.v — M4d: Store.Flush when ONE WriteAt call fails (property C07).
   The writes of a Flush are, per collection in name order, for every unpersisted item two WriteAt
   calls (header + key, then the value: item.go itemLoc.write), for every unpersisted node one call
   (node.go nodeLoc.write), and finally one call for the root record (store.go writeRoots).  Store.size
   advances and the location is recorded in the in-memory tree only after all calls of a record
   succeeded.  A fault plan is (k, torn): the k-th call (from 0) writes only the first torn bytes of
   its buffer and returns an error; the Flush returns that error at once.
   Executable: the file and the store it predicts after the failed Flush, and after the retried
   Flush, are compared byte for byte with the implementation (C07). *)
From GK Require Import Base Treap Store Codec Disk.
From Coq Require Import ZArith List Bool.
Import ListNotations.
Open Scope Z_scope.

Record wst := mkW {
  w_file : file;
  w_size : Z;          (* Store.size *)
  w_left : nat;        (* successful calls left before the failing one *)
  w_failed : bool
}.

(* one WriteAt call at an explicit offset; never moves Store.size *)
Definition fwrite (torn : nat) (w : wst) (off : Z) (buf : bytes) : wst * bool :=
  if w_failed w then (w, false) else
  match w_left w with
  | O => (mkW (write_at (w_file w) off (firstn torn buf)) (w_size w) O true, false)
  | S n => (mkW (write_at (w_file w) off buf) (w_size w) n false, true)
  end.

Definition set_size (w : wst) (s : Z) : wst := mkW (w_file w) s (w_left w) (w_failed w).

(* itemLoc.write: header and key in one call, the value in a second one *)
Definition write_item_f (torn : nat) (w : wst) (it : item) : wst * option ploc :=
  let off := w_size w in
  let '(w1, ok1) := fwrite torn w off (enc_item_hdr it ++ ikey it) in
  if ok1 then
    let '(w2, ok2) := fwrite torn w1 (off + item_hdr_len + blen (ikey it)) (ival it) in
    if ok2 then (set_size w2 (off + item_loc_len it), Some (mkPloc off (item_loc_len it)))
    else (w2, None)
  else (w1, None).

(* collection.go writeItems, returning at the first error; the locations recorded so far stay *)
Fixpoint write_items_f (torn : nat) (w : wst) (t : tree) : wst * tree :=
  match t with
  | E => (w, E)
  | T (Some p) l il it nn nb r => (w, t)
  | T None l il it nn nb r =>
    let '(w1, l') := write_items_f torn w l in
    if w_failed w1 then (w1, T None l' il it nn nb r) else
    let '(w2, il') :=
      match il with
      | Some _ => (w1, il)
      | None => write_item_f torn w1 it
      end in
    if w_failed w2 then (w2, T None l' il' it nn nb r) else
    let '(w3, r') := write_items_f torn w2 r in
    (w3, T None l' il' it nn nb r')
  end.

(* collection.go writeNodes: children first, returning at the first error *)
Fixpoint write_nodes_f (torn : nat) (w : wst) (t : tree) : wst * tree :=
  match t with
  | E => (w, E)
  | T (Some p) l il it nn nb r => (w, t)
  | T None l il it nn nb r =>
    let '(w1, l') := write_nodes_f torn w l in
    if w_failed w1 then (w1, T None l' il it nn nb r) else
    let '(w2, r') := write_nodes_f torn w1 r in
    if w_failed w2 then (w2, T None l' il it nn nb r') else
    let off := w_size w2 in
    let '(w3, ok) := fwrite torn w2 off (enc_node il (root_loc l') (root_loc r') nn nb) in
    if ok then (set_size w3 (off + node_len), T (Some (mkPloc off node_len)) l' il it nn nb r')
    else (w3, T None l' il it nn nb r')
  end.

Definition write_tree_f (torn : nat) (w : wst) (t : tree) : wst * tree :=
  let '(w1, t1) := write_items_f torn w t in
  if w_failed w1 then (w1, t1) else write_nodes_f torn w1 t1.

Fixpoint write_colls_f (torn : nat) (w : wst) (cs : colls) : wst * colls :=
  match cs with
  | [] => (w, [])
  | (n, c) :: cs' =>
    let '(w1, t') := write_tree_f torn w (c_tree c) in
    if w_failed w1 then (w1, (n, mkColl (c_cmp c) t') :: cs') else
    let '(w2, cs2) := write_colls_f torn w1 cs' in
    (w2, (n, mkColl (c_cmp c) t') :: cs2)
  end.

(* Store.Flush with the fault plan (k, torn): the file, Store.size, the collections (with the
   locations recorded before the error) and whether the Flush failed.  When the plan's call number is
   not reached (k >= number of calls) this is the fault-free Flush. *)
Definition flush_fault (k torn : nat) (f : file) (size : Z) (cs : colls) : file * Z * colls * bool :=
  let '(w1, cs1) := write_colls_f torn (mkW f size k false) cs in
  if w_failed w1 then (w_file w1, w_size w1, cs1, true) else
  let r := enc_root (root_map cs1) (w_size w1) in
  let '(w2, ok) := fwrite torn w1 (w_size w1) r in
  if ok then (w_file w2, w_size w1 + blen r, cs1, false) else (w_file w2, w_size w1, cs1, true).

(* number of WriteAt calls of the fault-free Flush *)
Fixpoint item_calls (t : tree) : nat :=
  match t with
  | E => O
  | T (Some _) _ _ _ _ _ _ => O
  | T None l il _ _ _ r => (item_calls l + (match il with None => 2 | Some _ => 0 end) + item_calls r)%nat
  end.
Fixpoint node_calls (t : tree) : nat :=
  match t with
  | E => O
  | T (Some _) _ _ _ _ _ _ => O
  | T None l _ _ _ _ r => (node_calls l + node_calls r + 1)%nat
  end.
Definition flush_calls (cs : colls) : nat :=
  (fold_right (fun nc a => item_calls (c_tree (snd nc)) + node_calls (c_tree (snd nc)) + a) O cs + 1)%nat.
