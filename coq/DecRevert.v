(* DecRevert.v — part of the decision theorems (see DecBase.v): each file serves a few properties, so that a change of
   the source breaks only the theorems -- and the properties -- it concerns. *)
From GK Require Import Base Treap Codec Blocks GExpr Generated DecBase.
From Coq Require Import ZArith NArith List String Bool Lia.
Import ListNotations.
Open Scope string_scope.
Open Scope list_scope.
Open Scope Z_scope.

Local Arguments Z.gtb : simpl never.
Local Arguments Z.ltb : simpl never.
Local Arguments Z.leb : simpl never.
Local Arguments Z.geb : simpl never.
Local Arguments Z.eqb : simpl never.
Local Arguments Z.quot : simpl never.
Local Arguments Z.rem : simpl never.
Local Arguments Z.add : simpl never.
Local Arguments Z.sub : simpl never.
Local Arguments Z.of_nat : simpl never.

(* 10. FlushRevert steps below the current root only when the store is longer than an empty root record
   (Disk.revert_bytes: if roots_len <? size then size - 1 else size) *)
Theorem revert_step_decision :
  exists c, decisions "Store.FlushRevert" "rootsLen" = [c] /\
    forall size : Z, gtrue (upd (upd env0 "atomic.LoadInt64(&s.size)" size) "rootsLen" roots_len) c = Some (roots_len <? size).
Proof.
  eexists. split; [vm_compute; reflexivity|]. intro size. unfold gtrue. cbn. change roots_len with 44.
  rewrite Z.gtb_ltb. destruct (44 <? size); reflexivity.
Qed.

(* FlushRevert: the collections are replaced and the scan runs before the file is truncated; one Truncate *)
Theorem revert_order :
  let l := call_list "Store.FlushRevert" in
  before "s.readRootsScan" "s.file.Truncate" l = true /\
  count_occ string_dec l "s.file.Truncate" = 1%nat /\
  before "atomic.AddInt64" "s.readRootsScan" l = true.
Proof. repeat split; vm_compute; reflexivity. Qed.

