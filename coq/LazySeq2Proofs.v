(* LazySeq2Proofs.v — proofs about LazySeq2.v: sequences of calls with whole visits, Len and GetTotals.
   V1 the touches of a visit are records of the tree; V2 one call stays within the records of the original tree and,
   key-only, reads node records / item headers / keys only; V3 whole key-only sequences from any memory, never a byte of
   a value; V4 on an empty memory a visit reads what LazyVisit.visit_treads says (records at pairwise distinct offsets);
   V5 a visit leaves no item it touched in memory and never removes a node record; V6 from the file. *)
From GK Require Import Base Treap TreapSpec Codec CodecProofs Disk DiskProofs Lazy LazyProofs LazyVisit LazyMut LazyMutProofs LazySeq LazySeqProofs LazySeq2.
From Coq Require Import Lia ZArith NArith List Bool Permutation.
Import ListNotations.
Open Scope Z_scope.

Definition key_only_op2 (o : sop2) : bool :=
  match o with S1 o => key_only_op o | SVis _ _ wv _ => negb wv | SLen => true | STot => true end.

(* ------------------------------------------------------------------ *)
(* V1: the touches of a visit are records of the tree it runs on (b: whether a value may be asked for) *)

Lemma visit_vt_ok t0 b cmp asc target wv : (wv = true -> b = true) ->
  forall t bud, locs_sub (NPof t0) (IPof t0) t ->
  Forall (vt_ok t0 b) (fst (fst (visit_vt cmp asc t target wv bud))).
Proof.
  intros Hb. induction t as [|nl l IHl il it nn nb r IHr]; intros bud H; [constructor|].
  apply locs_sub_T in H. destruct H as (Hn & Hi & Hl & Hr).
  assert (H0 : Forall (vt_ok t0 b) ((match nl with Some p => [VN p] | None => [] end) ++
                                    (match il with Some q => [VI q it false] | None => [] end))).
  { apply Forall_app_intro.
    - destruct nl as [p|]; constructor; [exact Hn|constructor].
    - destruct il as [q|]; constructor; [|constructor]. split; [exact Hi|discriminate]. }
  assert (Hv : Forall (vt_ok t0 b) (match il with Some q => [VI q it wv] | None => [] end)).
  { destruct il as [q|]; constructor; [|constructor]. split; [exact Hi|exact Hb]. }
  assert (HT : forall b', Forall (vt_ok t0 b) (fst (fst (visit_vt cmp asc (if asc then l else r) target wv b')))).
  { intro b'. destruct asc; auto. }
  assert (HF : forall b', Forall (vt_ok t0 b) (fst (fst (visit_vt cmp asc (if asc then r else l) target wv b')))).
  { intro b'. destruct asc; auto. }
  cbn [visit_vt].
  destruct (vch cmp asc target it).
  - pose proof (HT bud) as H1.
    destruct (visit_vt cmp asc (if asc then l else r) target wv bud) as [[r1 b1] k1].
    cbn [fst] in H1. destruct k1.
    + destruct b1 as [|b'].
      * cbn [fst]. apply Forall_app_intro; [exact H0|]. apply Forall_app_intro; [exact H1|exact Hv].
      * pose proof (HF b') as H2.
        destruct (visit_vt cmp asc (if asc then r else l) target wv b') as [[r2 b2] k2].
        cbn [fst] in H2 |- *. apply Forall_app_intro; [exact H0|]. apply Forall_app_intro; [exact H1|].
        apply Forall_app_intro; [exact Hv|exact H2].
    + cbn [fst]. apply Forall_app_intro; assumption.
  - pose proof (HF bud) as H2.
    destruct (visit_vt cmp asc (if asc then r else l) target wv bud) as [[r2 b2] k2].
    cbn [fst] in H2 |- *. apply Forall_app_intro; assumption.
Qed.

(* the statement in the form of the task: every VN p has p in node_locs t, every VI q it _ has (q, it) in item_locs t,
   and a value is asked for only when the caller asks for values *)
Theorem visit_vt_in_tree : forall cmp asc t target wv bud x,
  In x (fst (fst (visit_vt cmp asc t target wv bud))) ->
  match x with
  | VN p => In p (node_locs t)
  | VI q it w => In (q, it) (item_locs t) /\ (w = true -> wv = true)
  end.
Proof.
  intros cmp asc t target wv bud x Hx.
  pose proof (visit_vt_ok t wv cmp asc target wv (fun e => e) t bud) as H.
  assert (Hs : locs_sub (NPof t) (IPof t) t) by (apply locs_within_sub; apply locs_within_refl).
  specialize (H Hs). rewrite Forall_forall in H. specialize (H x Hx).
  destruct x as [p|q it w]; exact H.
Qed.
Print Assumptions visit_vt_in_tree.

(* ------------------------------------------------------------------ *)
(* V2 *)

Lemma sstep2_gen cmp t0 t m o rs t' m' :
  locs_within t0 t -> sstep2 cmp t m o = (rs, t', m') ->
  locs_within t0 t' /\ Forall (vk (negb (key_only_op2 o)) t0) rs.
Proof.
  intros Hw Hs. pose proof Hw as Hl. apply locs_within_sub in Hl.
  destruct o as [o|asc target wv b| |]; unfold sstep2 in Hs; cbn [key_only_op2]; rewrite ?negb_involutive.
  - exact (sstep_gen cmp t0 t m o rs t' m' Hw Hs).
  - cbv zeta in Hs.
    pose proof (vreads_vk t0 wv _ m (visit_vt_ok t0 wv cmp asc target wv (fun e => e) t b Hl)) as Hv.
    destruct (vreads m (fst (fst (visit_vt cmp asc t target wv b)))) as [rs0 m0].
    inversion Hs; subst. split; [exact Hw|exact Hv].
  - pose proof (vreads_vk t0 false _ m (walk_t_ok t0 false true false (fun e => e) t Hl)) as Hv1.
    destruct (tmin t) as [mi|].
    + cbv zeta in Hs.
      destruct (vreads m (walk_t true false t)) as [r1 m1]. cbn [fst] in Hv1.
      pose proof (vreads_vk t0 false _ m1
        (visit_vt_ok t0 false cmp true (ikey mi) false (fun e => e) t (S (Treap.size t)) Hl)) as Hv2.
      destruct (vreads m1 (fst (fst (visit_vt cmp true t (ikey mi) false (S (Treap.size t)))))) as [r2 m2].
      inversion Hs; subst. split; [exact Hw|]. cbn [negb]. apply Forall_app_intro; [exact Hv1|exact Hv2].
    + destruct (vreads m (walk_t true false t)) as [r1 m1]. inversion Hs; subst. split; [exact Hw|exact Hv1].
  - assert (Hok : Forall (vt_ok t0 false) (match t with T (Some p) _ _ _ _ _ _ => [VN p] | _ => [] end)).
    { destruct t as [|nl l il it nn nb r]; [constructor|]. destruct nl as [p|]; [|constructor].
      apply locs_sub_T in Hl. destruct Hl as (Hn & _). constructor; [exact Hn|constructor]. }
    pose proof (vreads_vk t0 false _ m Hok) as Hv.
    destruct (vreads m (match t with T (Some p) _ _ _ _ _ _ => [VN p] | _ => [] end)) as [rs0 m0].
    inversion Hs; subst. split; [exact Hw|exact Hv].
Qed.

Theorem sstep2_key_only : forall cmp t0 t m o rs t' m',
  locs_within t0 t -> key_only_op2 o = true -> sstep2 cmp t m o = (rs, t', m') ->
  locs_within t0 t' /\ Forall (fun r => in_node t0 r \/ in_keypart t0 r) rs.
Proof.
  intros cmp t0 t m o rs t' m' Hw Hk Hs.
  destruct (sstep2_gen cmp t0 t m o rs t' m' Hw Hs) as [A B]. split; [exact A|].
  rewrite Hk in B. eapply Forall_impl; [|exact B].
  intros r [H|[H _]]; [exact H|discriminate].
Qed.
Print Assumptions sstep2_key_only.

Theorem sstep2_any : forall cmp t0 t m o rs t' m',
  locs_within t0 t -> sstep2 cmp t m o = (rs, t', m') ->
  locs_within t0 t' /\ Forall (fun r => in_node t0 r \/ in_keypart t0 r \/ in_value t0 r) rs.
Proof.
  intros cmp t0 t m o rs t' m' Hw Hs.
  destruct (sstep2_gen cmp t0 t m o rs t' m' Hw Hs) as [A B]. split; [exact A|].
  eapply Forall_impl; [|exact B].
  intros r [[H|H]|[_ H]]; [left|right; left|right; right]; exact H.
Qed.
Print Assumptions sstep2_any.

(* ------------------------------------------------------------------ *)
(* V3 *)

Lemma seq2_key_only_gen cmp t0 : forall ops t m,
  locs_within t0 t -> forallb key_only_op2 ops = true ->
  Forall (Forall (fun r => in_node t0 r \/ in_keypart t0 r)) (srun_reads2 cmp t m ops).
Proof.
  induction ops as [|o r IH]; intros t m Hw Hk; [constructor|].
  cbn [forallb] in Hk. apply andb_prop in Hk. destruct Hk as [Ho Hr].
  cbn [srun_reads2]. destruct (sstep2 cmp t m o) as [[rs t'] m'] eqn:E.
  destruct (sstep2_key_only cmp t0 t m o rs t' m' Hw Ho E) as [A B].
  constructor; [exact B|]. apply IH; assumption.
Qed.

Theorem seq2_key_only : forall cmp t0 ops m,
  forallb key_only_op2 ops = true ->
  Forall (Forall (fun r => in_node t0 r \/ in_keypart t0 r)) (srun_reads2 cmp t0 m ops).
Proof. intros cmp t0 ops m H. apply seq2_key_only_gen; [apply locs_within_refl|exact H]. Qed.
Print Assumptions seq2_key_only.

(* arbitrary sequences: node records, item headers, keys and values of the original tree *)
Theorem seq2_any : forall cmp t0 ops m,
  Forall (Forall (fun r => in_node t0 r \/ in_keypart t0 r \/ in_value t0 r)) (srun_reads2 cmp t0 m ops).
Proof.
  intros cmp t0 ops. assert (G : forall t m, locs_within t0 t ->
    Forall (Forall (fun r => in_node t0 r \/ in_keypart t0 r \/ in_value t0 r)) (srun_reads2 cmp t m ops)).
  { induction ops as [|o r IH]; intros t m Hw; [constructor|].
    cbn [srun_reads2]. destruct (sstep2 cmp t m o) as [[rs t'] m'] eqn:E.
    destruct (sstep2_any cmp t0 t m o rs t' m' Hw E) as [A B].
    constructor; [exact B|]. apply IH; assumption. }
  intro m. apply G. apply locs_within_refl.
Qed.
Print Assumptions seq2_any.

Theorem seq2_never_reads_values : forall cmp f t0 ops m,
  rep f t0 -> records_disjoint t0 -> forallb key_only_op2 ops = true ->
  Forall (Forall (fun r => forall q it, In (q, it) (item_locs t0) -> rd_disjoint r (value_range q it))) (srun_reads2 cmp t0 m ops).
Proof.
  intros cmp f t0 ops m Hrep Hd Hk.
  eapply Forall_impl; [|apply (seq2_key_only cmp t0 ops m Hk)].
  intros rs Hrs. eapply Forall_impl; [|exact Hrs].
  intros r Hr q it Hin. apply (key_only_disjoint_value t0 Hd); auto.
  intros q' it' Hin'. apply (rep_item_lens f t0 Hrep q' it' Hin').
Qed.
Print Assumptions seq2_never_reads_values.

(* ------------------------------------------------------------------ *)
(* V6 *)

Theorem seq2_reads_file_spec : forall cmp f t b ops,
  rep f t -> persisted t -> below t b -> (Treap.size t <= S (length f))%nat ->
  seq2_reads_file cmp f (root_loc t) b ops = Some (srun_reads2 cmp t [] ops).
Proof.
  intros cmp f t b ops Hrep Hper Hb Hs. unfold seq2_reads_file.
  pose proof (rep_height_le_file f t Hrep Hper) as Hh.
  rewrite (load_rep f t b (S (length f)) (S (length f)) Hrep Hper Hb Hs) by lia.
  reflexivity.
Qed.
Print Assumptions seq2_reads_file_spec.

(* ------------------------------------------------------------------ *)
(* V5 *)

Lemma mem_find_evict_in o offs : In o offs -> forall m, mem_find o (evict m offs) = None.
Proof.
  intros Hin. induction m as [|[o' b] r IH]; [reflexivity|].
  unfold evict in *. cbn [filter fst].
  destruct (existsb (Z.eqb o') offs) eqn:E; cbn [negb]; [exact IH|].
  cbn [mem_find]. destruct (o =? o') eqn:E2; [|exact IH].
  apply Z.eqb_eq in E2. subst o'. exfalso.
  assert (X : existsb (Z.eqb o) offs = true).
  { apply existsb_exists. exists o. split; [exact Hin|apply Z.eqb_refl]. }
  congruence.
Qed.

Lemma mem_find_evict_out o offs : ~ In o offs -> forall m, mem_find o (evict m offs) = mem_find o m.
Proof.
  intros Hout. induction m as [|[o' b] r IH]; [reflexivity|].
  unfold evict in *. cbn [filter fst mem_find].
  destruct (o =? o') eqn:E2.
  - apply Z.eqb_eq in E2. subst o'.
    assert (X : existsb (Z.eqb o) offs = false).
    { destruct (existsb (Z.eqb o) offs) eqn:E; [|reflexivity].
      apply existsb_exists in E. destruct E as (x & Hx & Hxe). apply Z.eqb_eq in Hxe. subst x. contradiction. }
    rewrite X. cbn [negb mem_find]. rewrite Z.eqb_refl. reflexivity.
  - destruct (negb (existsb (Z.eqb o') offs)); [cbn [mem_find]; rewrite E2|]; exact IH.
Qed.

(* a touch keeps what is in memory at every offset other than that of the item it touches *)
Lemma vstep_mem_keep m x o : (forall q it wv, x = VI q it wv -> poff q <> o) ->
  mem_find o (vstep_mem m x) = mem_find o m \/ (mem_find o m = None).
Proof.
  intro Hx. destruct x as [p|q it wv]; cbn [vstep_mem].
  - destruct (mem_find (poff p) m) eqn:E; [left; reflexivity|].
    cbn [mem_find]. destruct (o =? poff p) eqn:E2; [|left; reflexivity].
    apply Z.eqb_eq in E2. subst o. right. exact E.
  - assert (E2 : o =? poff q = false).
    { apply Z.eqb_neq. intro Heq. apply (Hx q it wv eq_refl). symmetry. exact Heq. }
    destruct (mem_find (poff q) m) as [hasv|]; [destruct (negb wv || hasv)|];
      left; cbn [mem_find]; rewrite ?E2; reflexivity.
Qed.

Lemma vreads_keep : forall ts m o fl, mem_find o m = Some fl -> ~ In o (item_offs ts) ->
  mem_find o (snd (vreads m ts)) = Some fl.
Proof.
  induction ts as [|x r IH]; intros m o fl Hm Hn; [exact Hm|].
  rewrite vreads_snd_cons.
  unfold item_offs in Hn. cbn [flat_map] in Hn. rewrite in_app_iff in Hn.
  apply IH; [|intro Hx; apply Hn; right; exact Hx].
  destruct (vstep_mem_keep m x o) as [H|H].
  - intros q it wv ->. intro Heq. apply Hn. left. left. exact Heq.
  - rewrite H. exact Hm.
  - congruence.
Qed.

Theorem visit_evicts_items : forall cmp t m asc target wv b rs t' m',
  sstep2 cmp t m (SVis asc target wv b) = (rs, t', m') ->
  t' = t /\
  (forall o, In o (item_offs (fst (fst (visit_vt cmp asc t target wv b)))) -> mem_find o m' = None) /\
  (forall o fl, mem_find o m = Some fl -> ~ In o (item_offs (fst (fst (visit_vt cmp asc t target wv b)))) -> mem_find o m' = Some fl).
Proof.
  intros cmp t m asc target wv b rs t' m' Hs. unfold sstep2 in Hs. cbv zeta in Hs.
  pose proof (vreads_keep (fst (fst (visit_vt cmp asc t target wv b))) m) as Hk.
  destruct (vreads m (fst (fst (visit_vt cmp asc t target wv b)))) as [rs0 m0].
  cbn [snd] in Hk. inversion Hs; subst. split; [reflexivity|]. split.
  - intros o Ho. apply mem_find_evict_in. exact Ho.
  - intros o fl Hm Hn. rewrite mem_find_evict_out by exact Hn. apply Hk; assumption.
Qed.
Print Assumptions visit_evicts_items.

(* ------------------------------------------------------------------ *)
(* non-vacuity *)

Example ex_seq2 : exists t k, persisted t /\
  exists r1 r2, srun_reads2 cmp_bytes t [] [SVis true [] false 9%nat; S1 (SGet k false); S1 (SGet k false)] = [r1; r2; []] /\
  r1 <> [] /\ (length r2 = 2)%nat.
Proof.
  exists ex_tree, [98%N]. split.
  - cbn [ex_tree persisted]. repeat split; discriminate.
  - eexists. eexists. split; [vm_compute; reflexivity|]. split; [discriminate|reflexivity].
Qed.
Print Assumptions ex_seq2.

Example ex_seq2_values :
  srun_reads2 cmp_bytes ex_tree [] [SVis true [] false 9%nat; S1 (SGet [98%N] false); S1 (SGet [98%N] false); SLen; STot] =
  [[Rd 200 52; Rd 30 16; Rd 46 1; Rd 100 52; Rd 0 16; Rd 16 1]; [Rd 30 16; Rd 46 1]; []; [Rd 0 16; Rd 16 1]; []].
Proof. vm_compute. reflexivity. Qed.

(* ------------------------------------------------------------------ *)
(* V4 *)

(* as written (persisted t only) the statement is false: a node record and an item record at the same offset *)
Definition cx_tree : tree :=
  T (Some (mkPloc 0 52)) E (Some (mkPloc 0 18)) (mkItem [97%N] [1%N] 3) 1 2 E.

Example first_visit_needs_distinct_offsets :
  persisted cx_tree /\
  hd [] (srun_reads2 cmp_bytes cx_tree [] [SVis true [] false 1%nat]) = [Rd 0 52] /\
  fst (fst (visit_treads cmp_bytes true cx_tree [] false 1%nat)) = [Rd 0 52; Rd 0 16; Rd 16 1].
Proof.
  split; [cbn [cx_tree persisted]; repeat split; discriminate|].
  split; vm_compute; reflexivity.
Qed.
Print Assumptions first_visit_needs_distinct_offsets.

(* the offsets of all records of a tree *)
Fixpoint toffs (t : tree) : list Z :=
  match t with
  | E => []
  | T nl l il _ _ _ r =>
    (match nl with Some p => [poff p] | None => [] end) ++ (match il with Some q => [poff q] | None => [] end) ++
    toffs l ++ toffs r
  end.

Lemma NoDup_app_inv {A} (a b : list A) :
  NoDup (a ++ b) -> NoDup a /\ NoDup b /\ (forall x, In x a -> ~ In x b).
Proof.
  induction a as [|y a IH]; cbn [app]; intro H.
  - split; [constructor|]. split; [exact H|]. intros x [].
  - inversion H as [|? ? Hy Hr]; subst. destruct (IH Hr) as (A1 & A2 & A3).
    split; [constructor; [|exact A1]|split; [exact A2|]].
    + intro Hi. apply Hy. apply in_or_app. left. exact Hi.
    + intros x [<-|Hx]; [|now apply A3]. intro Hi. apply Hy. apply in_or_app. right. exact Hi.
Qed.

Lemma vreads_app : forall a m b,
  vreads m (a ++ b) = (fst (vreads m a) ++ fst (vreads (snd (vreads m a)) b), snd (vreads (snd (vreads m a)) b)).
Proof.
  induction a as [|x a IH]; intros m b; cbn [app].
  - cbn [vreads fst snd app]. destruct (vreads m b); reflexivity.
  - rewrite !vreads_cons. cbn [fst snd]. rewrite IH. cbn [fst snd]. rewrite app_assoc. reflexivity.
Qed.

Lemma mem_find_cons_ne o a b m : o <> a -> mem_find o ((a, b) :: m) = mem_find o m.
Proof. intro H. cbn [mem_find]. apply Z.eqb_neq in H. rewrite H. reflexivity. Qed.

Lemma mem_find_cons_eq o b m : mem_find o ((o, b) :: m) = Some b.
Proof. cbn [mem_find]. rewrite Z.eqb_refl. reflexivity. Qed.

(* entering a node whose two records are not in memory *)
Lemma vreads_enter m p q it rest :
  mem_find (poff p) m = None -> mem_find (poff q) m = None -> poff p <> poff q ->
  vreads m (VN p :: VI q it false :: rest) =
  ((node_reads p ++ item_reads q it false) ++ fst (vreads ((poff q, false) :: (poff p, false) :: m) rest),
   snd (vreads ((poff q, false) :: (poff p, false) :: m) rest)).
Proof.
  intros Hp Hq Hpq. rewrite vreads_cons. cbn [vstep_reads vstep_mem]. rewrite Hp.
  rewrite vreads_cons. cbn [vstep_reads vstep_mem].
  rewrite (mem_find_cons_ne (poff q) (poff p) false m) by (intro e; apply Hpq; symmetry; exact e).
  rewrite Hq. cbn [fst snd]. rewrite app_assoc. reflexivity.
Qed.

(* the re-read before the delivery, the item being in memory key-only *)
Definition deliver_mem (m : mem) (q : ploc) (wv : bool) : mem := if wv then (poff q, true) :: m else m.

Lemma deliver_mem_ne m q wv o : o <> poff q -> mem_find o (deliver_mem m q wv) = mem_find o m.
Proof. intro H. unfold deliver_mem. destruct wv; [apply mem_find_cons_ne; exact H|reflexivity]. Qed.

Lemma vreads_deliver m q it wv rest : mem_find (poff q) m = Some false ->
  vreads m (VI q it wv :: rest) =
  ((if wv then item_reads q it true else []) ++ fst (vreads (deliver_mem m q wv) rest),
   snd (vreads (deliver_mem m q wv) rest)).
Proof.
  intro H. rewrite vreads_cons. cbn [vstep_reads vstep_mem]. rewrite H. destruct wv; reflexivity.
Qed.

(* a visit of a persisted tree none of whose records is in memory (offsets pairwise distinct): its reads are those of
   LazyVisit.visit_treads, budget and keepGoing agree, and the memory changes at offsets of the tree only *)
Lemma visit_fresh cmp asc target wv : forall t, persisted t -> NoDup (toffs t) -> forall b m,
  (forall o, In o (toffs t) -> mem_find o m = None) ->
  fst (vreads m (fst (fst (visit_vt cmp asc t target wv b)))) = fst (fst (visit_treads cmp asc t target wv b)) /\
  snd (fst (visit_vt cmp asc t target wv b)) = snd (fst (visit_treads cmp asc t target wv b)) /\
  snd (visit_vt cmp asc t target wv b) = snd (visit_treads cmp asc t target wv b) /\
  (forall o, ~ In o (toffs t) ->
     mem_find o (snd (vreads m (fst (fst (visit_vt cmp asc t target wv b))))) = mem_find o m).
Proof.
  induction t as [|nl l IHl il it nn nb r IHr]; intros Hper Hnd b m Hm.
  { cbn [visit_vt visit_treads fst snd vreads]. repeat split. }
  cbn [persisted] in Hper. destruct Hper as (Hnl & Hil & Pl & Pr).
  destruct nl as [p|]; [|congruence]. destruct il as [q|]; [|congruence].
  cbn [toffs app] in Hnd, Hm |- *.
  inversion Hnd as [|? ? Hp Hnd1]; subst. inversion Hnd1 as [|? ? Hq Hnd2]; subst.
  destruct (NoDup_app_inv _ _ Hnd2) as (NDl & NDr & Hlr).
  assert (Hpq : poff p <> poff q). { intro e. apply Hp. left. symmetry. exact e. }
  assert (FT : forall o, In o (toffs (if asc then l else r)) ->
               In o (toffs l ++ toffs r) /\ ~ In o (toffs (if asc then r else l))).
  { destruct asc; intros o Ho; split.
    - apply in_or_app. left. exact Ho.
    - apply Hlr. exact Ho.
    - apply in_or_app. right. exact Ho.
    - intro Ho'. exact (Hlr o Ho' Ho). }
  assert (FF : forall o, In o (toffs (if asc then r else l)) -> In o (toffs l ++ toffs r)).
  { destruct asc; intros o Ho; apply in_or_app; [right|left]; exact Ho. }
  assert (IHT : forall b' m', (forall o, In o (toffs (if asc then l else r)) -> mem_find o m' = None) ->
    fst (vreads m' (fst (fst (visit_vt cmp asc (if asc then l else r) target wv b')))) =
      fst (fst (visit_treads cmp asc (if asc then l else r) target wv b')) /\
    snd (fst (visit_vt cmp asc (if asc then l else r) target wv b')) =
      snd (fst (visit_treads cmp asc (if asc then l else r) target wv b')) /\
    snd (visit_vt cmp asc (if asc then l else r) target wv b') =
      snd (visit_treads cmp asc (if asc then l else r) target wv b') /\
    (forall o, ~ In o (toffs (if asc then l else r)) ->
       mem_find o (snd (vreads m' (fst (fst (visit_vt cmp asc (if asc then l else r) target wv b'))))) = mem_find o m')).
  { intros b' m'. destruct asc; [apply IHl|apply IHr]; assumption. }
  assert (IHF : forall b' m', (forall o, In o (toffs (if asc then r else l)) -> mem_find o m' = None) ->
    fst (vreads m' (fst (fst (visit_vt cmp asc (if asc then r else l) target wv b')))) =
      fst (fst (visit_treads cmp asc (if asc then r else l) target wv b')) /\
    snd (fst (visit_vt cmp asc (if asc then r else l) target wv b')) =
      snd (fst (visit_treads cmp asc (if asc then r else l) target wv b')) /\
    snd (visit_vt cmp asc (if asc then r else l) target wv b') =
      snd (visit_treads cmp asc (if asc then r else l) target wv b') /\
    (forall o, ~ In o (toffs (if asc then r else l)) ->
       mem_find o (snd (vreads m' (fst (fst (visit_vt cmp asc (if asc then r else l) target wv b'))))) = mem_find o m')).
  { intros b' m'. destruct asc; [apply IHr|apply IHl]; assumption. }
  clear IHl IHr.
  set (m2 := (poff q, false) :: (poff p, false) :: m).
  assert (Hm2 : forall o, o <> poff p -> o <> poff q -> mem_find o m2 = mem_find o m).
  { intros o H1 H2. unfold m2. rewrite !mem_find_cons_ne by assumption. reflexivity. }
  assert (Hm2q : mem_find (poff q) m2 = Some false) by apply mem_find_cons_eq.
  assert (Hsub : forall o, In o (toffs l ++ toffs r) -> o <> poff p /\ o <> poff q).
  { intros o Ho. split; intros ->; [apply Hp; right; exact Ho|apply Hq; exact Ho]. }
  assert (Hm2s : forall o, In o (toffs l ++ toffs r) -> mem_find o m2 = None).
  { intros o Ho. destruct (Hsub o Ho) as [H1 H2]. rewrite Hm2 by assumption. apply Hm. right. right. exact Ho. }
  assert (Hent : forall rest, vreads m (VN p :: VI q it false :: rest) =
     ((node_reads p ++ item_reads q it false) ++ fst (vreads m2 rest), snd (vreads m2 rest))).
  { intro rest. apply vreads_enter; [apply Hm; left; reflexivity|apply Hm; right; left; reflexivity|exact Hpq]. }
  assert (Hout : forall o, ~ (poff p = o \/ poff q = o \/ In o (toffs l ++ toffs r)) ->
     o <> poff p /\ o <> poff q /\ ~ In o (toffs (if asc then l else r)) /\ ~ In o (toffs (if asc then r else l))).
  { intros o Ho. split; [intros ->; apply Ho; left; reflexivity|].
    split; [intros ->; apply Ho; right; left; reflexivity|].
    split; intro Hi; apply Ho; right; right; [apply FT; exact Hi|apply FF; exact Hi]. }
  cbn [visit_vt visit_treads app].
  change (vch cmp asc target it) with (vchoice cmp asc target it).
  destruct (vchoice cmp asc target it).
  - destruct (IHT b m2) as (A1 & A2 & A3 & A4); [intros o Ho; apply Hm2s; apply FT; exact Ho|].
    destruct (visit_vt cmp asc (if asc then l else r) target wv b) as [[r1 b1] k1].
    destruct (visit_treads cmp asc (if asc then l else r) target wv b) as [[r1' b1'] k1'].
    cbn [fst snd] in A1, A2, A3, A4. subst b1' k1'.
    set (m3 := snd (vreads m2 r1)) in *.
    assert (Hm3q : mem_find (poff q) m3 = Some false).
    { rewrite A4; [exact Hm2q|]. intro Hi. apply Hq. apply FT. exact Hi. }
    destruct k1.
    + destruct b1 as [|b'].
      * cbn [fst snd]. rewrite Hent. cbn [fst snd]. rewrite vreads_app. cbn [fst snd]. fold m3.
        rewrite (vreads_deliver m3 q it wv [] Hm3q). cbn [vreads fst snd]. rewrite A1, app_nil_r.
        split; [reflexivity|]. split; [reflexivity|]. split; [reflexivity|].
        intros o Ho. destruct (Hout o Ho) as (O1 & O2 & O3 & O4).
        transitivity (mem_find o m3).
        { apply deliver_mem_ne. exact O2. }
        rewrite A4 by exact O3. apply Hm2; assumption.
      * set (m4 := deliver_mem m3 q wv).
        assert (Hm4 : forall o, o <> poff q -> mem_find o m4 = mem_find o m3).
        { intros o Ho. apply deliver_mem_ne. exact Ho. }
        destruct (IHF b' m4) as (B1 & B2 & B3 & B4).
        { intros o Ho. pose proof (FF o Ho) as Hs. destruct (Hsub o Hs) as [H1 H2].
          rewrite Hm4 by exact H2. rewrite A4; [apply Hm2s; exact Hs|].
          intro Hi. exact (proj2 (FT o Hi) Ho). }
        destruct (visit_vt cmp asc (if asc then r else l) target wv b') as [[r2 b2] k2].
        destruct (visit_treads cmp asc (if asc then r else l) target wv b') as [[r2' b2'] k2'].
        cbn [fst snd] in B1, B2, B3, B4 |- *. subst b2' k2'.
        rewrite Hent. cbn [fst snd]. rewrite vreads_app. cbn [fst snd]. fold m3.
        rewrite (vreads_deliver m3 q it wv r2 Hm3q). cbn [fst snd]. fold m4. rewrite A1, B1.
        split; [reflexivity|]. split; [reflexivity|]. split; [reflexivity|].
        intros o Ho. destruct (Hout o Ho) as (O1 & O2 & O3 & O4).
        rewrite B4 by exact O4. rewrite Hm4 by exact O2. rewrite A4 by exact O3. apply Hm2; assumption.
    + cbn [fst snd]. rewrite Hent. cbn [fst snd]. fold m3. rewrite A1.
      split; [reflexivity|]. split; [reflexivity|]. split; [reflexivity|].
      intros o Ho. destruct (Hout o Ho) as (O1 & O2 & O3 & O4).
      rewrite A4 by exact O3. apply Hm2; assumption.
  - destruct (IHF b m2) as (B1 & B2 & B3 & B4); [intros o Ho; apply Hm2s; apply FF; exact Ho|].
    destruct (visit_vt cmp asc (if asc then r else l) target wv b) as [[r2 b2] k2].
    destruct (visit_treads cmp asc (if asc then r else l) target wv b) as [[r2' b2'] k2'].
    cbn [fst snd] in B1, B2, B3, B4 |- *. subst b2' k2'.
    rewrite Hent. cbn [fst snd]. rewrite B1.
    split; [reflexivity|]. split; [reflexivity|]. split; [reflexivity|].
    intros o Ho. destruct (Hout o Ho) as (O1 & O2 & O3 & O4).
    rewrite B4 by exact O4. apply Hm2; assumption.
Qed.

(* V4, generalised: from any memory in which no record of t is loaded *)
Theorem visit_unloaded_is_lazyvisit : forall cmp asc t target wv b m, persisted t -> NoDup (toffs t) ->
  (forall o, In o (toffs t) -> mem_find o m = None) ->
  hd [] (srun_reads2 cmp t m [SVis asc target wv b]) = fst (fst (visit_treads cmp asc t target wv b)).
Proof.
  intros cmp asc t target wv b m Hper Hnd Hm. cbn [srun_reads2]. unfold sstep2. cbv zeta.
  destruct (visit_fresh cmp asc target wv t Hper Hnd b m Hm) as (A & _).
  destruct (vreads m (fst (fst (visit_vt cmp asc t target wv b)))) as [rs m']. cbn [hd]. exact A.
Qed.
Print Assumptions visit_unloaded_is_lazyvisit.

(* V4 with the hypothesis it needs: the records of t have pairwise distinct offsets *)
Theorem first_visit_is_lazyvisit_distinct : forall cmp asc t target wv b, persisted t -> NoDup (toffs t) ->
  hd [] (srun_reads2 cmp t [] [SVis asc target wv b]) = fst (fst (visit_treads cmp asc t target wv b)).
Proof.
  intros cmp asc t target wv b Hper Hnd. apply visit_unloaded_is_lazyvisit; [exact Hper|exact Hnd|].
  intros o _. reflexivity.
Qed.
Print Assumptions first_visit_is_lazyvisit_distinct.

(* budget and keepGoing of the touches are those of visit_treads (hence of Treap.visit) *)
Theorem visit_vt_budget : forall cmp asc t target wv b, persisted t ->
  snd (fst (visit_vt cmp asc t target wv b)) = snd (fst (visit_treads cmp asc t target wv b)) /\
  snd (visit_vt cmp asc t target wv b) = snd (visit_treads cmp asc t target wv b).
Proof.
  intros cmp asc t target wv. induction t as [|nl l IHl il it nn nb r IHr]; intros b Hper; [split; reflexivity|].
  cbn [persisted] in Hper. destruct Hper as (Hnl & Hil & Pl & Pr).
  destruct nl as [p|]; [|congruence]. destruct il as [q|]; [|congruence].
  assert (HT : forall b', snd (fst (visit_vt cmp asc (if asc then l else r) target wv b')) =
                          snd (fst (visit_treads cmp asc (if asc then l else r) target wv b')) /\
                          snd (visit_vt cmp asc (if asc then l else r) target wv b') =
                          snd (visit_treads cmp asc (if asc then l else r) target wv b')).
  { intro b'. destruct asc; [apply IHl|apply IHr]; assumption. }
  assert (HF : forall b', snd (fst (visit_vt cmp asc (if asc then r else l) target wv b')) =
                          snd (fst (visit_treads cmp asc (if asc then r else l) target wv b')) /\
                          snd (visit_vt cmp asc (if asc then r else l) target wv b') =
                          snd (visit_treads cmp asc (if asc then r else l) target wv b')).
  { intro b'. destruct asc; [apply IHr|apply IHl]; assumption. }
  cbn [visit_vt visit_treads]. change (vch cmp asc target it) with (vchoice cmp asc target it).
  destruct (vchoice cmp asc target it).
  - destruct (HT b) as [A1 A2].
    destruct (visit_vt cmp asc (if asc then l else r) target wv b) as [[r1 b1] k1].
    destruct (visit_treads cmp asc (if asc then l else r) target wv b) as [[r1' b1'] k1'].
    cbn [fst snd] in A1, A2. subst b1' k1'. destruct k1; [|split; reflexivity].
    destruct b1 as [|b']; [split; reflexivity|].
    destruct (HF b') as [B1 B2].
    destruct (visit_vt cmp asc (if asc then r else l) target wv b') as [[r2 b2] k2].
    destruct (visit_treads cmp asc (if asc then r else l) target wv b') as [[r2' b2'] k2'].
    cbn [fst snd] in B1, B2 |- *. split; assumption.
  - destruct (HF b) as [B1 B2].
    destruct (visit_vt cmp asc (if asc then r else l) target wv b) as [[r2 b2] k2].
    destruct (visit_treads cmp asc (if asc then r else l) target wv b) as [[r2' b2'] k2'].
    cbn [fst snd] in B1, B2 |- *. split; assumption.
Qed.
Print Assumptions visit_vt_budget.

(* the hypothesis in terms of node_locs / item_locs, and from rep + records_disjoint *)
Definition roffs (t : tree) : list Z := map poff (node_locs t) ++ map (fun x => poff (fst x)) (item_locs t).

Lemma toffs_count x : forall t, count_occ Z.eq_dec (toffs t) x = count_occ Z.eq_dec (roffs t) x.
Proof.
  induction t as [|nl l IHl il it nn nb r IHr]; [reflexivity|].
  unfold roffs in *. cbn [toffs node_locs item_locs].
  rewrite count_occ_app in IHl, IHr.
  rewrite !map_app, !count_occ_app, IHl, IHr.
  destruct nl as [p|]; destruct il as [q|]; cbn [map fst]; lia.
Qed.

Lemma toffs_perm t : Permutation (toffs t) (roffs t).
Proof. apply (Permutation_count_occ Z.eq_dec). intro x. apply toffs_count. Qed.

Lemma NoDup_toffs_roffs t : NoDup (toffs t) <-> NoDup (roffs t).
Proof.
  split; apply Permutation_NoDup; [apply toffs_perm|apply Permutation_sym; apply toffs_perm].
Qed.

Lemma FOP_NoDup_map {A} (g : A -> Z) (R : A -> A -> Prop) (l : list A) :
  (forall a b, In a l -> In b l -> R a b -> g a <> g b) -> ForallOrdPairs R l -> NoDup (map g l).
Proof.
  intros Hg H. induction H as [|x l Hx Hl IH]; cbn [map]; constructor.
  - intro Hi. apply in_map_iff in Hi. destruct Hi as (y & Hy & Hyl).
    rewrite Forall_forall in Hx.
    apply (Hg x y); [left; reflexivity|right; exact Hyl|apply Hx; exact Hyl|symmetry; exact Hy].
  - apply IH. intros a b Ha Hb. apply Hg; right; assumption.
Qed.

Lemma roffs_records t : roffs t = map (fun x => fst (rspan x)) (records t).
Proof.
  unfold roffs, records, node_records, item_records. rewrite map_app, !map_map. reflexivity.
Qed.

Lemma rep_disjoint_NoDup f t : rep f t -> records_disjoint t -> NoDup (toffs t).
Proof.
  intros Hrep Hd. apply NoDup_toffs_roffs. rewrite roffs_records.
  apply (FOP_NoDup_map _ rdisj); [|exact Hd].
  assert (Hpos : forall a, In a (records t) -> fst (rspan a) < snd (rspan a)).
  { intros a Ha. unfold records in Ha. apply in_app_or in Ha. destruct Ha as [Ha|Ha].
    - unfold node_records in Ha. apply in_map_iff in Ha. destruct Ha as (p & <- & Hp).
      cbn [rspan fst snd]. rewrite (rep_node_lens f t Hrep p Hp). unfold node_len. lia.
    - unfold item_records in Ha. apply in_map_iff in Ha. destruct Ha as ([q it] & <- & Hq).
      cbn [rspan fst snd]. destruct (rep_item_lens f t Hrep q it Hq) as [Hlen _].
      rewrite Hlen, item_loc_len_eq.
      pose proof (blen_nonneg (ikey it)). pose proof (blen_nonneg (ival it)). lia. }
  intros a b Ha Hb Hab. pose proof (Hpos a Ha). pose proof (Hpos b Hb).
  unfold rdisj, idisj in Hab. lia.
Qed.

Theorem first_visit_is_lazyvisit_rep : forall cmp f asc t target wv b,
  rep f t -> persisted t -> records_disjoint t ->
  hd [] (srun_reads2 cmp t [] [SVis asc target wv b]) = fst (fst (visit_treads cmp asc t target wv b)).
Proof.
  intros cmp f asc t target wv b Hrep Hper Hd.
  apply first_visit_is_lazyvisit_distinct; [exact Hper|exact (rep_disjoint_NoDup f t Hrep Hd)].
Qed.
Print Assumptions first_visit_is_lazyvisit_rep.

(* V4 from the file: with records_disjoint the first visit reads what Lazy.visit_reads reads *)
Theorem first_visit_is_visit_reads : forall cmp f asc t target wv b fuel,
  rep f t -> persisted t -> records_disjoint t -> (height t <= fuel)%nat ->
  hd [] (srun_reads2 cmp t [] [SVis asc target wv b]) = fst (fst (visit_reads fuel cmp asc f (root_loc t) target wv b)).
Proof.
  intros cmp f asc t target wv b fuel Hrep Hper Hd Hh.
  rewrite (visit_reads_tree cmp asc f target wv t fuel b Hrep Hper Hh).
  apply (first_visit_is_lazyvisit_rep cmp f); assumption.
Qed.
Print Assumptions first_visit_is_visit_reads.
