(* DecVisit.v — part of the decision theorems (see DecBase.v): each file serves a few properties, so that a change of
   the source breaks only the theorems -- and the properties -- it concerns. *)
From GK Require Import Base Treap Codec Blocks GExpr Generated DecBase.
From Coq Require Import ZArith NArith List String Bool Lia.
Import ListNotations.
Open Scope string_scope.
Open Scope list_scope.
Open Scope Z_scope.

Local Arguments Z.gtb : simpl never.
Local Arguments Z.ltb : simpl never.
Local Arguments Z.leb : simpl never.
Local Arguments Z.geb : simpl never.
Local Arguments Z.eqb : simpl never.
Local Arguments Z.quot : simpl never.
Local Arguments Z.rem : simpl never.
Local Arguments Z.add : simpl never.
Local Arguments Z.sub : simpl never.
Local Arguments Z.of_nat : simpl never.

Theorem ascend_choice_decision :
  exists c, choice_of "ascendChoice" = Some c /\
    forall o : comparison, gtrue (upd env0 "cmp" (cmpz o)) c = Some (match o with Gt => false | _ => true end).
Proof. eexists. split; [vm_compute; reflexivity|]. intros [ | | ]; reflexivity. Qed.

Theorem descend_choice_decision :
  exists c, choice_of "descendChoice" = Some c /\
    forall o : comparison, gtrue (upd env0 "cmp" (cmpz o)) c = Some (match o with Gt => true | _ => false end).
Proof. eexists. split; [vm_compute; reflexivity|]. intros [ | | ]; reflexivity. Qed.

(* 17. visitNodes stops as soon as the visitor answers false (C06 early stop) *)
Theorem visitor_stop_decision :
  exists c, decisions "Store.visitNodes" "visitor" = [c] /\
    forall answer : bool, gtrue (upd env0 "visitor(nItem,depth)" (b2z answer)) c = Some (negb answer).
Proof. eexists. split; [vm_compute; reflexivity|]. intros [|]; reflexivity. Qed.

(* 24. visitNodes reads the item key-only on the way down and re-reads it with exactly the caller's withValue before
   delivering it (C19, C06) *)
Theorem visit_item_reads :
  filter (fun c => String.eqb (fst c) "nItemLoc.read") (calls_a 400 (body "Store.visitNodes")) =
  [("nItemLoc.read", [GVar "t"; GVar "false"]); ("nItemLoc.read", [GVar "t"; GVar "withValue"])].
Proof. vm_compute. reflexivity. Qed.

