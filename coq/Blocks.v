(* Blocks.v — M2b: Len, determineBlocks, VisitItemsAscendBlockEx and
   VisitItemsRandom (collection.go:444-611), following the code's counters,
   over the list semantics of the ascending visit: visiting a collection whose
   items (in key order) are l, from the key of l[s], delivers l[s], l[s+1], ...
   until the visitor answers false (TreapSpec.visit_asc_spec). *)
From GK Require Import Base.
Local Open Scope nat_scope.

Section Blocks.
Variable A : Type.   (* an item (or its key) *)

(* the ascending visit starting at position s: a left fold of the visitor over the suffix,
   stopping after the first delivery for which the visitor answers false *)
Fixpoint visit_from {S : Type} (v : S -> A -> S * bool) (st : S) (l : list A) : S :=
  match l with
  | [] => st
  | x :: xs => let '(st', go) := v st x in if go then visit_from v st' xs else st'
  end.

(* MaxBlockCnt *)
Definition max_block_cnt : nat := 1024.

(* determineBlocks: (numBlocks, lenBlock) *)
Definition determine_blocks (cnt : nat) : nat * nat :=
  if Nat.ltb max_block_cnt cnt then
    (max_block_cnt, Nat.div cnt max_block_cnt + (if Nat.eqb (Nat.modulo cnt max_block_cnt) 0 then 0 else 1))
  else (cnt, 1).

(* Len: a visit counting the deliveries (0 for the empty collection) *)
Definition len_visit (l : list A) : nat :=
  visit_from (fun (c : nat) (_ : A) => (S c, true)) 0 l.

(* first pass (both visits): positions of the block starts.  The visitor state is
   (blockStore reversed, j): j == 0 -> append, j = 1; j >= lenBlock -> j = 0; else j++ *)
Definition first_pass_v (lenBlock : nat) (st : list nat * nat * nat) (_ : A) : (list nat * nat * nat) * bool :=
  let '(acc, j, pos) := st in
  if Nat.eqb j 0 then ((pos :: acc, 1, S pos), true)
  else if Nat.leb lenBlock j then ((acc, 0, S pos), true)
  else ((acc, S j, S pos), true).

Definition block_starts (lenBlock : nat) (l : list A) : list nat :=
  let '(acc, _, _) := visit_from (first_pass_v lenBlock) ([], 0, 0) l in rev acc.

(* second pass of VisitItemsAscendBlockEx for one block: j counts; j == lenBlock -> deliver and stop;
   else j++ and deliver.  (The user visitor's answer is ignored here: it always answers true.) *)
Definition block_v (lenBlock : nat) (st : list A * nat) (x : A) : (list A * nat) * bool :=
  let '(out, j) := st in
  if Nat.eqb j lenBlock then ((x :: out, j), false)
  else ((x :: out, S j), true).

Definition visit_block (lenBlock : nat) (l : list A) (start : nat) : list A :=
  rev (fst (visit_from (block_v lenBlock) ([], 0) (skipn start l))).

(* VisitItemsAscendBlockEx: the blocks in the order chosen by the block mangler *)
Definition block_visit (mangle : list nat -> list nat) (l : list A) : list A :=
  match l with
  | [] => []     (* determineBlocks gives 0 blocks: "impossible block sizes" error, nothing delivered *)
  | _ =>
    let '(_, lenBlock) := determine_blocks (len_visit l) in
    flat_map (visit_block lenBlock l) (mangle (block_starts lenBlock l))
  end.

(* VisitItemsRandom (as repaired): lenBlock+1 rounds; in each round every block that is not
   exhausted delivers the item at its current position and advances to the next item if there
   is one, otherwise it is exhausted.  blockStore: option position per block. *)
Definition random_step (l : list A) (cur : option nat) : list A * option nat :=
  match cur with
  | None => ([], None)
  | Some p =>
    match skipn p l with
    | [] => ([], None)                 (* cannot happen: positions are valid *)
    | x :: rest => ([x], match rest with [] => None | _ => Some (S p) end)
    end
  end.

Fixpoint random_round (l : list A) (bs : list (option nat)) : list A * list (option nat) :=
  match bs with
  | [] => ([], [])
  | b :: bs' =>
    let '(d, b') := random_step l b in
    let '(ds, bs'') := random_round l bs' in
    (d ++ ds, b' :: bs'')
  end.

Fixpoint random_rounds (n : nat) (l : list A) (bs : list (option nat)) : list A :=
  match n with
  | O => []
  | S k => let '(d, bs') := random_round l bs in d ++ random_rounds k l bs'
  end.

Definition random_visit (mangle : list nat -> list nat) (l : list A) : list A :=
  match l with
  | [] => []
  | _ =>
    let '(_, lenBlock) := determine_blocks (len_visit l) in
    random_rounds (S lenBlock) l (map Some (mangle (block_starts lenBlock l)))
  end.

(* the PINNED (unrepaired) random visit: a block whose visit finds no second item keeps its
   position, so its last item is delivered again in every remaining round *)
Definition random_step_pinned (l : list A) (cur : option nat) : list A * option nat :=
  match cur with
  | None => ([], None)
  | Some p =>
    match skipn p l with
    | [] => ([], cur)
    | x :: rest => ([x], match rest with [] => Some p | _ => Some (S p) end)
    end
  end.

End Blocks.
