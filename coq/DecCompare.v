(* DecCompare.v — part of the decision theorems (see DecBase.v): each file serves a few properties, so that a change of
   the source breaks only the theorems -- and the properties -- it concerns. *)
From GK Require Import Base Treap Codec Blocks GExpr Generated DecBase.
From Coq Require Import ZArith NArith List String Bool Lia.
Import ListNotations.
Open Scope string_scope.
Open Scope list_scope.
Open Scope Z_scope.

Local Arguments Z.gtb : simpl never.
Local Arguments Z.ltb : simpl never.
Local Arguments Z.leb : simpl never.
Local Arguments Z.geb : simpl never.
Local Arguments Z.eqb : simpl never.
Local Arguments Z.quot : simpl never.
Local Arguments Z.rem : simpl never.
Local Arguments Z.add : simpl never.
Local Arguments Z.sub : simpl never.
Local Arguments Z.of_nat : simpl never.

(* 16. SetCollection: a nil comparator means bytes.Compare (C12) *)
Theorem nil_compare_is_default :
  match body "Store.SetCollection" with
  | SIf [] (GBin "==" (GVar "compare") GNil) [SAssign [GVar "compare"] "=" [GVar "bytes.Compare"]] [] :: _ => True
  | _ => False
  end.
Proof. vm_compute. exact I. Qed.

