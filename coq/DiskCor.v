(* DiskCor.v — corollaries of DiskProofs.v in the form the properties speak. *)
From GK Require Import Base Treap TreapSpec Store Codec CodecProofs Disk DiskProofs.

(* Flush only appends: nothing below the store size changes *)
Lemma flush_appends : forall f size cs f' size' cs',
  Forall (coll_ok f size) cs -> 0 <= size <= blen f -> flush_bytes f size cs = (f', size', cs') ->
  size' < two63 -> roots_len + blen (enc_json (root_map cs')) < two32 -> blen f' = size' ->
  Forall (fun nc => NoDup (node_offs (c_tree (snd nc)))) cs ->
  agree f f' size.
Proof.
  intros f size cs f' size' cs' H1 H2 H3 H4 H5 H6 H7.
  destruct (flush_decodes_nodup f size cs f' size' cs' H1 H2 H3 H4 H5 H6 H7) as (_ & _ & Ha & _).
  exact Ha.
Qed.

(* FlushRevert truncates to the end of a valid root record, or to zero length *)
Lemma revert_truncates_to_root : forall f size f' e m,
  revert_bytes f size = (f', e, m) ->
  (e = 0 /\ f' = [] /\ m = []) \/ (root_at f e = Some m /\ f' = firstn (Z.to_nat e) f /\ e <= size).
Proof.
  intros f size f' e m H. unfold revert_bytes in H.
  destruct (scan f (if roots_len <? size then size - 1 else size)) as [| |e0 m0] eqn:Hs.
  - injection H as <- <- <-. left. auto.
  - injection H as <- <- <-. left. auto.
  - injection H as <- <- <-. right.
    destruct (scan_found _ _ _ _ Hs) as (Hle & _ & Hr & _).
    repeat split; auto. destruct (roots_len <? size); lia.
Qed.
