(* DecRefs.v — part of the decision theorems (see DecBase.v): each file serves a few properties, so that a change of
   the source breaks only the theorems -- and the properties -- it concerns. *)
From GK Require Import Base Treap Codec Blocks GExpr Generated DecBase.
From Coq Require Import ZArith NArith List String Bool Lia.
Import ListNotations.
Open Scope string_scope.
Open Scope list_scope.
Open Scope Z_scope.

Local Arguments Z.gtb : simpl never.
Local Arguments Z.ltb : simpl never.
Local Arguments Z.leb : simpl never.
Local Arguments Z.geb : simpl never.
Local Arguments Z.eqb : simpl never.
Local Arguments Z.quot : simpl never.
Local Arguments Z.rem : simpl never.
Local Arguments Z.add : simpl never.
Local Arguments Z.sub : simpl never.
Local Arguments Z.of_nat : simpl never.

Theorem reference_sites :
  (* Exist gives back the reference GetItem took *)
  body "Collection.Exist" =
    [SAssign [GVar "val"; GVar "_"] ":=" [GCall "t.GetItem" [GVar "key"; GVar "false"]];
     SIf [] (GBin "!=" (GVar "val") GNil)
       [SExpr (GCall "t.store.ItemDecRef" [GVar "t"; GVar "val"]); SReturn [GVar "true"]] [];
     SReturn [GVar "false"]] /\
  (* Len and CopyTo give back the reference MinItem took, CopyTo once per collection (inside its loop) *)
  In (SDefer (GCall "t.store.ItemDecRef" [GVar "t"; GVar "si"])) (body "Collection.Len") /\
  In (SDefer (GCall "s.ItemDecRef" [GVar "srcColl"; GVar "minItem"]))
     (match nth_error (body "Store.CopyTo") 4 with Some (SRange _ _ _ b) => b | _ => [] end) /\
  (* GetItem takes exactly one reference for the caller, as its last call; SetItem one for the tree, before union *)
  count_occ string_dec (call_list "Collection.GetItem") "t.store.ItemAddRef" = 1%nat /\
  last (call_list "Collection.GetItem") "" = "t.store.ItemAddRef" /\
  count_occ string_dec (call_list "Collection.SetItem") "t.store.ItemAddRef" = 1%nat /\
  before "t.store.ItemAddRef" "t.store.union" (call_list "Collection.SetItem") = true /\
  (* a freed node releases its item; an item evicted during a visit is released *)
  In "t.store.ItemDecRef" (call_list "Collection.freeNodeUnlocked") /\
  existsb (has_sub "o.ItemDecRef(t, i)") (call_list "Store.visitNodes") = true.
Proof. repeat split; try (vm_compute; reflexivity); in_tac. Qed.

