(* DecProto.v — part of the decision theorems (see DecBase.v): each file serves a few properties, so that a change of
   the source breaks only the theorems -- and the properties -- it concerns. *)
From GK Require Import Base Treap Codec Blocks GExpr Generated DecBase.
From Coq Require Import ZArith NArith List String Bool Lia.
Import ListNotations.
Open Scope string_scope.
Open Scope list_scope.
Open Scope Z_scope.

Local Arguments Z.gtb : simpl never.
Local Arguments Z.ltb : simpl never.
Local Arguments Z.leb : simpl never.
Local Arguments Z.geb : simpl never.
Local Arguments Z.eqb : simpl never.
Local Arguments Z.quot : simpl never.
Local Arguments Z.rem : simpl never.
Local Arguments Z.add : simpl never.
Local Arguments Z.sub : simpl never.
Local Arguments Z.of_nat : simpl never.

(* 8. rootCAS: the new version is chained behind the previous one iff the previous one has more than two references
   (Proto.v: chained := bool_decide (2 < v_refs x)) *)
Theorem rootcas_chain_decision :
  exists c, decisions "Collection.rootCAS" "prev.refs" = [c] /\
    forall refs : Z, gtrue (upd (upd env0 "prev" 1) "prev.refs" refs) c = Some (2 <? refs).
Proof.
  eexists. split; [vm_compute; reflexivity|]. intro refs. unfold gtrue. cbn. rewrite Z.gtb_ltb.
  destruct (2 <? refs); reflexivity.
Qed.

(* ------------------------------------------------------------------------------------------- *)
(* 11. rootDecRefUnlocked (collection.go): a reference is dropped; the version dies only when that was the last one
   (Proto.decref: refs = S (S n) -> just decremented; refs = 1 -> dies); at death the tree is marked reclaimable only if
   the version was not superseded, and a chained successor is released *)
Theorem decref_decision : forall r : Z,
  exists rest, body "Collection.rootDecRefUnlocked" = SIncDec (GVar "r.refs") false :: SIf [] (GBin ">" (GVar "r.refs") (GInt 0)) [SReturn []] [] :: rest /\
  (1 < r -> gexec 10 (upd env0 "r.refs" r) (firstn 2 (body "Collection.rootDecRefUnlocked")) = RRet []) /\
  (r = 1 -> exists rho, gexec 10 (upd env0 "r.refs" r) (firstn 2 (body "Collection.rootDecRefUnlocked")) = RFall rho /\ rho "r.refs" = Some 0).
Proof.
  intro r. eexists. split; [vm_compute; reflexivity|]. split.
  - intro Hr. cbn. unfold gtrue. cbn.
    assert (r - 1 >? 0 = true) as -> by (apply Z.gtb_lt; lia). reflexivity.
  - intros ->. cbn. eexists. split; [reflexivity|]. reflexivity.
Qed.

Theorem death_marks_unless_superseded :
  exists c, decisions "Collection.rootDecRefUnlocked" "r.superseded" = [c] /\
    forall sup : bool, gtrue (upd env0 "r.superseded" (b2z sup)) c = Some (negb sup).
Proof. eexists. split; [vm_compute; reflexivity|]. intros [|]; reflexivity. Qed.

Theorem death_releases_chain :
  exists c, decisions "Collection.rootDecRefUnlocked" "r.chainedCollection" = [c] /\
    forall a b : bool, gtrue (upd (upd env0 "r.chainedCollection" (b2z a)) "r.chainedRootNodeLoc" (b2z b)) c = Some (a && b).
Proof. eexists. split; [vm_compute; reflexivity|]. intros [|] [|]; reflexivity. Qed.

(* rootAddRef takes exactly one reference on the current version *)
Theorem addref_is_increment :
  exists pre post, body "Collection.rootAddRef" = pre ++ SIncDec (GVar "t.root.refs") true :: post /\
                   Forall (fun s => match s with SIncDec _ _ | SAssign _ _ _ => False | _ => True end) (pre ++ post).
Proof. exists [SExpr (GCall "t.rootLock.Lock" []); SDefer (GCall "t.rootLock.Unlock" [])], [SReturn [GVar "t.root"]].
  split; [vm_compute; reflexivity|]. repeat constructor. Qed.

(* ------------------------------------------------------------------------------------------- *)
(* 25. the version protocol (Proto.v) in the source, statement by statement.
   rootCAS = Proto's mcas: under rootLock; fails unless the handle still shows prev; publishes next; marks prev superseded;
   chains next behind prev (one extra reference, owned by prev) iff prev has more than two references.
   rootDecRef = decref under rootLock and freeNodeLock (in that order).
   closeCollection = Proto's close: detaches the handle's version under rootLock, then drops the handle's reference. *)
Theorem protocol_functions :
  body "Collection.rootCAS" =
    [SExpr (GCall "t.rootLock.Lock" []);
     SDefer (GCall "t.rootLock.Unlock" []);
     SIf [] (GBin "!=" (GVar "t.root") (GVar "prev")) [SReturn [GVar "false"]] [];
     SAssign [GVar "t.root"] "=" [GVar "next"];
     SIf [] (GBin "!=" (GVar "prev") GNil) [SAssign [GVar "prev.superseded"] "=" [GVar "true"]] [];
     SIf [] (GBin "&&" (GBin "!=" (GVar "prev") GNil) (GBin ">" (GVar "prev.refs") (GInt 2)))
       [SIf [] (GBin "||" (GBin "!=" (GVar "prev.chainedCollection") GNil) (GBin "!=" (GVar "prev.chainedRootNodeLoc") GNil))
          [SExpr (GCall "panic" [GCall "fmt.Sprintf" [GLit """chain already taken, coll: %v"""; GCall "t.Name" []]])] [];
        SAssign [GVar "prev.chainedCollection"] "=" [GVar "t"];
        SAssign [GVar "prev.chainedRootNodeLoc"] "=" [GVar "t.root"];
        SIncDec (GVar "t.root.refs") true] [];
     SReturn [GVar "true"]] /\
  body "Collection.rootDecRef" =
    [SExpr (GCall "t.rootLock.Lock" []);
     SExpr (GCall "freeNodeLock.Lock" []);
     SExpr (GCall "t.rootDecRefUnlocked" [GVar "r"]);
     SExpr (GCall "freeNodeLock.Unlock" []);
     SExpr (GCall "t.rootLock.Unlock" [])] /\
  body "Collection.closeCollection" =
    [SIf [] (GBin "==" (GVar "t") GNil) [SReturn []] [];
     SExpr (GCall "t.rootLock.Lock" []);
     SAssign [GVar "r"] ":=" [GVar "t.root"];
     SAssign [GVar "t.root"] "=" [GNil];
     SExpr (GCall "t.rootLock.Unlock" []);
     SIf [] (GBin "!=" (GVar "r") GNil) [SExpr (GCall "t.rootDecRef" [GVar "r"])] []].
Proof. repeat split; vm_compute; reflexivity. Qed.

