(* RefcountVisit.v — C15, the item a visit hands to its visitor.  In the repaired code (367e600) visitNodes takes a
   reference of its own before it calls the visitor and gives it back after the last use of the item: in the model that
   is EvHandOut n ... EvGiveBack i around the visitor's events.  While it is held, NO sequence of other events -- the
   evictions of nested visits, freed nodes, reloads, other callers taking and returning references of their own to other
   items -- brings the item's count to zero.  Without it (the code as found) one eviction of the node is enough. *)
From stdpp Require Import gmap.
From GK Require Import Refcount.

Local Open Scope Z_scope.

(* events that are not the holder's own give-back of item i *)
Definition not_giveback (i : item) (e : event) : Prop :=
  match e with EvGiveBack j => j ≠ i | _ => True end.

Lemma out_step_keeps s e s' i : step s e = Some s' → not_giveback i e → (out s i > 0)%nat → (out s' i > 0)%nat.
Proof.
  intros Hs Hn Ho. destruct e as [n j|n m|n|n j|n j|n|n|j]; cbn in Hs.
  - destruct (owner s !! n); [done|]. inversion Hs; subst; cbn; done.
  - destruct (owner s !! n); [done|]. destruct (owner s !! m); inversion Hs; subst; cbn; done.
  - inversion Hs; subst. unfold release. destruct (owner s !! n); cbn; done.
  - destruct (owner s !! n); [done|]. destruct (decide (fresh s j)); [|done]. inversion Hs; subst; cbn; done.
  - destruct (owner s !! n); [|done]. destruct (decide (fresh s j)); [|done]. inversion Hs; subst; cbn; done.
  - inversion Hs; subst. unfold release. destruct (owner s !! n); cbn; done.
  - destruct (owner s !! n) as [k|]; [|done]. inversion Hs; subst; cbn. unfold upd.
    destruct (decide (i = k)); lia.
  - destruct (decide (0 < out s j)%nat); [|done]. inversion Hs; subst; cbn. unfold upd.
    cbn in Hn. destruct (decide (i = j)); [congruence|done].
Qed.

(* the visitor's item stays positive, whatever else happens, until the visit itself gives the reference back *)
Theorem held_item_stays_positive s n i s1 :
  reachable s → owner s !! n = Some i → step s (EvHandOut n) = Some s1 →
  ∀ es s2, run s1 es = Some s2 → Forall (not_giveback i) es → (out s2 i > 0)%nat ∧ 1 ≤ cnt s2 i.
Proof.
  intros Hr Ho Hs.
  assert (Hr1 : reachable s1) by (eapply reach_step; eauto).
  assert (Ho1 : (out s1 i > 0)%nat).
  { cbn in Hs. rewrite Ho in Hs. inversion Hs; subst; cbn. unfold upd. rewrite decide_True by done. lia. }
  clear Hs Ho Hr. revert s1 Hr1 Ho1.
  intros s1 Hr1 Ho1 es. revert s1 Hr1 Ho1.
  induction es as [|e es IH]; intros s1 Hr1 Ho1 s2 Hrun Hall.
  - cbn in Hrun. inversion Hrun; subst. split; [done|]. by apply handed_positive.
  - cbn in Hrun. destruct (step s1 e) as [s1'|] eqn:E; [|done].
    inversion Hall; subst.
    apply (IH s1'); [eapply reach_step; eauto|eapply out_step_keeps; eauto|done|done].
Qed.

(* the code as found: the item is delivered without a reference of the visit's own; one eviction of its node (what a
   nested visit does when it leaves the node) and the count is zero while the visitor still uses the item *)
Theorem unheld_item_released_under_visitor :
  ∃ s n i s', reachable s ∧ owner s !! n = Some i ∧ cnt s i = 1 ∧ step s (EvEvict n) = Some s' ∧ cnt s' i = 0.
Proof.
  assert (E : step init (EvLoad 1%positive 1%positive) =
              Some (mkState (upd (cnt init) 1%positive 1) (<[1%positive:=1%positive]> (owner init)) (out init))).
  { unfold step. replace (owner init !! 1%positive) with (@None item) by done.
    rewrite decide_True by apply fresh_init. done. }
  eexists _, 1%positive, 1%positive, _. split; [|split; [|split; [|split]]].
  - eapply reach_step; [apply reach_init|exact E].
  - cbn. apply lookup_insert.
  - cbn. unfold upd. by rewrite decide_True.
  - cbn. unfold release. cbn. rewrite lookup_insert. reflexivity.
  - cbn. unfold add, upd. rewrite !decide_True by done. done.
Qed.

(* ---------- the known finding copyto-destination-uncounted ---------- *)
(* CopyTo's destination store is created without the source's callbacks: dstColl.SetItem(i) makes a node of the
   destination own item i, but the application's counter does not move (ItemAddRef of the destination is not reported). *)
Inductive event'' :=
| Ev2 (e : event)
| EvShareUncounted (n : node) (i : item).   (* post: owner n := i, counter untouched *)

Definition step'' (s : state) (e : event'') : option state :=
  match e with
  | Ev2 e => step s e
  | EvShareUncounted n i =>
    match owner s !! n with
    | None => Some (mkState (cnt s) (<[n:=i]> (owner s)) (out s))
    | Some _ => None
    end
  end.

Inductive reachable'' : state → Prop :=
| reach_init'' : reachable'' init
| reach_step'' s e s' : reachable'' s → step'' s e = Some s' → reachable'' s'.

(* load an item into node 1 of the source, share it uncounted with node 2 of the destination, let the source's visit
   leave node 1 (eviction): node 2 still caches the item, its count is zero *)
Theorem copyto_uncounted_refuted :
  ¬ (∀ s n i, reachable'' s → owner s !! n = Some i → 1 ≤ cnt s i).
Proof.
  intros H.
  set (s1 := mkState (upd (cnt init) 1%positive 1) (<[1%positive:=1%positive]> (owner init)) (out init)).
  assert (E1 : step'' init (Ev2 (EvLoad 1%positive 1%positive)) = Some s1).
  { cbn. replace (owner init !! 1%positive) with (@None item) by done.
    rewrite decide_True by apply fresh_init. done. }
  set (s2 := mkState (cnt s1) (<[2%positive:=1%positive]> (owner s1)) (out s1)).
  assert (E2 : step'' s1 (EvShareUncounted 2%positive 1%positive) = Some s2).
  { cbn. rewrite lookup_insert_ne by done. rewrite lookup_empty. done. }
  assert (E3 : step'' s2 (Ev2 (EvEvict 1%positive)) = Some (release s2 1%positive)) by done.
  assert (R : reachable'' (release s2 1%positive)).
  { eapply reach_step''; [|exact E3]. eapply reach_step''; [|exact E2]. eapply reach_step''; [apply reach_init''|exact E1]. }
  specialize (H (release s2 1%positive) 2%positive 1%positive R).
  assert (Ho : owner (release s2 1%positive) !! 2%positive = Some 1%positive).
  { unfold release. cbn. rewrite lookup_insert_ne by done. rewrite lookup_insert. cbn.
    rewrite lookup_delete_ne by done. apply lookup_insert. }
  specialize (H Ho). revert H. unfold release. cbn.
  rewrite lookup_insert_ne by done. rewrite lookup_insert. cbn. unfold add, upd. rewrite !decide_True by done. lia.
Qed.
