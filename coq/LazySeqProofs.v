(* LazySeqProofs.v — proofs about LazySeq.v: the ReadAt calls of whole sequences of calls (C19, "whatever is cached").
   SQ0 without values the memory-threading reads are LazyMut.reads_of; SQ1 one call stays within the records of the
   original tree and, key-only, reads node records / item headers / keys only; SQ2 whole key-only sequences from any
   memory; SQ3 never a byte of a value; SQ4 what was loaded is not read again; SQ5 the first call is the single-call
   model; SQ6 from the file. *)
From GK Require Import Base Treap TreapSpec Codec CodecProofs Disk DiskProofs Lazy LazyProofs LazyVisit LazyMut LazyMutProofs LazySeq.
From Coq Require Import Lia ZArith NArith List Bool.
Import ListNotations.
Open Scope Z_scope.

(* ------------------------------------------------------------------ *)
(* one touch at a time: what it reads and what the memory is afterwards *)

Definition vstep_mem (m : mem) (x : vtouch) : mem :=
  match x with
  | VN p => match mem_find (poff p) m with Some _ => m | None => (poff p, false) :: m end
  | VI q it wv =>
    match mem_find (poff q) m with
    | Some hasv => if negb wv || hasv then m else (poff q, true) :: m
    | None => (poff q, wv) :: m
    end
  end.

Definition vstep_reads (m : mem) (x : vtouch) : list rd :=
  match x with
  | VN p => match mem_find (poff p) m with Some _ => [] | None => node_reads p end
  | VI q it wv =>
    match mem_find (poff q) m with
    | Some hasv => if negb wv || hasv then [] else item_reads q it true
    | None => item_reads q it wv
    end
  end.

Lemma vreads_cons m x r :
  vreads m (x :: r) = (vstep_reads m x ++ fst (vreads (vstep_mem m x) r), snd (vreads (vstep_mem m x) r)).
Proof.
  destruct x as [p|q it wv]; cbn [vreads vstep_mem vstep_reads].
  - destruct (mem_find (poff p) m).
    + destruct (vreads m r); reflexivity.
    + destruct (vreads ((poff p, false) :: m) r); reflexivity.
  - destruct (mem_find (poff q) m) as [hasv|].
    + destruct (negb wv || hasv).
      * destruct (vreads m r); reflexivity.
      * destruct (vreads ((poff q, true) :: m) r); reflexivity.
    + destruct (vreads ((poff q, wv) :: m) r); reflexivity.
Qed.

Lemma vreads_fst_cons m x r : fst (vreads m (x :: r)) = vstep_reads m x ++ fst (vreads (vstep_mem m x) r).
Proof. rewrite vreads_cons. reflexivity. Qed.

Lemma vreads_snd_cons m x r : snd (vreads m (x :: r)) = snd (vreads (vstep_mem m x) r).
Proof. rewrite vreads_cons. reflexivity. Qed.

(* ------------------------------------------------------------------ *)
(* SQ0 *)

Lemma mem_find_seen o m : seen o (map fst m) = match mem_find o m with Some _ => true | None => false end.
Proof.
  induction m as [|[o' b] r IH]; [reflexivity|].
  cbn [map fst mem_find]. unfold seen in *. cbn [existsb]. destruct (o =? o'); [reflexivity|exact IH].
Qed.

Lemma vreads_of_touch : forall ts m,
  fst (vreads m (map of_touch ts)) = reads_of (map fst m) ts.
Proof.
  induction ts as [|x r IH]; intro m; [reflexivity|].
  cbn [map]. rewrite vreads_fst_cons.
  destruct x as [p|q it]; cbn [of_touch vstep_reads vstep_mem reads_of]; rewrite mem_find_seen.
  - destruct (mem_find (poff p) m); [apply IH|]. rewrite IH. reflexivity.
  - destruct (mem_find (poff q) m) as [hasv|]; cbn [negb orb]; [apply IH|]. rewrite IH. reflexivity.
Qed.

(* ------------------------------------------------------------------ *)
(* definitions of the statements *)

Definition key_only_op (o : sop) : bool :=
  match o with SGet _ wv => negb wv | SMin wv => negb wv | SMax wv => negb wv | SSet _ _ _ => true | SDel _ => true end.

Definition locs_within (t0 t' : tree) : Prop :=
  (forall p, In p (node_locs t') -> In p (node_locs t0)) /\
  (forall q it, In (q, it) (item_locs t') -> In (q, it) (item_locs t0)).

Lemma locs_within_sub t0 t : locs_within t0 t <-> locs_sub (NPof t0) (IPof t0) t.
Proof.
  unfold locs_within, locs_sub, NPof, IPof. split; intros [A B]; (split; [exact A|]).
  - intros [q it] Hx. apply B. exact Hx.
  - intros q it Hx. apply (B (q, it)). exact Hx.
Qed.

Lemma locs_within_refl t : locs_within t t.
Proof. split; auto. Qed.

(* ------------------------------------------------------------------ *)
(* touches of records of t0; b says whether a value may be asked for *)

Definition vt_ok (t0 : tree) (b : bool) (x : vtouch) : Prop :=
  match x with
  | VN p => In p (node_locs t0)
  | VI q it wv => In (q, it) (item_locs t0) /\ (wv = true -> b = true)
  end.

Lemma vstep_reads_vk t0 b m x : vt_ok t0 b x -> Forall (vk b t0) (vstep_reads m x).
Proof.
  assert (Htrue : forall q it, In (q, it) (item_locs t0) -> b = true -> Forall (vk b t0) (item_reads q it true)).
  { intros q it Hin Hb. rewrite item_reads_true_false. apply Forall_app_intro.
    - apply vk_key_only. now apply key_only_item_in.
    - constructor; [|constructor]. right. split; [exact Hb|]. exists q, it. split; [exact Hin|reflexivity]. }
  destruct x as [p|q it wv]; cbn [vt_ok vstep_reads].
  - intro Hp. destruct (mem_find (poff p) m); [constructor|].
    apply vk_key_only. now apply key_only_node_in.
  - intros [Hin Hb]. destruct (mem_find (poff q) m) as [hasv|].
    + destruct (negb wv || hasv) eqn:E; [constructor|].
      apply Htrue; [exact Hin|]. apply Hb. destruct wv; [reflexivity|discriminate].
    + destruct wv; [apply Htrue; auto|]. apply vk_key_only. now apply key_only_item_in.
Qed.

Lemma vreads_vk t0 b : forall ts m, Forall (vt_ok t0 b) ts -> Forall (vk b t0) (fst (vreads m ts)).
Proof.
  induction ts as [|x r IH]; intros m H; [constructor|].
  inversion H as [|? ? Hx Hr]; subst. rewrite vreads_fst_cons.
  apply Forall_app_intro; [now apply vstep_reads_vk|now apply IH].
Qed.

Lemma of_touch_ok t0 b ts :
  Forall (touch_ok (NPof t0) (IPof t0)) ts -> Forall (vt_ok t0 b) (map of_touch ts).
Proof.
  intro H. induction H as [|x r Hx Hr IH]; cbn [map]; constructor; [|exact IH].
  destruct x as [p|q it]; cbn [of_touch vt_ok touch_ok] in *; [exact Hx|]. split; [exact Hx|discriminate].
Qed.

Lemma getv_t_ok t0 b cmp k wv : (wv = true -> b = true) ->
  forall t, locs_sub (NPof t0) (IPof t0) t -> Forall (vt_ok t0 b) (getv_t cmp t k wv).
Proof.
  intros Hb. induction t as [|nl l IHl il it nn nb r IHr]; intro H; [constructor|].
  apply locs_sub_T in H. destruct H as (Hn & Hi & Hl & Hr).
  cbn [getv_t]. apply Forall_app_intro.
  { destruct nl as [p|]; constructor; [exact Hn|constructor]. }
  apply Forall_app_intro.
  { destruct il as [q|]; constructor; [|constructor]. split; [exact Hi|discriminate]. }
  destruct (cmp k (ikey it)); auto.
  destruct wv; [|constructor]. destruct il as [q|]; constructor; [|constructor]. split; [exact Hi|exact Hb].
Qed.

Lemma walk_t_ok t0 b left wv : (wv = true -> b = true) ->
  forall t, locs_sub (NPof t0) (IPof t0) t -> Forall (vt_ok t0 b) (walk_t left wv t).
Proof.
  intros Hb. induction t as [|nl l IHl il it nn nb r IHr]; intro H; [constructor|].
  apply locs_sub_T in H. destruct H as (Hn & Hi & Hl & Hr).
  assert (Hhere : Forall (vt_ok t0 b) (match il with Some q => [VI q it wv] | None => [] end)).
  { destruct il as [q|]; constructor; [|constructor]. split; [exact Hi|exact Hb]. }
  cbn [walk_t]. apply Forall_app_intro.
  { destruct nl as [p|]; constructor; [exact Hn|constructor]. }
  destruct left; [destruct l|destruct r]; auto.
Qed.

(* SetItem / Delete: touches and result tree *)
Lemma set_ok NP IP cmp t k v prio : locs_sub NP IP t ->
  Forall (touch_ok NP IP) (set_touches cmp t k (Some v) prio) /\
  locs_sub NP IP (match set_item cmp t k (Some v) prio with Some t' => t' | None => t end).
Proof.
  intro H. unfold set_touches, set_item.
  destruct (valid_item k (Some v) prio); [|split; [constructor|exact H]].
  rewrite <- union_t_fst.
  pose proof (union_t_ok NP IP cmp (S (S (height t))) t (single (mkItem k v prio)) H (locs_sub_single _ _ _)) as Hu.
  destruct (union_t cmp (S (S (height t))) t (single (mkItem k v prio))) as [[t' ts]|]; cbn [option_map fst].
  - exact Hu.
  - split; [constructor|exact H].
Qed.

Lemma del_ok NP IP cmp t k : locs_sub NP IP t ->
  Forall (touch_ok NP IP) (del_touches cmp t k) /\ locs_sub NP IP (fst (delete cmp t k)).
Proof.
  intro H. unfold del_touches, delete.
  destruct (lookup cmp t k) as [i|]; [|split; [now apply get_t_ok|exact H]].
  rewrite <- split_t_fst.
  pose proof (split_t_ok NP IP cmp t k H) as Hs.
  destruct (split_t cmp t k) as [[[l m] r] ts]. destruct Hs as (A & B & C & _). cbn [fst].
  pose proof (join_t_ok NP IP l r B C) as Hj. rewrite join_t_fst in Hj.
  destruct (join_t l r) as [j tj]. cbn [fst snd] in Hj. destruct Hj as [Hj1 Hj2].
  split.
  - apply Forall_app_intro; [now apply get_t_ok|]. apply Forall_app_intro; assumption.
  - destruct m; cbn [fst]; assumption.
Qed.

(* ------------------------------------------------------------------ *)
(* SQ1 *)

Lemma sstep_gen cmp t0 t m o rs t' m' :
  locs_within t0 t -> sstep cmp t m o = (rs, t', m') ->
  locs_within t0 t' /\ Forall (vk (negb (key_only_op o)) t0) rs.
Proof.
  intros Hw Hs. pose proof Hw as Hl. apply locs_within_sub in Hl.
  destruct o as [k wv|wv|wv|k v prio|k]; unfold sstep in Hs; cbn [key_only_op]; rewrite ?negb_involutive.
  - pose proof (vreads_vk t0 wv _ m (getv_t_ok t0 wv cmp k wv (fun e => e) t Hl)) as Hv.
    destruct (vreads m (getv_t cmp t k wv)) as [rs0 m0]. inversion Hs; subst. split; [exact Hw|exact Hv].
  - pose proof (vreads_vk t0 wv _ m (walk_t_ok t0 wv true wv (fun e => e) t Hl)) as Hv.
    destruct (vreads m (walk_t true wv t)) as [rs0 m0]. inversion Hs; subst. split; [exact Hw|exact Hv].
  - pose proof (vreads_vk t0 wv _ m (walk_t_ok t0 wv false wv (fun e => e) t Hl)) as Hv.
    destruct (vreads m (walk_t false wv t)) as [rs0 m0]. inversion Hs; subst. split; [exact Hw|exact Hv].
  - destruct (set_ok _ _ cmp t k v prio Hl) as [A B].
    pose proof (vreads_vk t0 false _ m (of_touch_ok t0 false _ A)) as Hv.
    destruct (vreads m (map of_touch (set_touches cmp t k (Some v) prio))) as [rs0 m0].
    inversion Hs; subst. split; [apply locs_within_sub; exact B|exact Hv].
  - destruct (del_ok _ _ cmp t k Hl) as [A B].
    pose proof (vreads_vk t0 false _ m (of_touch_ok t0 false _ A)) as Hv.
    destruct (vreads m (map of_touch (del_touches cmp t k))) as [rs0 m0].
    inversion Hs; subst. split; [apply locs_within_sub; exact B|exact Hv].
Qed.

Theorem sstep_key_only : forall cmp t0 t m o rs t' m',
  locs_within t0 t -> key_only_op o = true -> sstep cmp t m o = (rs, t', m') ->
  locs_within t0 t' /\ Forall (fun r => in_node t0 r \/ in_keypart t0 r) rs.
Proof.
  intros cmp t0 t m o rs t' m' Hw Hk Hs.
  destruct (sstep_gen cmp t0 t m o rs t' m' Hw Hs) as [A B]. split; [exact A|].
  rewrite Hk in B. eapply Forall_impl; [|exact B].
  intros r [H|[H _]]; [exact H|discriminate].
Qed.
Print Assumptions sstep_key_only.

Theorem sstep_any : forall cmp t0 t m o rs t' m',
  locs_within t0 t -> sstep cmp t m o = (rs, t', m') ->
  locs_within t0 t' /\ Forall (fun r => in_node t0 r \/ in_keypart t0 r \/ in_value t0 r) rs.
Proof.
  intros cmp t0 t m o rs t' m' Hw Hs.
  destruct (sstep_gen cmp t0 t m o rs t' m' Hw Hs) as [A B]. split; [exact A|].
  eapply Forall_impl; [|exact B].
  intros r [[H|H]|[_ H]]; [left|right; left|right; right]; exact H.
Qed.
Print Assumptions sstep_any.

(* ------------------------------------------------------------------ *)
(* SQ2 *)

Lemma seq_key_only_gen cmp t0 : forall ops t m,
  locs_within t0 t -> forallb key_only_op ops = true ->
  Forall (Forall (fun r => in_node t0 r \/ in_keypart t0 r)) (srun_reads cmp t m ops).
Proof.
  induction ops as [|o r IH]; intros t m Hw Hk; [constructor|].
  cbn [forallb] in Hk. apply andb_prop in Hk. destruct Hk as [Ho Hr].
  cbn [srun_reads]. destruct (sstep cmp t m o) as [[rs t'] m'] eqn:E.
  destruct (sstep_key_only cmp t0 t m o rs t' m' Hw Ho E) as [A B].
  constructor; [exact B|]. apply IH; assumption.
Qed.

Theorem seq_key_only : forall cmp t0 ops m,
  forallb key_only_op ops = true ->
  Forall (Forall (fun r => in_node t0 r \/ in_keypart t0 r)) (srun_reads cmp t0 m ops).
Proof. intros cmp t0 ops m H. apply seq_key_only_gen; [apply locs_within_refl|exact H]. Qed.
Print Assumptions seq_key_only.

(* the same for arbitrary sequences: node records, item headers, keys and values of the original tree *)
Theorem seq_any : forall cmp t0 ops m,
  Forall (Forall (fun r => in_node t0 r \/ in_keypart t0 r \/ in_value t0 r)) (srun_reads cmp t0 m ops).
Proof.
  intros cmp t0 ops. assert (G : forall t m, locs_within t0 t ->
    Forall (Forall (fun r => in_node t0 r \/ in_keypart t0 r \/ in_value t0 r)) (srun_reads cmp t m ops)).
  { induction ops as [|o r IH]; intros t m Hw; [constructor|].
    cbn [srun_reads]. destruct (sstep cmp t m o) as [[rs t'] m'] eqn:E.
    destruct (sstep_any cmp t0 t m o rs t' m' Hw E) as [A B].
    constructor; [exact B|]. apply IH; assumption. }
  intro m. apply G. apply locs_within_refl.
Qed.
Print Assumptions seq_any.

(* ------------------------------------------------------------------ *)
(* SQ3 *)

Theorem seq_never_reads_values : forall cmp f t0 ops m,
  rep f t0 -> records_disjoint t0 -> forallb key_only_op ops = true ->
  Forall (Forall (fun r => forall q it, In (q, it) (item_locs t0) -> rd_disjoint r (value_range q it))) (srun_reads cmp t0 m ops).
Proof.
  intros cmp f t0 ops m Hrep Hd Hk.
  eapply Forall_impl; [|apply (seq_key_only cmp t0 ops m Hk)].
  intros rs Hrs. eapply Forall_impl; [|exact Hrs].
  intros r Hr q it Hin. apply (key_only_disjoint_value t0 Hd); auto.
  intros q' it' Hin'. apply (rep_item_lens f t0 Hrep q' it' Hin').
Qed.
Print Assumptions seq_never_reads_values.

(* ------------------------------------------------------------------ *)
(* SQ4 *)

Definition voff (x : vtouch) : Z := match x with VN p => poff p | VI q _ _ => poff q end.
Definition vwv (x : vtouch) : bool := match x with VN _ => false | VI _ _ wv => wv end.

Lemma mem_find_cons_mono o o' b m : mem_find o m <> None -> mem_find o ((o', b) :: m) <> None.
Proof. intro H. cbn [mem_find]. destruct (o =? o'); [discriminate|exact H]. Qed.

Lemma mem_find_cons_here o b m : mem_find o ((o, b) :: m) <> None.
Proof. cbn [mem_find]. rewrite Z.eqb_refl. discriminate. Qed.

Lemma vstep_mem_mono m x o : mem_find o m <> None -> mem_find o (vstep_mem m x) <> None.
Proof.
  intro H. destruct x as [p|q it wv]; cbn [vstep_mem].
  - destruct (mem_find (poff p) m); [exact H|now apply mem_find_cons_mono].
  - destruct (mem_find (poff q) m) as [hasv|]; [destruct (negb wv || hasv)|];
      [exact H|now apply mem_find_cons_mono|now apply mem_find_cons_mono].
Qed.

Lemma vstep_mem_loaded m x : mem_find (voff x) (vstep_mem m x) <> None.
Proof.
  destruct x as [p|q it wv]; cbn [vstep_mem voff].
  - destruct (mem_find (poff p) m) eqn:E; [rewrite E; discriminate|apply mem_find_cons_here].
  - destruct (mem_find (poff q) m) as [hasv|] eqn:E; [destruct (negb wv || hasv)|];
      [rewrite E; discriminate|apply mem_find_cons_here|apply mem_find_cons_here].
Qed.

(* the memory only grows *)
Lemma vreads_mono : forall ts m o, mem_find o m <> None -> mem_find o (snd (vreads m ts)) <> None.
Proof.
  induction ts as [|x r IH]; intros m o H; [exact H|].
  rewrite vreads_snd_cons. apply IH. now apply vstep_mem_mono.
Qed.

(* every record touched is in memory afterwards *)
Lemma vreads_loaded : forall ts m x, In x ts -> mem_find (voff x) (snd (vreads m ts)) <> None.
Proof.
  induction ts as [|y r IH]; intros m x H; [destruct H|].
  rewrite vreads_snd_cons. destruct H as [<-|H].
  - apply vreads_mono. apply vstep_mem_loaded.
  - now apply IH.
Qed.

(* key-only touches of records in memory cost nothing and leave the memory as it is *)
Lemma vreads_nothing : forall ts m,
  Forall (fun x => vwv x = false /\ mem_find (voff x) m <> None) ts -> vreads m ts = ([], m).
Proof.
  induction ts as [|x r IH]; intros m H; [reflexivity|].
  inversion H as [|? ? [Hw Hm] Hr]; subst.
  destruct x as [p|q it wv]; cbn [vreads voff vwv] in *.
  - destruct (mem_find (poff p) m); [now apply IH|congruence].
  - subst wv. destruct (mem_find (poff q) m) as [hasv|]; [|congruence]. cbn [negb orb]. now apply IH.
Qed.

Lemma vreads_again ts m : Forall (fun x => vwv x = false) ts ->
  vreads (snd (vreads m ts)) ts = ([], snd (vreads m ts)).
Proof.
  intro H. apply vreads_nothing. rewrite Forall_forall in *. intros x Hx.
  split; [now apply H|now apply vreads_loaded].
Qed.

Lemma getv_t_false cmp k : forall t, Forall (fun x => vwv x = false) (getv_t cmp t k false).
Proof.
  induction t as [|nl l IHl il it nn nb r IHr]; [constructor|].
  cbn [getv_t]. apply Forall_app_intro; [destruct nl; repeat constructor|].
  apply Forall_app_intro; [destruct il; repeat constructor|].
  destruct (cmp k (ikey it)); [constructor|exact IHl|exact IHr].
Qed.

Theorem lookup_twice_reads_nothing : forall cmp t m k,
  exists r1, srun_reads cmp t m [SGet k false; SGet k false] = [r1; []].
Proof.
  intros cmp t m k. cbn [srun_reads]. unfold sstep.
  pose proof (vreads_again (getv_t cmp t k false) m (getv_t_false cmp k t)) as H.
  destruct (vreads m (getv_t cmp t k false)) as [rs m1]. cbn [snd] in H. rewrite H.
  exists rs. reflexivity.
Qed.
Print Assumptions lookup_twice_reads_nothing.

(* ------------------------------------------------------------------ *)
(* SQ5 *)

Theorem first_call_is_lazymut : forall cmp t k v prio,
  srun_reads cmp t [] [SSet k v prio] = [set_treads cmp t k (Some v) prio] /\
  srun_reads cmp t [] [SDel k] = [del_treads cmp t k].
Proof.
  intros cmp t k v prio. split; cbn [srun_reads]; unfold sstep, set_treads, del_treads.
  - pose proof (vreads_of_touch (set_touches cmp t k (Some v) prio) []) as H.
    destruct (vreads [] (map of_touch (set_touches cmp t k (Some v) prio))) as [rs m'].
    cbn [fst map] in H. rewrite H. reflexivity.
  - pose proof (vreads_of_touch (del_touches cmp t k) []) as H.
    destruct (vreads [] (map of_touch (del_touches cmp t k))) as [rs m'].
    cbn [fst map] in H. rewrite H. reflexivity.
Qed.
Print Assumptions first_call_is_lazymut.

(* ------------------------------------------------------------------ *)
(* SQ6 *)

Theorem seq_reads_file_spec : forall cmp f t b ops,
  rep f t -> persisted t -> below t b -> (Treap.size t <= S (length f))%nat ->
  seq_reads_file cmp f (root_loc t) b ops = Some (srun_reads cmp t [] ops).
Proof.
  intros cmp f t b ops Hrep Hper Hb Hs. unfold seq_reads_file.
  pose proof (rep_height_le_file f t Hrep Hper) as Hh.
  rewrite (load_rep f t b (S (length f)) (S (length f)) Hrep Hper Hb Hs) by lia.
  reflexivity.
Qed.
Print Assumptions seq_reads_file_spec.

(* ------------------------------------------------------------------ *)
(* non-vacuity *)

Definition ex_tree : tree :=
  T (Some (mkPloc 200 52))
    (T (Some (mkPloc 100 52)) E (Some (mkPloc 0 18)) (mkItem [97%N] [1%N] 3) 1 2 E)
    (Some (mkPloc 30 18)) (mkItem [98%N] [2%N] 9) 2 4 E.

Example ex_seq : exists t, persisted t /\
  exists r1 r3 r4, srun_reads cmp_bytes t [] [SGet [97%N] true; SGet [97%N] false; SSet [99%N] [1%N] 5; SMin false] = [r1; []; r3; r4] /\ r1 <> [].
Proof.
  exists ex_tree. split.
  - cbn [ex_tree persisted]. repeat split; discriminate.
  - eexists. eexists. eexists. split; [vm_compute; reflexivity|discriminate].
Qed.
Print Assumptions ex_seq.

(* what the sequence of the example reads, call by call *)
Example ex_seq_values :
  srun_reads cmp_bytes ex_tree [] [SGet [97%N] true; SGet [97%N] false; SSet [99%N] [1%N] 5; SMin false] =
  [[Rd 200 52; Rd 30 16; Rd 46 1; Rd 100 52; Rd 0 16; Rd 16 1; Rd 0 16; Rd 16 1; Rd 17 1]; []; []; []].
Proof. vm_compute. reflexivity. Qed.

Print Assumptions vreads_of_touch.
