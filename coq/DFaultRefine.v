(* DFaultRefine.v — failed Flush calls ANYWHERE in a history are invisible to every completed call
   (DFaultHist.v needs them to be retried at once).

   DStoreRefine's relation R says that the file ends exactly at the last root record
   (R_len, R_size).  A failed Flush breaks both: records (and a torn one) lie beyond the last root
   record, Store.size has advanced past it, and bytes may lie beyond Store.size.  The generalised
   relation R' only says   last root end <= d_size ds <= blen (d_file ds)   and keeps the invariant
   that every valid root record of the file is one of the real ones (R'_roots), so that the dirty
   tail and the junk contain none.

   Contents
     1. the boolean side condition fhist_okb (threads the last root end), fhistory_ok
     2. the relation R', R'_init, R ==> R'
     3. sim'_nondisk   4. sim'_flush (from a dirty state, over junk)   5. sim'_flushfail
     6. sim'_reopen (dirty tail / junk allowed)   7. sim'_revert (clean store only)
     8. sim'_step, sim'_run, dfrun_refines_store_general
     9. ex_general: non-vacuity (a failed Flush followed by other calls, a dirty re-open, junk that
        survives a Flush)
    10. failed_first_flush_reopen, dirty_revert_excluded: the side conditions on re-open and on
        FlushRevert cannot be dropped

   Side conditions (fop_okb), beyond DStoreRefine.op_okb0:
     - FOp OFlush: no valid root record ends strictly between the last root end and the end of the
       new root record, nor beyond it up to the end of the file (junk left over by a failed Flush
       that was longer than this one);
     - FOp ORevert: the store is clean (d_size ds = last root end): with a dirty tail FlushRevert
       returns to the last completed Flush instead of the one before it;
     - FOp OReopen: a root record exists or the file is empty.  NEEDED: after a failed FIRST Flush
       the file is not empty and has no root record, and re-opening it is an error at the byte
       level ("no roots"), whereas the abstract store re-opens to the empty state
       (failed_first_flush_reopen below);
     - FFlushFail k torn: the fault fires; the aggregates fit 8 bytes and the COMPLETED Flush would
       end below 2^63 (this bounds the failed one, and the no-sharing invariant of the locations
       recorded before the error is obtained from the retried Flush); no valid root record ends
       beyond the last root end in the resulting file. *)
From GK Require Import Base Order Treap TreapSpec Store StoreSpec StoreRefine Codec CodecProofs
  Disk DiskProofs DStore DStoreRefine DiskFault DiskFaultProofs DFaultRun DFaultHist DFaultRefineAux.
From Coq Require Import Lia ZArith NArith List Bool.
Import ListNotations.
Open Scope Z_scope.

(* ================================================================== *)
(* 1. The side condition                                               *)

(* lr: the end of the last root record (0: none yet) *)
Definition fop_okb (ds : dstore) (lr : Z) (o : fop) : bool :=
  match o with
  | FOp OFlush =>
    let ds' := fst (dstep ds OFlush) in
    op_okb0 ds OFlush &&
    no_root_in (d_file ds') lr (Z.to_nat (d_size ds' - lr - 1)) &&
    no_root_in (d_file ds') (d_size ds') (Z.to_nat (blen (d_file ds') - d_size ds'))
  | FOp ORevert => d_size ds =? lr
  | FOp OReopen => (0 <? lr) || (blen (d_file ds) =? 0)
  | FOp o => op_okb0 ds o
  | FFlushFail k torn =>
    let ds1 := fst (dfstep ds (FFlushFail k torn)) in
    (k <? flush_calls (d_cur ds))%nat &&
    totals_okb (d_cur ds) && (d_size (fst (dstep ds OFlush)) <? two63) &&
    no_root_in (d_file ds1) lr (Z.to_nat (blen (d_file ds1) - lr))
  end.

(* after a completed Flush and after a FlushRevert the store is clean *)
Definition next_root (o : fop) (ds' : dstore) (lr : Z) : Z :=
  match o with
  | FOp OFlush => d_size ds'
  | FOp ORevert => d_size ds'
  | _ => lr
  end.

Fixpoint fhist_okb (ds : dstore) (lr : Z) (fops : list fop) : bool :=
  match fops with
  | [] => true
  | o :: fops' =>
    let ds' := fst (dfstep ds o) in
    fop_okb ds lr o && fhist_okb ds' (next_root o ds' lr) fops'
  end.

Definition fhistory_ok (fops : list fop) : Prop := fhist_okb dinit 0 fops = true.

(* ================================================================== *)
(* 2. The generalised relation                                         *)

Record R' (ds : dstore) (s : store) (ends : list Z) : Prop := mkR' {
  R'_file : s_file s = true;
  R'_reg : d_cmpreg ds = s_cmpreg s;
  R'_cur : ecolls (d_cur ds) = ecolls (s_cur s);
  R'_size : hd 0 ends <= d_size ds <= blen (d_file ds);
  R'_inv : Forall (coll_inv (d_file ds) (d_size ds)) (d_cur ds);
  R'_snaps : Forall2 (snap_ok (d_file ds)) ends (s_flushed s);
  R'_desc : sdesc ends;
  R'_roots : forall e, root_at (d_file ds) e <> None -> In e ends;
  R'_wf : wf s
}.

Theorem R_R' ds s ends : R ds s ends -> R' ds s ends.
Proof.
  intros [H1 H2 H3 H4 H5 H6 H7 H8 H9 H10]. constructor; auto. lia.
Qed.

Theorem R'_init : R' dinit (init true) [].
Proof. apply R_R'. apply R_init. Qed.

Lemma R'_size_nonneg ds s ends : R' ds s ends -> 0 <= hd 0 ends.
Proof. intros H. eapply sdesc_hd_nonneg. exact (R'_snaps _ _ _ H). Qed.

(* the preconditions of the Flush lemmas *)
Lemma R'_coll_ok ds s ends : R' ds s ends -> totals_okb (d_cur ds) = true ->
  Forall (coll_ok (d_file ds) (d_size ds)) (d_cur ds) /\
  Forall (fun nc => NoDup (node_offs (c_tree (snd nc)))) (d_cur ds).
Proof.
  intros HR Htot. pose proof (R'_inv _ _ _ HR) as Rinv. pose proof (R'_cur _ _ _ HR) as Rcur.
  pose proof (R'_wf _ _ _ HR) as Rwf. split.
  - apply Forall_forall. intros [n c] Hin.
    rewrite Forall_forall in Rinv. destruct (Rinv _ Hin) as (Hn & Hrep & Hbel & Hit & Hnd).
    cbn [fst snd] in *. unfold coll_ok. cbn [fst snd]. repeat split; auto.
    unfold totals_okb in Htot. rewrite forallb_forall in Htot. specialize (Htot _ Hin).
    cbn [snd] in Htot. apply andb_prop in Htot. destruct Htot as [T1 T2]. apply Z.ltb_lt in T1, T2.
    apply aggs_tree_ok; auto.
    eapply dcur_aggs; [exact Rcur | exact (proj1 Rwf) | exact Hin].
  - eapply Forall_impl; [|exact Rinv]. intros nc (_ & _ & _ & _ & H). exact H.
Qed.

Lemma coll_ok_inv f b cs : Forall (coll_ok f b) cs ->
  Forall (fun nc => NoDup (node_offs (c_tree (snd nc)))) cs -> Forall (coll_inv f b) cs.
Proof.
  intros H1 H2. apply Forall_forall. intros nc Hin. rewrite Forall_forall in H1, H2.
  destruct (H1 _ Hin) as (C1 & C2 & C3 & C4). specialize (H2 _ Hin).
  split; [exact C1|]. repeat split; auto. apply tree_ok_items. exact C4.
Qed.

Lemma Forall2_in_r {A B} (P : A -> B -> Prop) l l' b :
  Forall2 P l l' -> In b l' -> exists a, In a l /\ P a b.
Proof.
  induction 1 as [|a0 b0 l l' H0 H2 IH]; intros Hin; [destruct Hin|].
  destruct Hin as [<-|Hin].
  - exists a0. split; [left; reflexivity | exact H0].
  - destruct (IH Hin) as (a & Ha & Hp). exists a. split; [right; exact Ha | exact Hp].
Qed.

(* a root record of the new file at or below a bound up to which the files agree is an old one *)
Lemma roots_agree f f' b ends e :
  (forall e, root_at f e <> None -> In e ends) -> agree f f' b -> e <= b ->
  root_at f' e <> None -> In e ends.
Proof.
  intros Hr Ha Hle He. apply Hr. rewrite <- (root_at_agree f f' e); [exact He|].
  eapply agree_mono; eauto.
Qed.

(* ================================================================== *)
(* 3. Operations that do not touch the file                            *)

Theorem sim'_nondisk : forall ds s ends o ds' r s' r', is_disk o = false ->
  R' ds s ends -> op_okb0 ds o = true -> ops_ok (s_cmpreg s) [o] ->
  dstep ds o = (ds', r) -> step s o = (s', r') ->
  r = r' /\ R' ds' s' ends.
Proof.
  intros [f size dcur dreg] [fb cur fl reg] ends o ds' r s' r' Hd HR Hok Hops Hds Hs.
  destruct HR as [Rf Rreg Rcur Rsize Rinv Rsnaps Rdesc Rroots Rwf].
  cbn [s_file d_cmpreg s_cmpreg d_cur s_cur d_file d_size s_flushed] in *. subst fb dreg.
  rewrite (dstep_nondisk _ _ Hd) in Hds. cbn [d_cur d_cmpreg d_file d_size] in Hds.
  destruct (step (mkStore true dcur [] reg) o) as [s1 r1] eqn:H1.
  inversion Hds; subst ds' r; clear Hds.
  destruct (nondisk_same _ _ _ _ _ _ _ _ _ Hd Rcur H1 Hs) as (Er & Ec & Ereg).
  destruct (step_nondisk _ _ _ _ _ _ _ Hd Hs) as (Sf & Sfl & _).
  destruct (step_refines _ _ _ _ Rwf Hops Hs) as [Hwf' _].
  split; [exact Er|].
  constructor; cbn [s_file d_cmpreg s_cmpreg d_cur s_cur d_file d_size s_flushed]; auto.
  - eapply step_coll_inv; [exact Hd| | |exact Rinv|exact H1].
    + intros name id ->. cbn [op_okb0] in Hok. apply name_okb_ok. exact Hok.
    + intros name key v prio c -> G V. cbn [op_okb0 d_cur] in Hok. rewrite G, V in Hok.
      apply item_okb_ok. exact Hok.
  - rewrite Sfl. exact Rsnaps.
Qed.

(* ================================================================== *)
(* 4. Flush, possibly from a dirty state and over junk                 *)

Theorem sim'_flush : forall ds s ends ds' r s' r',
  R' ds s ends -> fop_okb ds (hd 0 ends) (FOp OFlush) = true -> ops_ok (s_cmpreg s) [OFlush] ->
  dstep ds OFlush = (ds', r) -> step s OFlush = (s', r') ->
  r = r' /\ R' ds' s' (d_size ds' :: ends).
Proof.
  intros ds s ends ds' r s' r' HR Hok Hops Hds Hs.
  pose proof (R'_size_nonneg _ _ _ HR) as Hlr0.
  unfold fop_okb in Hok. rewrite Hds in Hok. cbn [fst] in Hok.
  apply andb_prop in Hok. destruct Hok as [Hok Hjunk]. apply andb_prop in Hok. destruct Hok as [Hok Hnr].
  unfold op_okb0 in Hok. rewrite Hds in Hok. cbn [fst] in Hok.
  apply andb_prop in Hok. destruct Hok as [Hok H32]. apply andb_prop in Hok. destruct Hok as [Htot H63].
  apply Z.ltb_lt in H63, H32.
  destruct (R'_coll_ok _ _ _ HR Htot) as [Hcok Hnd].
  pose proof (R'_wf _ _ _ HR) as Rwf.
  destruct (step_refines _ _ _ _ Rwf Hops Hs) as [Hwf' _].
  destruct ds as [f size dcur dreg]. destruct s as [fb cur fl reg].
  destruct HR as [Rf Rreg Rcur Rsize Rinv Rsnaps Rdesc Rroots _].
  cbn [s_file d_cmpreg s_cmpreg d_cur s_cur d_file d_size s_flushed] in *. subst fb dreg.
  cbn [dstep d_file d_size d_cur d_cmpreg] in Hds.
  destruct (flush_bytes f size dcur) as [[f' size'] cs'] eqn:Hfl.
  inversion Hds; subst ds' r; clear Hds.
  cbn [d_file d_size d_cur] in *.
  cbn [step s_file] in Hs. inversion Hs; subst s' r'; clear Hs.
  assert (Hsz : 0 <= size <= blen f) by lia.
  destruct (flush_nodup_facts _ _ _ _ _ _ Hcok Hsz Hfl H63 Hnd) as (_ & G2 & G3).
  destruct (flush_post _ _ _ _ _ _ Hcok Hsz Hfl H63) as (Hpost & Hgrow).
  destruct (flush_root _ _ _ _ _ _ Hcok Hsz Hfl H63 H32) as (Hroot & Hag & Hbl).
  pose proof (coll_post_ecolls _ _ _ _ Hpost) as Hec.
  pose proof (coll_ok_inv _ _ _ G2 G3) as Rinv'.
  change roots_len with 44 in Hgrow.
  split; [reflexivity|].
  constructor; cbn [s_file d_cmpreg s_cmpreg d_cur s_cur d_file d_size s_flushed hd]; auto.
  - rewrite Hec. exact Rcur.
  - lia.
  - (* the snapshots *)
    constructor.
    + exists (tmap cs'). split; [rewrite <- root_map_locs; exact Hroot|]. split.
      * apply Forall_forall. intros nt Hin.
        unfold tmap in Hin. apply in_map_iff in Hin. destruct Hin as (nc' & <- & Hin).
        rewrite Forall_forall in Rinv'. destruct (Rinv' _ Hin) as [A B]. cbn [fst snd].
        split; [exact A|]. split; [|exact B].
        destruct (Forall2_in_r _ _ _ _ Hpost Hin) as (nc & _ & (_ & _ & P3 & _)). exact P3.
      * rewrite esnap_tmap. apply ecolls_ekeys. rewrite Hec. exact Rcur.
    + apply (snaps_stable f f'); auto. eapply agree_mono; [exact Hag|lia].
  - (* strictly decreasing *)
    split; [|exact Rdesc]. apply Forall_forall. intros x Hin.
    pose proof (ends_le _ _ Rdesc Hin). lia.
  - (* no other roots *)
    intros e He.
    destruct (Z.eq_dec e size') as [->|Hne]; [left; reflexivity|]. right.
    destruct (Z_le_gt_dec e size) as [Hlow|Hhigh].
    + eapply roots_agree; eauto.
    + exfalso. destruct (root_at f' e) as [m|] eqn:Hr; [clear He | congruence].
      pose proof (root_at_le_blen _ _ _ Hr) as Hle.
      destruct (Z_lt_ge_dec e size') as [Hlt|Hge].
      * rewrite (no_root_in_spec _ _ _ Hnr e) in Hr; [discriminate|]. lia.
      * rewrite (no_root_in_spec _ _ _ Hjunk e) in Hr; [discriminate|]. lia.
Qed.

(* ================================================================== *)
(* 5. The failed Flush: an error, and the abstract store is unchanged  *)

Theorem sim'_flushfail : forall ds s ends k torn ds' r,
  R' ds s ends -> fop_okb ds (hd 0 ends) (FFlushFail k torn) = true ->
  dfstep ds (FFlushFail k torn) = (ds', r) ->
  r = RErr /\ R' ds' s ends.
Proof.
  intros ds s ends k torn ds' r HR Hok Hds.
  pose proof (R'_size_nonneg _ _ _ HR) as Hlr0.
  unfold fop_okb in Hok. rewrite Hds in Hok. cbn [fst] in Hok.
  apply andb_prop in Hok. destruct Hok as [Hok Hnr]. apply andb_prop in Hok. destruct Hok as [Hok H63].
  apply andb_prop in Hok. destruct Hok as [Hk Htot].
  apply Nat.ltb_lt in Hk. apply Z.ltb_lt in H63.
  destruct (R'_coll_ok _ _ _ HR Htot) as [Hcok Hnd].
  destruct ds as [f size dcur dreg].
  destruct HR as [Rf Rreg Rcur Rsize Rinv Rsnaps Rdesc Rroots Rwf].
  cbn [d_cmpreg d_cur d_file d_size] in *.
  cbn [dstep d_file d_size d_cur d_cmpreg] in H63.
  destruct (flush_bytes f size dcur) as [[f' size'] cs'] eqn:Hfl. cbn [fst d_size] in H63.
  unfold dfstep in Hds. cbn [d_file d_size d_cur d_cmpreg] in Hds.
  destruct (flush_fault k torn f size dcur) as [[[f1 s1] cs1] b] eqn:E.
  pose proof (flush_fault_fails _ _ _ _ _ _ _ _ _ Hk E) as ->.
  inversion Hds; subst ds' r; clear Hds. cbn [d_file d_size d_cur] in *.
  assert (Hsz : 0 <= size <= blen f) by lia.
  destruct (flush_fault_durable _ _ _ _ _ _ _ _ _ Hsz E) as (Hag & Hs1).
  destruct (flush_fault_contents _ _ _ _ _ _ _ _ _ E) as (C1 & C2 & C3).
  destruct (flush_fault_inv _ _ _ _ _ _ _ _ _ _ _ Hsz Hcok Hnd E Hfl H63) as (_ & G2 & G3).
  split; [reflexivity|].
  constructor; cbn [d_cmpreg d_cur d_file d_size]; auto.
  - rewrite (contents_ecolls _ _ C1 C2 C3). exact Rcur.
  - lia.
  - apply coll_ok_inv; assumption.
  - apply (snaps_stable f f1); auto. eapply agree_mono; [exact Hag|lia].
  - intros e He.
    destruct (Z_le_gt_dec e (hd 0 ends)) as [Hlow|Hhigh].
    + eapply roots_agree; [exact Rroots|exact Hag| |exact He]. lia.
    + exfalso. destruct (root_at f1 e) as [m|] eqn:Hr; [clear He | congruence].
      pose proof (root_at_le_blen _ _ _ Hr) as Hle.
      rewrite (no_root_in_spec _ _ _ Hnr e) in Hr; [discriminate|]. lia.
Qed.

(* ================================================================== *)
(* 6. Re-open: the dirty tail and the junk are ignored, the store is clean again *)

Theorem sim'_reopen : forall ds s ends ds' r s' r',
  R' ds s ends -> fop_okb ds (hd 0 ends) (FOp OReopen) = true -> ops_ok (s_cmpreg s) [OReopen] ->
  dstep ds OReopen = (ds', r) -> step s OReopen = (s', r') ->
  r = r' /\ R' ds' s' ends /\ d_size ds' = hd 0 ends.
Proof.
  intros [f size dcur dreg] [fb cur fl reg] ends ds' r s' r' HR Hok Hops Hds Hs.
  pose proof (R'_wf _ _ _ HR) as Rwf.
  destruct (step_refines _ _ _ _ Rwf Hops Hs) as [Hwf' _].
  destruct HR as [Rf Rreg Rcur Rsize Rinv Rsnaps Rdesc Rroots _].
  cbn [s_file d_cmpreg s_cmpreg d_cur s_cur d_file d_size s_flushed] in *. subst fb dreg.
  cbn [fop_okb d_file] in Hok.
  cbn [dstep d_file d_size d_cur d_cmpreg] in Hds.
  cbn [step s_file s_flushed s_cmpreg] in Hs. unfold with_cur in Hs.
  cbn [s_file s_flushed s_cmpreg] in Hs. inversion Hs; subst s' r'; clear Hs.
  destruct ends as [|e rest].
  - (* never flushed: the file must be empty *)
    cbn [hd] in *. apply Forall2_nil_l in Rsnaps. subst fl.
    change (0 <? 0) with false in Hok. cbn [orb] in Hok.
    unfold decode_store in Hds. rewrite Hok in Hds.
    inversion Hds; subst ds' r; clear Hds. split; [reflexivity|]. split; [|reflexivity].
    apply Z.eqb_eq in Hok.
    constructor; cbn [s_file d_cmpreg s_cmpreg d_cur s_cur d_file d_size s_flushed hd]; auto.
    lia.
  - cbn [hd] in *.
    apply Forall2_cons_l in Rsnaps. destruct Rsnaps as (st & fl' & -> & [cs Hsnap] & Hrest).
    pose proof Hsnap as (Hroot & _ & _).
    pose proof (root_at_Some_gt _ _ _ Hroot) as Hgt. change roots_len with 44 in Hgt.
    assert (Hdec : decode_store f = OpOk e cs).
    { unfold decode_store.
      replace (blen f =? 0) with false by (symmetry; apply Z.eqb_neq; lia).
      assert (Hnone : forall e', e < e' <= blen f -> root_at f e' = None).
      { intros e' He'. destruct (root_at f e') eqn:Hr; [|reflexivity]. exfalso.
        assert (Hin : In e' (e :: rest)) by (apply Rroots; congruence).
        pose proof (ends_le _ _ Rdesc Hin) as Hle. cbn [hd] in Hle. lia. }
      rewrite (scan_complete f (blen f) e _ Hroot ltac:(lia) Hnone).
      rewrite (snap_load _ _ _ _ Hsnap) by lia. reflexivity. }
    rewrite Hdec in Hds. inversion Hds; subst ds' r; clear Hds. split; [reflexivity|].
    split; [|reflexivity].
    destruct (snap_cur _ _ _ _ reg Hsnap) as [Hc Hi].
    constructor; cbn [s_file d_cmpreg s_cmpreg d_cur s_cur d_file d_size s_flushed hd]; auto.
    + lia.
    + constructor; [exists cs; exact Hsnap | exact Hrest].
Qed.

(* ================================================================== *)
(* 7. FlushRevert, from a clean store (junk beyond the store size is allowed) *)

Theorem sim'_revert : forall ds s ends ds' r s' r',
  R' ds s ends -> fop_okb ds (hd 0 ends) (FOp ORevert) = true -> ops_ok (s_cmpreg s) [ORevert] ->
  dstep ds ORevert = (ds', r) -> step s ORevert = (s', r') ->
  r = r' /\ R' ds' s' (tl ends) /\ d_size ds' = hd 0 (tl ends).
Proof.
  intros [f size dcur dreg] [fb cur fl reg] ends ds' r s' r' HR Hok Hops Hds Hs.
  pose proof (R'_wf _ _ _ HR) as Rwf.
  destruct (step_refines _ _ _ _ Rwf Hops Hs) as [Hwf' _].
  destruct HR as [Rf Rreg Rcur Rsize Rinv Rsnaps Rdesc Rroots _].
  cbn [s_file d_cmpreg s_cmpreg d_cur s_cur d_file d_size s_flushed] in *. subst fb dreg.
  cbn [fop_okb d_size] in Hok. apply Z.eqb_eq in Hok.
  cbn [dstep d_file d_size d_cur d_cmpreg] in Hds.
  cbn [step s_file s_flushed s_cmpreg] in Hs. cbv zeta in Hs. inversion Hs; subst s' r'; clear Hs.
  destruct ends as [|e [|ep rest]]; cbn [hd tl] in *.
  - (* nothing was ever flushed *)
    subst size. apply Forall2_nil_l in Rsnaps. subst fl.
    rewrite revert_bytes_0 in Hds.
    cbn [load_all] in Hds. inversion Hds; subst ds' r; clear Hds. split; [reflexivity|].
    split; [|reflexivity].
    constructor; cbn [s_file d_cmpreg s_cmpreg d_cur s_cur d_file d_size s_flushed hd tl]; auto.
    + rewrite blen_nil. lia.
    + intros e' He'. rewrite root_at_nil in He'. congruence.
  - (* back to the empty store *)
    subst size. apply Forall2_cons_l in Rsnaps. destruct Rsnaps as (st & fl' & -> & [cs Hsnap] & Hrest).
    apply Forall2_nil_l in Hrest. subst fl'.
    pose proof Hsnap as (Hroot & _ & _).
    pose proof (root_at_Some_gt _ _ _ Hroot) as Hgt.
    rewrite (revert_to_empty f e) in Hds; [|intros e' He'|exact Hgt].
    2:{ destruct (root_at f e') eqn:Hr; [|reflexivity]. exfalso.
        assert (Hin : In e' [e]) by (apply Rroots; congruence). destruct Hin as [Heq|[]]. lia. }
    cbn [load_all] in Hds. inversion Hds; subst ds' r; clear Hds. split; [reflexivity|].
    split; [|reflexivity].
    constructor; cbn [s_file d_cmpreg s_cmpreg d_cur s_cur d_file d_size s_flushed hd tl]; auto.
    + rewrite blen_nil. lia.
    + intros e' He'. rewrite root_at_nil in He'. congruence.
  - (* back to the previous root *)
    subst size. apply Forall2_cons_l in Rsnaps. destruct Rsnaps as (st & fl' & -> & [cs Hsnap] & Hrest).
    apply Forall2_cons_l in Hrest. destruct Hrest as (stp & fl'' & -> & [csp Hsnapp] & Hrest').
    pose proof Hsnap as (Hroot & _ & _). pose proof Hsnapp as (Hrootp & _ & _).
    destruct Rdesc as [Hlt Rdesc']. pose proof (Forall_inv Hlt) as Hep. cbv beta in Hep.
    pose proof Rdesc' as [Hltp _].
    rewrite (revert_previous f e _ ep _ Hroot Hrootp Hep) in Hds.
    2:{ intros e' He'. destruct (root_at f e') eqn:Hr; [|reflexivity]. exfalso.
        assert (Hin : In e' (e :: ep :: rest)) by (apply Rroots; congruence).
        destruct Hin as [Heq|[Heq|Hin]]; [lia|lia|].
        rewrite Forall_forall in Hltp. specialize (Hltp _ Hin). lia. }
    set (f' := firstn (Z.to_nat ep) f) in *.
    destruct (revert_reopens f ep _ Hrootp) as [Hbl' _]. fold f' in Hbl'.
    pose proof (root_at_Some_gt _ _ _ Hrootp) as Hgtp. change roots_len with 44 in Hgtp.
    assert (Hag : agree f f' ep) by apply agree_firstn.
    pose proof (snap_stable _ _ _ _ _ Hsnapp Hag) as Hsnapp'.
    rewrite (snap_load _ _ _ _ Hsnapp') in Hds by lia.
    inversion Hds; subst ds' r; clear Hds. split; [reflexivity|]. split; [|reflexivity].
    destruct (snap_cur _ _ _ _ reg Hsnapp') as [Hc Hi].
    constructor; cbn [s_file d_cmpreg s_cmpreg d_cur s_cur d_file d_size s_flushed hd tl]; auto.
    + lia.
    + apply (snaps_stable f f'); auto. constructor; [exists csp; exact Hsnapp | exact Hrest'].
    + intros x Hx.
      destruct (root_at f' x) as [m|] eqn:Hr; [clear Hx | congruence].
      pose proof (root_at_le_blen _ _ _ Hr) as Hle. rewrite Hbl' in Hle.
      assert (Hin : In x (e :: ep :: rest)).
      { apply Rroots. rewrite <- (root_at_agree f f' x); [congruence|].
        eapply agree_mono; [exact Hag | exact Hle]. }
      destruct Hin as [Heq|Hin]; [lia | exact Hin].
Qed.

(* ================================================================== *)
(* 8. Whole histories                                                  *)

Lemma fop_okb_nondisk ds lr o : is_disk o = false -> fop_okb ds lr (FOp o) = op_okb0 ds o.
Proof. intro H. destruct o; try discriminate H; reflexivity. Qed.

(* a completed call: same answer; the list of root ends changes as in DStoreRefine, and the last
   root end threaded through the side condition is its head *)
Theorem sim'_step : forall ds s ends o ds' r s' r',
  R' ds s ends -> fop_okb ds (hd 0 ends) (FOp o) = true -> ops_ok (s_cmpreg s) [o] ->
  dstep ds o = (ds', r) -> step s o = (s', r') ->
  r = r' /\ R' ds' s' (next_ends o ds' ends) /\
  hd 0 (next_ends o ds' ends) = next_root (FOp o) ds' (hd 0 ends).
Proof.
  intros ds s ends o ds' r s' r' HR Hok Hops Hds Hs.
  destruct (is_disk o) eqn:Hd.
  - destruct o; try discriminate Hd; cbn [next_ends next_root].
    + destruct (sim'_flush _ _ _ _ _ _ _ HR Hok Hops Hds Hs) as [A B]. auto.
    + destruct (sim'_reopen _ _ _ _ _ _ _ HR Hok Hops Hds Hs) as (A & B & C). auto.
    + destruct (sim'_revert _ _ _ _ _ _ _ HR Hok Hops Hds Hs) as (A & B & C). auto.
  - assert (next_ends o ds' ends = ends) as -> by (destruct o; try discriminate Hd; reflexivity).
    assert (next_root (FOp o) ds' (hd 0 ends) = hd 0 ends) as ->
      by (destruct o; try discriminate Hd; reflexivity).
    rewrite (fop_okb_nondisk _ _ _ Hd) in Hok.
    destruct (sim'_nondisk ds s ends o ds' r s' r' Hd HR Hok Hops Hds Hs) as [A B]. auto.
Qed.

Theorem sim'_run : forall fops ds s ends,
  R' ds s ends -> ops_ok (s_cmpreg s) (strip fops) -> fhist_okb ds (hd 0 ends) fops = true ->
  map fst (completed fops (dfrun ds fops)) = run s (strip fops).
Proof.
  induction fops as [|o fops IH]; intros ds s ends HR Hops Hh; [reflexivity|].
  cbn [fhist_okb] in Hh. apply andb_prop in Hh. destruct Hh as [Hok Hh].
  destruct o as [o|k torn].
  - (* a completed call *)
    cbn [dfrun strip run dfstep] in *.
    destruct (dstep ds o) as [ds' r] eqn:Hds. destruct (step s o) as [s' r'] eqn:Hs.
    cbn [fst] in Hh. cbn [completed map fst].
    destruct (ops_ok_step _ _ _ _ _ Hops Hs) as [Hops1 Hops2].
    destruct (sim'_step _ _ _ _ _ _ _ _ HR Hok Hops1 Hds Hs) as (Er & HR' & Hhd).
    subst r'. f_equal. eapply IH; [exact HR'|exact Hops2|]. rewrite Hhd. exact Hh.
  - (* a failed attempt: skipped on both sides *)
    cbn [dfrun strip].
    destruct (dfstep ds (FFlushFail k torn)) as [ds' r] eqn:Hds.
    cbn [fst] in Hh. cbn [completed next_root] in *.
    destruct (sim'_flushfail _ _ _ _ _ _ _ HR Hok Hds) as [_ HR'].
    eapply IH; eauto.
Qed.

(* failed Flush calls anywhere in a history are invisible to every completed call *)
Theorem dfrun_refines_store_general : forall fops,
  ops_ok [] (strip fops) -> fhistory_ok fops ->
  map fst (completed fops (dfrun dinit fops)) = run (init true) (strip fops).
Proof.
  intros fops Hops Hh. apply (sim'_run fops dinit (init true) []); [apply R'_init|exact Hops|exact Hh].
Qed.
Print Assumptions dfrun_refines_store_general.

(* the failed attempts themselves answer with an error *)
Lemma fhist_faults_fire : forall fops ds lr, fhist_okb ds lr fops = true -> faults_fire ds fops.
Proof.
  induction fops as [|o fops IH]; intros ds lr Hh; [exact I|].
  cbn [fhist_okb] in Hh. apply andb_prop in Hh. destruct Hh as [Hok Hh].
  cbn [faults_fire]. split; [|eapply IH; exact Hh].
  destruct o as [o|k torn]; [exact I|].
  unfold fop_okb in Hok.
  apply andb_prop in Hok. destruct Hok as [Hok _]. apply andb_prop in Hok. destruct Hok as [Hok _].
  apply andb_prop in Hok. destruct Hok as [Hk _]. apply Nat.ltb_lt in Hk. exact Hk.
Qed.

Theorem failed_attempts_err_general : forall fops i k torn,
  fhistory_ok fops -> nth_error fops i = Some (FFlushFail k torn) ->
  exists f, nth_error (dfrun dinit fops) i = Some (RErr, f).
Proof.
  intros fops i k torn Hh Hn. eapply failed_attempts_err; [|exact Hn].
  eapply fhist_faults_fire. exact Hh.
Qed.
Print Assumptions failed_attempts_err_general.

(* ================================================================== *)
(* 9. Non-vacuity                                                      *)

(* a Flush fails at call 2 of 7 (the second item record, torn after 3 bytes: the first item has been
   written, Store.size = 20, file length 23, no root record yet); a Set and two Gets follow on the
   dirty store; only then a Flush completes (284 bytes).  Later a Flush fails at call 6 of 8 (a node
   record, torn after 30 bytes: size 438, length 468), a Get follows, the store is re-opened with
   that dirty tail (size 284 again, length still 468), and the next, shorter Flush (to 402) leaves
   junk beyond its root record; finally two FlushReverts, each from a clean store *)
Definition ex_gen : list fop :=
  [ FOp (OColl [97]%N 0);
    FOp (OSet [97]%N [107; 49]%N (Some [118; 49]%N) 5);
    FOp (OSet [97]%N [107; 50]%N (Some [118; 50; 0; 255]%N) 7);
    FFlushFail 2 3;
    FOp (OSet [97]%N [107; 51]%N (Some [118; 51]%N) 3);
    FOp (OGet [97]%N [107; 49]%N); FOp (OGet [97]%N [107; 51]%N);
    FOp OFlush;
    FOp (OSet [97]%N [107; 52]%N (Some [118; 52; 118; 52; 118; 52; 118; 52; 118; 52; 118; 52]%N) 9);
    FOp (OSet [97]%N [107; 53]%N (Some [118; 53]%N) 1);
    FFlushFail 6 30;
    FOp (OGet [97]%N [107; 52]%N);
    FOp OReopen;
    FOp (OGet [97]%N [107; 52]%N); FOp (OGet [97]%N [107; 51]%N);
    FOp (ODel [97]%N [107; 49]%N);
    FOp OFlush;
    FOp (OGet [97]%N [107; 49]%N);
    FOp ORevert;
    FOp (OGet [97]%N [107; 49]%N);
    FOp ORevert;
    FOp ONames ].

Example ex_gen_ok : fhistory_ok ex_gen.
Proof. vm_compute. reflexivity. Qed.

Example ex_gen_run :
  map fst (dfrun dinit ex_gen) =
  [ ROk; ROk; ROk; RErr; ROk; RVal (Some [118; 49]%N); RVal (Some [118; 51]%N); ROk;
    ROk; ROk; RErr; RVal (Some [118; 52; 118; 52; 118; 52; 118; 52; 118; 52; 118; 52]%N);
    ROk; RVal None; RVal (Some [118; 51]%N); RBool true; ROk; RVal None;
    ROk; RVal (Some [118; 49]%N); ROk; RNames [] ].
Proof. vm_compute. reflexivity. Qed.

(* the store really is dirty after the failed attempts, junk survives the re-open and the Flush
   after it: (d_size, file length) after each call *)
Definition sizes (fops : list fop) : list (Z * Z) :=
  (fix go (ds : dstore) (l : list fop) : list (Z * Z) :=
     match l with
     | [] => []
     | o :: l' => let ds' := fst (dfstep ds o) in (d_size ds', blen (d_file ds')) :: go ds' l'
     end) dinit fops.

Example ex_gen_sizes :
  sizes ex_gen =
  [ (0, 0); (0, 0); (0, 0); (20, 23); (20, 23); (20, 23); (20, 23); (284, 284); (284, 284);
    (284, 284); (438, 468); (438, 468); (284, 468); (284, 468); (284, 468); (284, 468);
    (402, 468); (402, 468); (284, 284); (284, 284); (0, 0); (0, 0) ].
Proof. vm_compute. reflexivity. Qed.

Example ex_general : exists fops, fhistory_ok fops /\ ops_ok [] (strip fops) /\
  (exists k t, In (FFlushFail k t) fops) /\
  ~ DFaultHist.retried fops.
Proof.
  exists ex_gen. split; [exact ex_gen_ok|]. split; [cbn; auto|]. split.
  - exists 2%nat, 3%nat. cbn. auto.
  - intro H. cbn in H. exact H.
Qed.
Print Assumptions ex_general.

Example ex_gen_refines :
  map fst (completed ex_gen (dfrun dinit ex_gen)) = run (init true) (strip ex_gen).
Proof. apply dfrun_refines_store_general; [cbn; auto|exact ex_gen_ok]. Qed.

(* ================================================================== *)
(* 10. The two extra side conditions cannot be dropped                 *)

(* re-opening after a failed FIRST Flush: the file is not empty and has no root record; the
   byte-level store (like NewStore) reports an error, the abstract store re-opens to the empty
   state.  The side condition fails exactly at the re-open. *)
Definition cex_reopen : list fop :=
  [ FOp (OColl [97]%N 0); FOp (OSet [97]%N [107; 49]%N (Some [118; 49]%N) 5);
    FFlushFail 0 3; FOp OReopen ].

Example failed_first_flush_reopen :
  ops_ok [] (strip cex_reopen) /\
  map fst (completed cex_reopen (dfrun dinit cex_reopen)) = [ROk; ROk; RErr] /\
  run (init true) (strip cex_reopen) = [ROk; ROk; ROk] /\
  fhist_okb dinit 0 (firstn 3 cex_reopen) = true /\ fhist_okb dinit 0 cex_reopen = false.
Proof. split; [cbn; auto|]. repeat split; vm_compute; reflexivity. Qed.

(* FlushRevert with a dirty tail (Store.size 295 beyond the last root end 275): the scan from
   size - 1 finds the LAST completed Flush, not the one before it; the abstract store walks back
   one Flush.  The side condition fails exactly at the FlushRevert. *)
Definition cex_revert : list fop :=
  [ FOp (OColl [97]%N 0); FOp (OSet [97]%N [107; 49]%N (Some [118; 49]%N) 5); FOp OFlush;
    FOp (OSet [97]%N [107; 50]%N (Some [118; 50]%N) 7); FOp OFlush;
    FOp (OSet [97]%N [107; 51]%N (Some [118; 51]%N) 3); FFlushFail 2 3;
    FOp ORevert; FOp (OGet [97]%N [107; 50]%N) ].

Example dirty_revert_excluded :
  ops_ok [] (strip cex_revert) /\
  map fst (completed cex_revert (dfrun dinit cex_revert)) =
    [ROk; ROk; ROk; ROk; ROk; ROk; ROk; RVal (Some [118; 50]%N)] /\
  run (init true) (strip cex_revert) = [ROk; ROk; ROk; ROk; ROk; ROk; ROk; RVal None] /\
  fhist_okb dinit 0 (firstn 7 cex_revert) = true /\ fhist_okb dinit 0 cex_revert = false.
Proof. split; [cbn; auto|]. repeat split; vm_compute; reflexivity. Qed.

Print Assumptions sim'_nondisk.
Print Assumptions sim'_flush.
Print Assumptions sim'_flushfail.
Print Assumptions sim'_reopen.
Print Assumptions sim'_revert.
Print Assumptions sim'_run.
Print Assumptions ex_gen_refines.
Print Assumptions failed_first_flush_reopen.
Print Assumptions dirty_revert_excluded.
