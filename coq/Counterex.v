(* Counterex.v — concrete counterexamples (by vm_compute) to the statements of
   STATEMENTS.md that had to be corrected in CodecProofs.v / DiskProofs.v. *)
From GK Require Import Base Treap TreapSpec Store Codec CodecProofs Disk DiskProofs.
From Coq Require Import Lia ZArith NArith List Bool.
Import ListNotations.
Open Scope Z_scope.

Ltac zle := vm_compute; let HH := fresh in intro HH; discriminate HH.
Ltac zlt := vm_compute; reflexivity.

(* ------------------------------------------------------------------ *)
(* I.5: entry_ok needs an upper bound on offsets/lengths (decimal has 40 digits). *)
Example json_cex :
  let m := [([97%N], Some (mkPloc (10 ^ 40) 1))] in
  (* the entry satisfies entry_ok as written in STATEMENTS.md ... *)
  (name_ok [97%N] /\ 0 <= 10 ^ 40 /\ 0 <= 1 /\ ~ (10 ^ 40 = 0 /\ 1 = 0)) /\
  (* ... but does not round-trip *)
  dec_json (enc_json m) = None.
Proof.
  split; [|vm_compute; reflexivity].
  split; [repeat constructor|]. split; [zle|]. split; [zle|]. intros [_ H]; discriminate H.
Qed.

(* ------------------------------------------------------------------ *)
(* II.6 (1): "every tree in cs is below e0" does not suffice for crash_same_trees:
   an item record whose header announces a value that extends beyond the item's
   ploc, the root record and e0.  f' is f0 truncated at e0. *)
Definition ov_V : Z := 127.
Definition ov_root : bytes := enc_root [([97%N], Some (mkPloc 17 52))] 69.
Definition ov_f0 : file :=
  (be 4 (16 + 1 + ov_V) ++ be 4 1 ++ be 4 ov_V ++ be 4 0) ++ [1%N] ++
  enc_node (Some (mkPloc 0 16)) None None 1 (1 + ov_V) ++ ov_root ++ repeat 0%N 10.
Definition ov_f' : file := firstn (Z.to_nat 134) ov_f0.
Definition ov_m0 : list (bytes * option ploc) := [([97%N], Some (mkPloc 17 52))].
Definition ov_cs : list (bytes * tree) :=
  match load_all ov_f0 ov_m0 134 with Some cs => cs | None => [] end.

Example crash_cex_overrun :
  scan ov_f0 (blen ov_f0) = ScanFound 134 ov_m0 /\ agree ov_f0 ov_f' 134 /\ 134 <= blen ov_f' /\
  (forall e', 134 < e' <= blen ov_f' -> root_at ov_f' e' = None) /\
  load_all ov_f0 ov_m0 134 = Some ov_cs /\
  Forall (fun nt => below (snd nt) 134) ov_cs /\
  load_all ov_f' ov_m0 134 = None /\
  decode_store ov_f0 <> decode_store ov_f'.
Proof.
  split; [vm_compute; reflexivity|]. split; [apply agree_firstn|]. split; [zle|].
  split; [intros e' He'; assert (E : blen ov_f' = 134) by (vm_compute; reflexivity); lia|].
  split; [vm_compute; reflexivity|].
  split; [vm_compute; repeat constructor; let HH := fresh in intro HH; discriminate HH|].
  split; [vm_compute; reflexivity|]. vm_compute. let HH := fresh in intro HH; discriminate HH.
Qed.

(* ------------------------------------------------------------------ *)
(* A file whose node records form a DAG: node k has node k-1 as BOTH children.
   The tree it represents has 2^(k+1) - 1 nodes but the file only 18 + 52 (k+1) bytes. *)
Definition dag_item : item := mkItem [1%N] [2%N] 0.
Definition dag_iloc : ploc := mkPloc 0 18.
Definition dag_loc (k : nat) : ploc := mkPloc (18 + 52 * Z.of_nat k) 52.
Fixpoint dag_nodes (k : nat) : bytes :=
  match k with
  | O => enc_node (Some dag_iloc) None None 1 2
  | S j => dag_nodes j ++ enc_node (Some dag_iloc) (Some (dag_loc j)) (Some (dag_loc j)) 1 2
  end.
Fixpoint dag_tree (k : nat) : tree :=
  match k with
  | O => T (Some (dag_loc 0)) E (Some dag_iloc) dag_item 1 2 E
  | S j => T (Some (dag_loc (S j))) (dag_tree j) (Some dag_iloc) dag_item 1 2 (dag_tree j)
  end.
Definition dag_file (k : nat) : file := enc_item dag_item ++ dag_nodes k.

Lemma dag_item_ok : item_ok dag_item.
Proof.
  unfold item_ok. change (item_loc_len dag_item) with 18. rewrite two32_eq, two31_eq.
  cbn [dag_item ikey ival iprio]. repeat split; try reflexivity; lia.
Qed.

Lemma dag_tree_ok k : tree_ok (dag_tree k).
Proof.
  change (2 ^ 64) with 18446744073709551616.
  induction k as [|k IH]; cbn [dag_tree tree_ok];
    (split; [apply dag_item_ok|]); (split; [lia|]); (split; [lia|]); split; auto.
Qed.

Definition dag_f : file := dag_file 9.           (* 538 bytes *)
Definition dag_t : tree := dag_tree 9.           (* 1023 nodes *)

Lemma dag_rep : rep dag_f dag_t /\ below dag_t 538 /\ persisted dag_t.
Proof.
  assert (H : load 20 dag_f (Some (dag_loc 9)) 538 5000 = Some (dag_t, 3977%nat))
    by (vm_compute; reflexivity).
  assert (L : locs_b dag_t = true) by (vm_compute; reflexivity).
  destruct (load_sound _ _ _ _ _ _ _ H L). split; [assumption|]. split; [assumption|].
  eapply load_persisted; eauto.
Qed.

(* II.7: flush_decodes is false without a bound on the number of nodes
   (all the other hypotheses hold; nothing is dirty, only the root record is written). *)
Definition dag_cs : colls := [([97%N], mkColl 0 dag_t)].
Definition dag_fl := flush_bytes dag_f 538 dag_cs.

Example flush_cex_budget :
  let f' := fst (fst dag_fl) in let size' := snd (fst dag_fl) in let cs' := snd dag_fl in
  Forall (coll_ok dag_f 538) dag_cs /\ 0 <= 538 <= blen dag_f /\
  flush_bytes dag_f 538 dag_cs = (f', size', cs') /\
  size' < two63 /\ roots_len + blen (enc_json (root_map cs')) < two32 /\ blen f' = size' /\
  blen dag_f = 538 /\
  decode_store f' = OpBad.
Proof.
  cbv zeta. split.
  { constructor; [|constructor]. unfold coll_ok. cbn [fst snd c_tree].
    destruct dag_rep as (R & B & _). split; [repeat constructor|]. split; [exact R|].
    split; [exact B|apply dag_tree_ok]. }
  split; [split; zle|]. split; [fold dag_fl; now destruct dag_fl as [[? ?] ?]|].
  split; [zlt|]. split; [zlt|]. split; [vm_compute; reflexivity|].
  split; vm_compute; reflexivity.
Qed.

(* II.6 (2): crash_same_trees needs the node budget of the NEW file: f0 has 600 bytes of
   junk after its last root, so its budget suffices for the 1023 nodes; f' (f0 truncated
   at e0 = 604) has a budget of 605 only. *)
Definition bg_m0 : list (bytes * option ploc) := [([97%N], Some (dag_loc 9))].
Definition bg_f0 : file := dag_f ++ enc_root bg_m0 538 ++ repeat 0%N 600.
Definition bg_f' : file := firstn (Z.to_nat 604) bg_f0.
Definition bg_cs : list (bytes * tree) := [([97%N], dag_t)].

Example crash_cex_budget :
  scan bg_f0 (blen bg_f0) = ScanFound 604 bg_m0 /\ agree bg_f0 bg_f' 604 /\ 604 <= blen bg_f' /\
  (forall e', 604 < e' <= blen bg_f' -> root_at bg_f' e' = None) /\
  load_all bg_f0 bg_m0 604 = Some bg_cs /\
  Forall (fun nt => rep bg_f0 (snd nt) /\ below (snd nt) 604) bg_cs /\
  load_all bg_f' bg_m0 604 = None.
Proof.
  split; [vm_compute; reflexivity|]. split; [apply agree_firstn|]. split; [zle|].
  split; [intros e' He'; assert (E : blen bg_f' = 604) by (vm_compute; reflexivity); lia|].
  split; [vm_compute; reflexivity|].
  split; [|vm_compute; reflexivity].
  constructor; [|constructor]. cbn [snd].
  assert (H : load 20 bg_f0 (Some (dag_loc 9)) 604 5000 = Some (dag_t, 3977%nat))
    by (vm_compute; reflexivity).
  assert (L : locs_b dag_t = true) by (vm_compute; reflexivity).
  exact (load_sound _ _ _ _ _ _ _ H L).
Qed.
