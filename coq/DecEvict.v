(* DecEvict.v — part of the decision theorems (see DecBase.v): what a visit does with the items of the nodes it leaves.
   Regenerated from the Go source on every run. *)
From GK Require Import Base Treap Codec Blocks GExpr Generated DecBase.
From Coq Require Import ZArith NArith List String Bool Lia.
Import ListNotations.
Open Scope string_scope.
Open Scope list_scope.
Open Scope Z_scope.

(* a visit drops the cached item of every node it leaves, WHOLE (the node forgets the item; the item itself, which other
   versions' nodes may share, is not modified) and gives back the node's reference on it; node.Evict is that step *)
Theorem visit_evicts_whole_items :
  In "func(evictNode *node) {  if i := evictNode.Evict(); i != nil {   o.ItemDecRef(t, i)  } }" (calls 400 (body "Store.visitNodes")) /\
  (exists c, hd_error (conds 400 (body "Store.visitNodes")) = Some c) /\
  count_occ string_dec (calls 400 (body "Store.visitNodes")) "nNode.Evict" = 0%nat /\
  List.length (List.filter (has_sub "Evict") (calls 400 (body "Store.visitNodes"))) = 1%nat.
Proof. repeat split; try (vm_compute; reflexivity); [in_tac | eexists; vm_compute; reflexivity]. Qed.

(* node.Evict: only an item that is on file can be dropped (its location is known); the node's slot is cleared with a
   compare-and-swap, the item is returned to the caller for release *)
Theorem node_evict_is_whole :
  body "node.Evict" =
    [SIf [] (GUn "!" (GCall "n.item.Loc().isEmpty" []))
       [SAssign [GVar "i"] ":=" [GCall "n.item.Item" []];
        SIf [] (GBin "&&" (GBin "!=" (GVar "i") GNil) (GCall "n.item.casItem" [GVar "i"; GNil]))
          [SReturn [GVar "i"]] []] [];
     SReturn [GNil]].
Proof. vm_compute. reflexivity. Qed.
