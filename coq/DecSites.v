(* DecSites.v — part of the decision theorems (see DecBase.v): WHERE the source touches the file and Store.size.
   Regenerated from the Go source on every run. *)
From GK Require Import Base Treap Codec Blocks GExpr Generated DecBase.
From Coq Require Import ZArith NArith List String Bool Lia.
Import ListNotations.
Open Scope string_scope.
Open Scope list_scope.
Open Scope Z_scope.

(* the functions of the package (and their function literals) whose body contains a call whose name contains sub *)
Definition sites (sub : string) : list string :=
  map fst (filter (fun nb => existsb (has_sub sub) (calls 400 (snd nb))) g_code).

(* the file is truncated in exactly one function, FlushRevert (C09: never by Flush, Close, Snapshot, open, ...);
   it is written in exactly four: the item record (header+key in itemLoc.write, the value through ItemValWrite), the node
   record, the root record; it is read only by the two record readers, the value reader and the root scan; its length is
   asked for only when a store is opened *)
Theorem file_call_sites :
  sites "Truncate" = ["Store.FlushRevert"] /\
  sites "WriteAt" = ["Store.ItemValWrite"; "Store.writeRoots"; "itemLoc.write"; "nodeLoc.write"] /\
  sites "ReadAt" = ["Store.ItemValRead"; "Store.checkAndReadRoots"; "Store.scanBackwardsForMagicEnd"; "itemLoc.read"; "nodeLoc.read"] /\
  sites "Stat" = ["Store.readRoots"].
Proof. repeat split; vm_compute; reflexivity. Qed.

(* Store.size is stored or moved only by the three record writers (after their WriteAt, see DecWrite), by the root scan
   while opening or reverting, and by FlushRevert's step below the current root: in particular never by Flush itself,
   also not on its error paths (C07: a failed Flush leaves size where the completed records end) *)
Theorem size_update_sites :
  sites "atomic.StoreInt64" = ["Store.readRoots"; "Store.scanBackwardsForMagicEnd"; "Store.setSize"; "Store.writeRoots"; "itemLoc.write"] /\
  sites "atomic.AddInt64" = ["Store.FlushRevert"; "Store.readRootsScan"; "Store.scanBackwardsForMagicEnd"] /\
  sites "setSize" = ["nodeLoc.write"].
Proof. repeat split; vm_compute; reflexivity. Qed.

(* direct assignments (x.size = ..., x.size++) to a size field, anywhere in a body *)
Fixpoint assigned (fuel : nat) (ss : list gstmt) : list string :=
  match fuel with
  | O => []
  | S k =>
    match ss with
    | [] => []
    | s :: rest =>
      (match s with
       | SAssign lhs _ _ => map gshow lhs
       | SIncDec x _ => [gshow x]
       | SIf init _ thn els => assigned k init ++ assigned k thn ++ assigned k els
       | SFor init _ post body => assigned k init ++ assigned k post ++ assigned k body
       | SRange _ _ _ body => assigned k body
       | SBlock b => assigned k b
       | SSwitch init _ cases => assigned k init ++ flat_map (fun cs => assigned k (snd cs)) cases
       | _ => []
       end) ++ assigned k rest
    end
  end.

Definition ends_with (suf s : string) : bool :=
  let n := String.length s in let m := String.length suf in
  Nat.leb m n && String.eqb (substring (n - m) m s) suf.

(* no function assigns a size field directly: Store.size is only ever accessed through sync/atomic and setSize *)
Theorem no_direct_size_assignment :
  filter (fun nb => existsb (ends_with ".size") (assigned 400 (snd nb))) g_code = [].
Proof. vm_compute. reflexivity. Qed.
