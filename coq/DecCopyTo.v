(* DecCopyTo.v — part of the decision theorems (see DecBase.v): each file serves a few properties, so that a change of
   the source breaks only the theorems -- and the properties -- it concerns. *)
From GK Require Import Base Treap Codec Blocks GExpr Generated DecBase.
From Coq Require Import ZArith NArith List String Bool Lia.
Import ListNotations.
Open Scope string_scope.
Open Scope list_scope.
Open Scope Z_scope.

Local Arguments Z.gtb : simpl never.
Local Arguments Z.ltb : simpl never.
Local Arguments Z.leb : simpl never.
Local Arguments Z.geb : simpl never.
Local Arguments Z.eqb : simpl never.
Local Arguments Z.quot : simpl never.
Local Arguments Z.rem : simpl never.
Local Arguments Z.add : simpl never.
Local Arguments Z.sub : simpl never.
Local Arguments Z.of_nat : simpl never.

(* 13. CopyTo flushes after every flushEvery-th item (and never when flushEvery <= 0) *)
Theorem copyto_flush_schedule :
  exists c, decisions "<lit:Store.CopyTo#1>" "flushEvery" = [c] /\
    forall fe n : Z, 0 <= n ->
      gtrue (upd (upd env0 "flushEvery" fe) "numItems" n) c = Some ((fe >? 0) && (n mod fe =? 0)).
Proof.
  eexists. split; [vm_compute; reflexivity|]. intros fe n Hn. unfold gtrue. cbn.
  destruct (fe >? 0) eqn:E.
  - assert (Hfe : 0 < fe) by (apply Z.gtb_lt in E; exact E).
    assert ((fe =? 0) = false) as -> by (apply Z.eqb_neq; lia).
    rewrite Z.rem_mod_nonneg by lia. cbn. destruct (n mod fe =? 0); reflexivity.
  - reflexivity.
Qed.

(* CopyTo: one SetCollection per source collection with the source's comparator, a closing Flush guarded only by
   flushEvery > 0 *)
Theorem copyto_structure :
  In (GBin ">" (GVar "flushEvery") (GInt 0)) (conds 400 (body "Store.CopyTo")) /\
  before "dstStore.SetCollection" "srcColl.VisitItemsAscendEx" (call_list "Store.CopyTo") = true /\
  before "srcColl.VisitItemsAscendEx" "dstStore.Flush" (call_list "Store.CopyTo") = true /\
  In (SAssign [GVar "dstColl"] ":=" [GCall "dstStore.SetCollection" [GVar "name"; GVar "srcColl.compare"]])
     (match nth_error (body "Store.CopyTo") 4 with Some (SRange _ _ _ b) => b | _ => [] end).
Proof. repeat split; vm_compute; auto 10. Qed.

