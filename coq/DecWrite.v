(* DecWrite.v — part of the decision theorems (see DecBase.v): each file serves a few properties, so that a change of
   the source breaks only the theorems -- and the properties -- it concerns. *)
From GK Require Import Base Treap Codec Blocks GExpr Generated DecBase.
From Coq Require Import ZArith NArith List String Bool Lia.
Import ListNotations.
Open Scope string_scope.
Open Scope list_scope.
Open Scope Z_scope.

Local Arguments Z.gtb : simpl never.
Local Arguments Z.ltb : simpl never.
Local Arguments Z.leb : simpl never.
Local Arguments Z.geb : simpl never.
Local Arguments Z.eqb : simpl never.
Local Arguments Z.quot : simpl never.
Local Arguments Z.rem : simpl never.
Local Arguments Z.add : simpl never.
Local Arguments Z.sub : simpl never.
Local Arguments Z.of_nat : simpl never.

(* 12. Flush writes only what is not yet persisted (Disk.write_items / write_nodes skip T (Some p); an item with a
   location is not written again: DiskFault's retry theorem rests on this) *)
Theorem write_skips_persisted :
  exists c1 c2, decisions "Collection.writeItems" "nloc" = [c1] /\ decisions "Collection.writeNodes" "nloc" = [c2] /\
    forall isnil persisted : bool,
      let rho := upd (upd env0 "nloc" (b2z (negb isnil))) "nloc.Loc().isEmpty()" (b2z (negb persisted)) in
      gtrue rho c1 = Some (isnil || persisted) /\ gtrue rho c2 = Some (isnil || persisted).
Proof. do 2 eexists. split; [vm_compute; reflexivity|]. split; [vm_compute; reflexivity|]. intros [|] [|]; split; reflexivity. Qed.

Theorem item_written_once :
  exists c, hd_error (conds 400 (body "itemLoc.write")) = Some c /\
    forall empty : bool, gtrue (upd env0 "iloc.Loc().isEmpty()" (b2z empty)) c = Some empty.
Proof. eexists. split; [vm_compute; reflexivity|]. intros [|]; reflexivity. Qed.

Theorem node_written_once :
  exists c, hd_error (conds 400 (body "nodeLoc.write")) = Some c /\
    forall notnil empty : bool, gtrue (upd (upd env0 "nloc" (b2z notnil)) "loc.isEmpty()" (b2z empty)) c = Some (notnil && empty).
Proof. eexists. split; [vm_compute; reflexivity|]. intros [|] [|]; reflexivity. Qed.

(* itemLoc.write: the before-write hook runs first, THEN the offset is taken, the header+key are written, the value is
   written, and only then Store.size advances and the location is recorded (DiskFault.write_item_f) *)
Theorem item_write_order :
  let l := call_list "itemLoc.write" in
  before "c.store.callbacks.BeforeItemWrite" "atomic.LoadInt64" l = true /\
  before "atomic.LoadInt64" "c.store.file.WriteAt" l = true /\
  before "c.store.file.WriteAt" "c.store.ItemValWrite" l = true /\
  before "c.store.ItemValWrite" "atomic.StoreInt64" l = true /\
  before "atomic.StoreInt64" "iloc.setLoc" l = true /\
  before "iItem.NumValBytes" "c.store.file.WriteAt" l = true /\
  before "c.store.callbacks.BeforeItemWrite" "iItem.NumValBytes" l = true.
Proof. repeat split; vm_compute; reflexivity. Qed.

(* nodeLoc.write: offset, WriteAt, then size, then the location (DiskFault.write_nodes_f) *)
Theorem node_write_order :
  let l := call_list "nodeLoc.write" in
  before "o.getSize" "o.file.WriteAt" l = true /\
  before "o.file.WriteAt" "o.setSize" l = true /\
  before "o.setSize" "nloc.setLoc" l = true.
Proof. repeat split; vm_compute; reflexivity. Qed.

