(* DSnapshot.v — why snapshots stay readable: the file only grows.

   gkvlite's Snapshot() is a read-only store sharing the file with the original; it holds the
   trees the original had at that moment and loads their records lazily from the file.  That is
   safe because the original only ever APPENDS (Flush); FlushRevert on the original truncates,
   and a later Flush overwrites the records the snapshot still refers to.

     S1  step_appends             one step other than FlushRevert changes nothing below the store
                                  size and never moves it backwards
     S2  snapshot_stays_readable  along a history, the trees held after step i are represented
                                  by the file after any later step j, if no FlushRevert between
     S3  snapshot_loads_same      ... and load from the later file returns exactly those trees
     S4  revert_breaks_snapshots  with a FlushRevert in between it fails (concrete history)     *)
From GK Require Import Base Treap Store StoreSpec StoreRefine Codec CodecProofs Disk DiskProofs DStore DStoreRefine.
From GK Require Import Lazy LazyProofs.
From Coq Require Import Lia ZArith NArith List Bool.
Import ListNotations.
Open Scope Z_scope.

(* the byte-level states along a history *)
Fixpoint dstates (s : dstore) (ops : list op) : list dstore :=
  match ops with
  | [] => []
  | o :: ops' => let s' := fst (dstep s o) in s' :: dstates s' ops'
  end.

(* what a snapshot taken in state s holds: the current trees, to be read from the file below
   the size at that moment *)
Definition readable (f : file) (snap : dstore) : Prop :=
  Forall (fun nc => rep f (c_tree (snd nc)) /\ below (c_tree (snd nc)) (d_size snap)) (d_cur snap).

Definition is_revert (o : op) : bool := match o with ORevert => true | _ => false end.

(* ================================================================== *)
(* S1. One step                                                        *)

(* Flush: the preconditions of DiskProofs.flush_decodes_nodup follow from R (as in sim_flush) *)
Lemma flush_appends : forall ds s ends ds' r,
  R ds s ends -> op_okb ds OFlush = true -> dstep ds OFlush = (ds', r) ->
  agree (d_file ds) (d_file ds') (d_size ds) /\ d_size ds <= d_size ds'.
Proof.
  intros [f size dcur dreg] [fb cur fl reg] ends ds' r HR Hok Hds.
  destruct HR as [Rf Rreg Rcur Rlen Rsize Rinv Rsnaps Rdesc Rroots Rwf].
  cbn [s_file d_cmpreg s_cmpreg d_cur s_cur d_file d_size s_flushed] in *. subst fb dreg.
  unfold op_okb, op_okb0, roots_okb in Hok. cbn [dstep d_file d_size d_cur d_cmpreg] in Hds, Hok.
  destruct (flush_bytes f size dcur) as [[f' size'] cs'] eqn:Hfl.
  cbn [fst d_size d_cur d_file] in Hok.
  inversion Hds; subst ds' r; clear Hds. cbn [d_file d_size].
  apply andb_prop in Hok. destruct Hok as [Hok Hnr]. apply andb_prop in Hok. destruct Hok as [Hok H32].
  apply andb_prop in Hok. destruct Hok as [Htot H63].
  apply Z.ltb_lt in H63, H32.
  pose proof (blen_nonneg f) as Hf0.
  assert (Hsz : 0 <= size <= blen f) by lia.
  assert (Hcok : Forall (coll_ok f size) dcur).
  { apply Forall_forall. intros [n c] Hin.
    rewrite Forall_forall in Rinv. destruct (Rinv _ Hin) as (Hn & Hrep & Hbel & Hit & Hnd).
    cbn [fst snd] in *. unfold coll_ok. cbn [fst snd]. repeat split; auto.
    unfold totals_okb in Htot. rewrite forallb_forall in Htot. specialize (Htot _ Hin).
    cbn [snd] in Htot. apply andb_prop in Htot. destruct Htot as [T1 T2]. apply Z.ltb_lt in T1, T2.
    apply aggs_tree_ok; auto.
    eapply dcur_aggs; [exact Rcur | exact (proj1 Rwf) | exact Hin]. }
  assert (Hnd : Forall (fun nc => NoDup (node_offs (c_tree (snd nc)))) dcur).
  { eapply Forall_impl; [|exact Rinv]. intros nc (_ & _ & _ & _ & H). exact H. }
  pose proof (flush_no_junk _ _ _ _ _ _ Hcok Hsz Hfl H63 Rlen) as Hbl.
  destruct (flush_decodes_nodup _ _ _ _ _ _ Hcok Hsz Hfl H63 H32 Hbl Hnd) as (_ & _ & D3 & _ & _).
  destruct (flush_post _ _ _ _ _ _ Hcok Hsz Hfl H63) as (_ & Hgrow).
  split; [exact D3|]. change roots_len with 44 in Hgrow. lia.
Qed.

Lemma reopen_file : forall ds ds' r, dstep ds OReopen = (ds', r) -> d_file ds' = d_file ds.
Proof.
  intros ds ds' r H. cbn [dstep] in H.
  destruct (decode_store (d_file ds)); inversion H; subst; reflexivity.
Qed.

Theorem step_appends : forall ds s ends o ds' r,
  R ds s ends -> op_okb ds o = true -> ops_ok (s_cmpreg s) [o] -> is_revert o = false ->
  dstep ds o = (ds', r) ->
  agree (d_file ds) (d_file ds') (d_size ds) /\ d_size ds <= d_size ds'.
Proof.
  intros ds s ends o ds' r HR Hok Hops Hrev Hds.
  destruct (is_disk o) eqn:Hd.
  - destruct o; try discriminate Hd; try discriminate Hrev.
    + eapply flush_appends; eauto.
    + destruct (step s OReopen) as [s' r'] eqn:Hs.
      destruct (sim_reopen _ _ _ _ _ _ _ HR Hops Hds Hs) as [_ HR'].
      rewrite (reopen_file _ _ _ Hds), (R_size _ _ _ HR'), (R_size _ _ _ HR).
      split; [apply agree_refl | lia].
  - rewrite (dstep_nondisk _ _ Hd) in Hds.
    destruct (step (mkStore true (d_cur ds) [] (d_cmpreg ds)) o) as [s1 r1].
    inversion Hds; subst ds' r. cbn [d_file d_size]. split; [apply agree_refl | lia].
Qed.
Print Assumptions step_appends.

(* ================================================================== *)
(* S2. Whole histories                                                 *)

(* under R, the current trees are represented by the file, below the store size *)
Lemma R_readable : forall ds s ends, R ds s ends -> readable (d_file ds) ds.
Proof.
  intros ds s ends HR. unfold readable.
  eapply Forall_impl; [|exact (R_inv _ _ _ HR)].
  intros nc (_ & H1 & H2 & _). split; assumption.
Qed.

Lemma readable_stable : forall f f' snap,
  readable f snap -> agree f f' (d_size snap) -> readable f' snap.
Proof.
  unfold readable. intros f f' snap H Ha. eapply Forall_impl; [|exact H].
  intros nc [H1 H2]. split; [eapply rep_stable; eauto | exact H2].
Qed.

(* a run without FlushRevert only appends *)
Lemma run_appends : forall ops ds s ends k sj,
  R ds s ends -> ops_ok (s_cmpreg s) ops -> dhist_ok ds ops = true ->
  nth_error (dstates ds ops) k = Some sj ->
  forallb (fun o => negb (is_revert o)) (firstn (S k) ops) = true ->
  agree (d_file ds) (d_file sj) (d_size ds) /\ d_size ds <= d_size sj.
Proof.
  induction ops as [|o ops IH]; intros ds s ends k sj HR Hops Hh Hn Hf.
  - destruct k; discriminate Hn.
  - cbn [dhist_ok] in Hh. apply andb_prop in Hh. destruct Hh as [Hok Hh].
    cbn [firstn forallb] in Hf. apply andb_prop in Hf. destruct Hf as [Hr Hf].
    apply negb_true_iff in Hr.
    cbn [dstates] in Hn.
    destruct (dstep ds o) as [ds' r] eqn:Hds. destruct (step s o) as [s' r'] eqn:Hs.
    cbn [fst] in Hh, Hn.
    destruct (ops_ok_step _ _ _ _ _ Hops Hs) as [Hops1 Hops2].
    destruct (sim_step _ _ _ _ _ _ _ _ HR Hok Hops1 Hds Hs) as [_ HR'].
    destruct (step_appends _ _ _ _ _ _ HR Hok Hops1 Hr Hds) as [A1 A2].
    destruct k as [|k]; cbn [nth_error] in Hn.
    + inversion Hn; subst sj. auto.
    + destruct (IH _ _ _ _ _ HR' Hops2 Hh Hn Hf) as [B1 B2].
      split; [eapply agree_trans; eauto | lia].
Qed.

(* generalised over the start state *)
Lemma snapshot_gen : forall ops ds s ends i j si sj,
  R ds s ends -> ops_ok (s_cmpreg s) ops -> dhist_ok ds ops = true -> (i <= j)%nat ->
  nth_error (dstates ds ops) i = Some si -> nth_error (dstates ds ops) j = Some sj ->
  forallb (fun o => negb (is_revert o)) (firstn (j - i) (skipn (S i) ops)) = true ->
  readable (d_file si) si /\ agree (d_file si) (d_file sj) (d_size si) /\ d_size si <= d_size sj.
Proof.
  induction ops as [|o ops IH]; intros ds s ends i j si sj HR Hops Hh Hij Hi Hj Hf.
  - destruct i; discriminate Hi.
  - cbn [dhist_ok] in Hh. apply andb_prop in Hh. destruct Hh as [Hok Hh].
    cbn [dstates] in Hi, Hj.
    destruct (dstep ds o) as [ds' r] eqn:Hds. destruct (step s o) as [s' r'] eqn:Hs.
    cbn [fst] in Hh, Hi, Hj.
    destruct (ops_ok_step _ _ _ _ _ Hops Hs) as [Hops1 Hops2].
    destruct (sim_step _ _ _ _ _ _ _ _ HR Hok Hops1 Hds Hs) as [_ HR'].
    destruct i as [|i].
    + cbn [nth_error] in Hi. inversion Hi; subst si.
      split; [eapply R_readable; exact HR'|].
      destruct j as [|j]; cbn [nth_error] in Hj.
      * inversion Hj; subst sj. split; [apply agree_refl | lia].
      * cbn [skipn] in Hf. replace (S j - 0)%nat with (S j) in Hf by lia.
        eapply run_appends; eauto.
    + destruct j as [|j]; [lia|]. cbn [nth_error] in Hi, Hj.
      cbn [skipn Nat.sub] in Hf.
      apply (IH _ _ _ i j si sj HR' Hops2 Hh); auto. lia.
Qed.

Theorem snapshot_stays_readable : forall ops i j si sj,
  ops_ok [] ops -> history_ok ops ->
  (i <= j)%nat ->
  nth_error (dstates dinit ops) i = Some si -> nth_error (dstates dinit ops) j = Some sj ->
  forallb (fun o => negb (is_revert o)) (firstn (j - i) (skipn (S i) ops)) = true ->
  readable (d_file si) si /\ readable (d_file sj) si.
Proof.
  intros ops i j si sj Hops Hh Hij Hi Hj Hf.
  destruct (snapshot_gen ops dinit (init true) [] i j si sj R_init Hops Hh Hij Hi Hj Hf)
    as (H1 & H2 & _).
  split; [exact H1 | eapply readable_stable; eauto].
Qed.
Print Assumptions snapshot_stays_readable.

(* also: the store size never moves backwards over such a stretch *)
Corollary snapshot_size_le : forall ops i j si sj,
  ops_ok [] ops -> history_ok ops -> (i <= j)%nat ->
  nth_error (dstates dinit ops) i = Some si -> nth_error (dstates dinit ops) j = Some sj ->
  forallb (fun o => negb (is_revert o)) (firstn (j - i) (skipn (S i) ops)) = true ->
  agree (d_file si) (d_file sj) (d_size si) /\ d_size si <= d_size sj.
Proof.
  intros ops i j si sj Hops Hh Hij Hi Hj Hf.
  destruct (snapshot_gen ops dinit (init true) [] i j si sj R_init Hops Hh Hij Hi Hj Hf)
    as (_ & H2 & H3). auto.
Qed.

(* ================================================================== *)
(* S3. Loading from the later file returns exactly the snapshot's tree *)

Theorem snapshot_loads_same : forall ops i j si sj nc,
  ops_ok [] ops -> history_ok ops -> (i <= j)%nat ->
  nth_error (dstates dinit ops) i = Some si -> nth_error (dstates dinit ops) j = Some sj ->
  forallb (fun o => negb (is_revert o)) (firstn (j - i) (skipn (S i) ops)) = true ->
  In nc (d_cur si) -> persisted (c_tree (snd nc)) ->
  (Treap.size (c_tree (snd nc)) <= S (length (d_file sj)))%nat ->
  load (S (length (d_file sj))) (d_file sj) (root_loc (c_tree (snd nc))) (d_size si) (S (length (d_file sj)))
  = Some (c_tree (snd nc), (S (length (d_file sj)) - Treap.size (c_tree (snd nc)))%nat).
Proof.
  intros ops i j si sj nc Hops Hh Hij Hi Hj Hf Hin Hp Hsz.
  destruct (snapshot_stays_readable ops i j si sj Hops Hh Hij Hi Hj Hf) as [_ H].
  unfold readable in H. rewrite Forall_forall in H. destruct (H _ Hin) as [Hrep Hbel].
  apply load_rep; auto.
  pose proof (rep_height_le_file _ _ Hrep Hp). lia.
Qed.
Print Assumptions snapshot_loads_same.

(* ================================================================== *)
(* S4. FlushRevert is what breaks it                                   *)

(* coll a; set k1 v1; flush (ends at 137); set k2 "vv2"; flush (ends at 276)  -- snapshot point i = 4:
   two items, the second item record at 137 (21 bytes);
   revert (truncates to 137); set k3 "xxxxxxx"; flush  -- j = 7: the item record now at 137 has
   25 bytes, key k3: the snapshot's location (137, 21) now decodes to the item k3 |-> "xxxxxxx"
   (the record's own length fields are read), not to the snapshot's item k2 |-> "vv2" *)
Definition brk_ops : list op :=
  [ OColl [97]%N 0;
    OSet [97]%N [107; 49]%N (Some [118; 49]%N) 5;
    OFlush;
    OSet [97]%N [107; 50]%N (Some [118; 118; 50]%N) 7;
    OFlush;
    ORevert;
    OSet [97]%N [107; 51]%N (Some [120; 120; 120; 120; 120; 120; 120]%N) 3;
    OFlush ].

Definition brk_si : dstore := nth 4 (dstates dinit brk_ops) dinit.
Definition brk_sj : dstore := nth 7 (dstates dinit brk_ops) dinit.
Definition brk_q : ploc := mkPloc 137 21.
Definition brk_it : item := mkItem [107; 50]%N [118; 118; 50]%N 7.

(* the record is part of the snapshot's tree and was readable at the snapshot point ... *)
Example brk_before :
  map (fun nc => item_locs (c_tree (snd nc))) (d_cur brk_si) =
    [[(mkPloc 0 20, mkItem [107; 49]%N [118; 49]%N 5); (brk_q, brk_it)]] /\
  dec_item (d_file brk_si) brk_q = Some brk_it /\
  d_size brk_si = 276 /\ d_size brk_sj = 332.
Proof. vm_compute. auto. Qed.

(* ... and is not any more after revert + flush *)
Example brk_after :
  dec_item (d_file brk_sj) brk_q = Some (mkItem [107; 51]%N [120; 120; 120; 120; 120; 120; 120]%N 3).
Proof. vm_compute. reflexivity. Qed.

Example revert_breaks_snapshots : exists ops i j si sj,
  ops_ok [] ops /\ history_ok ops /\ (i <= j)%nat /\
  nth_error (dstates dinit ops) i = Some si /\ nth_error (dstates dinit ops) j = Some sj /\
  ~ readable (d_file sj) si.
Proof.
  exists brk_ops, 4%nat, 7%nat, brk_si, brk_sj.
  split; [cbn; auto|]. split; [vm_compute; reflexivity|]. split; [lia|].
  split; [vm_compute; reflexivity|]. split; [vm_compute; reflexivity|].
  intro H. unfold readable in H.
  destruct (d_cur brk_si) as [|nc cs] eqn:E; [vm_compute in E; discriminate E|].
  apply Forall_inv in H. destruct H as [Hrep _].
  assert (Hin : In (brk_q, brk_it) (item_locs (c_tree (snd nc)))).
  { assert (Enc : nc = hd nc (d_cur brk_si)) by (rewrite E; reflexivity).
    rewrite Enc. vm_compute. right. left. reflexivity. }
  destruct (rep_item_lens _ _ Hrep _ _ Hin) as [_ Hdec].
  rewrite brk_after in Hdec. discriminate Hdec.
Qed.
Print Assumptions revert_breaks_snapshots.

(* the hypothesis of S2 that fails here is exactly the absence of a FlushRevert in between *)
Example brk_has_revert :
  forallb (fun o => negb (is_revert o)) (firstn (7 - 4) (skipn 5 brk_ops)) = false.
Proof. reflexivity. Qed.
