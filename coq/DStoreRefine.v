(* DStoreRefine.v — the byte-level store DStore.drun refines the abstract store Store.run:
   re-opening the file yields the state of the most recent Flush, FlushRevert walks back
   one Flush, whatever happened in between (C02 / C08 over whole histories).

   Contents
     1. erase-invariance: split/join/insert/set_item/delete commute with terase, the
        observations (lookup, tmin, tmax, totals, visit, size) are invariant; step_estore;
        non-disk steps do not depend on the flushed states (step_nondisk, nondisk_same)
     2. rep / below / item_ok-of-all-items / NoDup node_offs are preserved by insert and delete
        (insert_inv, delete_inv), via predicates closed under node (de)composition and a
        counting argument on node offsets
     3. side conditions (history_ok, boolean) and the simulation relation R
     4. sim_nondisk   5. sim_flush   6. sim_reopen   7. sim_revert
     8. sim_step, sim_run, dstore_refines_store(_exact), dstore_refines_sorted_map
     9. ex_history_ok: non-vacuity     10. h4_needed: clause (h4) cannot be dropped

   Deviations from STATEMENTS.md (details in the comments below):
     - the conclusion is proved with exact equality of the answers (the version up to
       StoreSpec.erase is a corollary);
     - (h4) is only required where it cannot be derived: for the bytes appended by a Flush
       (no valid root record ends strictly between the old store size and the end of the new
       root record); that all other positions carry no spurious root is then an invariant
       (R_roots), so history_ok needs no ghost list -- the list of real root ends is a
       parameter of R only;
     - ADDED clause (h3'): at every Flush the aggregates numNodes / numBytes of every current
       collection are below 2^64 (they are written as 8-byte integers; DiskProofs.tree_ok, a
       precondition of the Flush lemmas, requires it and insert/join create nodes whose
       aggregates are sums). *)
From GK Require Import Base Order Treap TreapSpec Store StoreSpec StoreRefine Codec CodecProofs
  Disk DiskProofs DStore.
Open Scope Z_scope.

(* two functions are called [erase]: on trees (forget the persisted locations, DiskProofs) and
   on outputs (forget the visit depths, StoreSpec) *)
Notation terase := DiskProofs.erase.
Notation oerase := StoreSpec.erase.

(* ================================================================== *)
(* 1. Erase-invariance: every treap operation commutes with terase,   *)
(*    every observation is invariant under it.                         *)

Lemma terase_mk l il it r : terase (mk l il it r) = mk (terase l) None it (terase r).
Proof. unfold mk. cbn [DiskProofs.erase]. rewrite !erase_num, !erase_nby. reflexivity. Qed.

Lemma terase_single it : terase (single it) = single it.
Proof. reflexivity. Qed.

Lemma terase_idem t : terase (terase t) = terase t.
Proof.
  induction t as [|nl l IHl il it nn nb r IHr]; cbn [DiskProofs.erase]; [reflexivity|].
  rewrite IHl, IHr. reflexivity.
Qed.

Definition emid (m : option (option ploc * item)) : option (option ploc * item) :=
  option_map (fun p => (@None ploc, snd p)) m.

Section EraseOps.
Variable cmp : bytes -> bytes -> comparison.

Lemma split_eq nl l il it nn nb r s :
  split cmp (T nl l il it nn nb r) s =
  match cmp s (ikey it) with
  | Eq => (l, Some (il, it), r)
  | Lt => match l with
          | E => (E, None, T nl l il it nn nb r)
          | _ => let '(ll, m, lr) := split cmp l s in (ll, m, mk lr il it r)
          end
  | Gt => match r with
          | E => (T nl l il it nn nb r, None, E)
          | _ => let '(rl, m, rr) := split cmp r s in (mk l il it rl, m, rr)
          end
  end.
Proof. reflexivity. Qed.

Lemma split_terase : forall t s l m r, split cmp t s = (l, m, r) ->
  split cmp (terase t) s = (terase l, emid m, terase r).
Proof.
  induction t as [|nl tl IHl il it nn nb tr IHr]; intros s l m r H.
  - cbn in H. inversion H; subst. reflexivity.
  - cbn [DiskProofs.erase]. rewrite split_eq in H |- *.
    destruct (cmp s (ikey it)).
    + inversion H; subst. reflexivity.
    + destruct (split cmp tl s) as [[ll m'] lr] eqn:Hs.
      specialize (IHl _ _ _ _ Hs).
      destruct tl as [|nl' a il' it' nn' nb' b].
      * inversion H; subst. reflexivity.
      * rewrite IHl. cbn [DiskProofs.erase]. inversion H; subst.
        rewrite terase_mk. reflexivity.
    + destruct (split cmp tr s) as [[rl m'] rr] eqn:Hs.
      specialize (IHr _ _ _ _ Hs).
      destruct tr as [|nl' a il' it' nn' nb' b].
      * inversion H; subst. reflexivity.
      * rewrite IHr. cbn [DiskProofs.erase]. inversion H; subst.
        rewrite terase_mk. reflexivity.
Qed.

Lemma join_terase : forall a b, join (terase a) (terase b) = terase (join a b).
Proof.
  induction a as [|n1 tl IHtl til ti nn1 nb1 tr IHtr]; intro b.
  - cbn [DiskProofs.erase]. rewrite !join_E_l. reflexivity.
  - induction b as [|n2 al IHal ail ai nn2 nb2 ar IHar].
    + rewrite join_E_r. cbn [DiskProofs.erase]. rewrite join_E_r. reflexivity.
    + rewrite (join_eq n1). cbn [DiskProofs.erase]. rewrite join_eq.
      destruct (iprio ti >? iprio ai).
      * rewrite terase_mk. f_equal. exact (IHtr (T n2 al ail ai nn2 nb2 ar)).
      * rewrite terase_mk. f_equal. exact IHal.
Qed.

Lemma insert_terase : forall t new, insert cmp (terase t) new = terase (insert cmp t new).
Proof.
  induction t as [|nl l IHl il it nn nb r IHr]; intro new; [reflexivity|].
  cbn [DiskProofs.erase]. rewrite !insert_eq.
  destruct (iprio it >? iprio new).
  - destruct (cmp (ikey it) (ikey new)); rewrite terase_mk.
    + reflexivity.
    + rewrite IHr. reflexivity.
    + rewrite IHl. reflexivity.
  - destruct (split cmp (T nl l il it nn nb r) (ikey new)) as [[l' m'] r'] eqn:Hs.
    apply split_terase in Hs. cbn [DiskProofs.erase] in Hs. rewrite Hs.
    rewrite terase_mk. reflexivity.
Qed.

Lemma lookup_terase : forall t k, lookup cmp (terase t) k = lookup cmp t k.
Proof.
  induction t as [|nl l IHl il it nn nb r IHr]; intro k; cbn [DiskProofs.erase lookup]; [reflexivity|].
  destruct (cmp k (ikey it)); auto.
Qed.

Lemma set_item_terase : forall t key val prio,
  set_item cmp (terase t) key val prio = option_map terase (set_item cmp t key val prio).
Proof.
  intros t key [v|] prio.
  - destruct (valid_item key (Some v) prio) eqn:V.
    + rewrite !(set_item_spec cmp _ key v prio V). cbn [option_map]. rewrite insert_terase. reflexivity.
    + rewrite !(set_item_invalid cmp _ key (Some v) prio V). reflexivity.
  - rewrite !set_item_none. reflexivity.
Qed.

Lemma delete_terase : forall t k,
  delete cmp (terase t) k = (terase (fst (delete cmp t k)), snd (delete cmp t k)).
Proof.
  intros t k. unfold delete. rewrite lookup_terase.
  destruct (lookup cmp t k); [|reflexivity].
  destruct (split cmp t k) as [[l m] r] eqn:Hs.
  rewrite (split_terase _ _ _ _ _ Hs).
  destruct m as [[il0 i0]|]; cbn [emid option_map fst snd]; [|reflexivity].
  rewrite join_terase. reflexivity.
Qed.

Lemma visit_terase : forall t asc target d b,
  visit cmp asc (terase t) target d b = visit cmp asc t target d b.
Proof.
  induction t as [|nl l IHl il it nn nb r IHr]; intros asc target d b; [reflexivity|].
  cbn [DiskProofs.erase visit].
  destruct asc.
  - destruct (cmp target (ikey it)); cbv beta iota zeta.
    + rewrite IHl. destruct (visit cmp true l target (d + 1) b) as [[d1 b1] k1].
      destruct k1; [|reflexivity]. destruct b1; [reflexivity|]. rewrite IHr. reflexivity.
    + rewrite IHl. destruct (visit cmp true l target (d + 1) b) as [[d1 b1] k1].
      destruct k1; [|reflexivity]. destruct b1; [reflexivity|]. rewrite IHr. reflexivity.
    + apply IHr.
  - destruct (cmp target (ikey it)); cbv beta iota zeta.
    + apply IHl.
    + apply IHl.
    + rewrite IHr. destruct (visit cmp false r target (d + 1) b) as [[d1 b1] k1].
      destruct k1; [|reflexivity]. destruct b1; [reflexivity|]. rewrite IHl. reflexivity.
Qed.

End EraseOps.

Lemma tmin_terase : forall t, tmin (terase t) = tmin t.
Proof.
  induction t as [|nl l IHl il it nn nb r IHr]; cbn [DiskProofs.erase tmin]; [reflexivity|].
  rewrite <- IHl. destruct l; reflexivity.
Qed.

Lemma tmax_terase : forall t, tmax (terase t) = tmax t.
Proof.
  induction t as [|nl l IHl il it nn nb r IHr]; cbn [DiskProofs.erase tmax]; [reflexivity|].
  rewrite <- IHr. destruct r; reflexivity.
Qed.

Lemma totals_terase : forall t, totals (terase t) = totals t.
Proof. intro t. unfold totals. rewrite erase_num, erase_nby. reflexivity. Qed.

Lemma terase_eq_aggs : forall t t', terase t' = terase t -> aggs t -> aggs t'.
Proof.
  induction t as [|nl l IHl il it nn nb r IHr]; intros [|nl' l' il' it' nn' nb' r'] H Ha;
    cbn [DiskProofs.erase] in H; try discriminate H; [exact I|].
  injection H as Hl Hi Hn Hb Hr. subst it' nn' nb'.
  cbn [aggs] in Ha |- *. destruct Ha as (A1 & A2 & A3 & A4).
  split; [eapply IHl; eauto|]. split; [eapply IHr; eauto|].
  cbn [size elems] in *.
  rewrite (erase_eq_size _ _ Hl), (erase_eq_size _ _ Hr), (erase_eq_elems _ _ Hl), (erase_eq_elems _ _ Hr).
  split; assumption.
Qed.

(* ---- the store with all locations erased; Store.step commutes with it ---- *)
Definition ecoll (c : coll) : coll := mkColl (c_cmp c) (terase (c_tree c)).
Definition ecolls (cs : colls) : colls := kmap (fun _ => ecoll) cs.
Definition estore (s : store) : store :=
  mkStore (s_file s) (ecolls (s_cur s)) (map ecolls (s_flushed s)) (s_cmpreg s).

Lemma cget_ecolls cs n : cget (ecolls cs) n = option_map ecoll (cget cs n).
Proof. exact (cget_kmap (fun _ => ecoll) cs n). Qed.
Lemma ecolls_cset cs n c : ecolls (cset cs n c) = cset (ecolls cs) n (ecoll c).
Proof. exact (kmap_cset ecoll cs n c). Qed.
Lemma ecolls_cdel cs n : ecolls (cdel cs n) = cdel (ecolls cs) n.
Proof. exact (kmap_cdel ecoll cs n). Qed.
Lemma ecolls_fst cs : map fst (ecolls cs) = map fst cs.
Proof. exact (kmap_fst (fun _ => ecoll) cs). Qed.
Lemma ecolls_recmp reg cs : ecolls (recmp reg cs) = recmp reg (ecolls cs).
Proof.
  unfold ecolls, recmp, kmap. rewrite !map_map. apply map_ext. intros [k v]. reflexivity.
Qed.
Lemma hd_ecolls (fl : list colls) :
  match map ecolls fl with c :: _ => c | [] => [] end =
  ecolls (match fl with c :: _ => c | [] => [] end).
Proof. destruct fl; reflexivity. Qed.

Ltac st_cbn := cbn [s_file s_cur s_flushed s_cmpreg c_cmp c_tree option_map ecoll fst snd].

Theorem step_estore : forall s o s' r, step s o = (s', r) -> step (estore s) o = (estore s', r).
Proof.
  intros [f cur fl reg] o s' r Hstep. unfold estore. st_cbn.
  unfold step in Hstep |- *.
  destruct o; cbv beta zeta in Hstep |- *; unfold with_cur in Hstep |- *; st_cbn;
    cbn [s_file s_cur s_flushed s_cmpreg] in Hstep;
    try rewrite cget_ecolls;
    try (destruct (cget cur name) as [c|] eqn:G; cbn [option_map]; st_cbn).
  all: try (inversion Hstep; subst s' r; clear Hstep; st_cbn;
            rewrite ?ecolls_cset, ?ecolls_cdel, ?ecolls_fst, ?lookup_terase, ?tmin_terase,
              ?tmax_terase, ?totals_terase, ?erase_size; st_cbn; reflexivity).
  - (* OSet *)
    rewrite set_item_terase.
    destruct (set_item (cmp_of (c_cmp c)) (c_tree c) key val prio) as [t'|]; cbn [option_map];
      inversion Hstep; subst s' r; clear Hstep; st_cbn; rewrite ?ecolls_cset; reflexivity.
  - (* ODel *)
    rewrite delete_terase.
    destruct (delete (cmp_of (c_cmp c)) (c_tree c) key) as [t' b]; cbn [fst snd].
    inversion Hstep; subst s' r; clear Hstep; st_cbn; rewrite ecolls_cset; reflexivity.
  - (* OFlush *)
    destruct f; inversion Hstep; subst s' r; clear Hstep; st_cbn; reflexivity.
  - (* OReopen *)
    destruct f; inversion Hstep; subst s' r; clear Hstep; st_cbn; [|reflexivity].
    rewrite hd_ecolls, ecolls_recmp. reflexivity.
  - (* ORevert *)
    destruct f; inversion Hstep; subst s' r; clear Hstep; st_cbn; [|reflexivity].
    rewrite ecolls_recmp. destruct fl as [|c0 [|c1 fl0]]; reflexivity.
  - (* OVisit *)
    rewrite visit_terase. unfold visit_budget in *. rewrite erase_size.
    destruct (visit (cmp_of (c_cmp c)) asc (c_tree c) target 0
                (match stop with Some n => n | None => size (c_tree c) end)) as [[d b1] k1].
    inversion Hstep; subst s' r; clear Hstep; st_cbn; reflexivity.
Qed.

(* a non-disk operation neither reads nor changes the file flag and the flushed states *)
Definition is_disk (o : op) : bool :=
  match o with OFlush | OReopen | ORevert => true | _ => false end.

Lemma step_nondisk : forall b cur fl reg o s' r, is_disk o = false ->
  step (mkStore b cur fl reg) o = (s', r) ->
  s_file s' = b /\ s_flushed s' = fl /\
  forall b2 fl2, step (mkStore b2 cur fl2 reg) o = (mkStore b2 (s_cur s') fl2 (s_cmpreg s'), r).
Proof.
  intros b cur fl reg o s' r Hd Hstep. unfold step in Hstep |- *.
  destruct o; cbn [is_disk] in Hd; try discriminate Hd; clear Hd;
    cbv beta zeta in Hstep |- *; unfold with_cur in Hstep |- *;
    cbn [s_file s_cur s_flushed s_cmpreg] in Hstep |- *;
    try (destruct (cget cur name) as [c|] eqn:G);
    try (inversion Hstep; subst s' r; clear Hstep; cbn [s_file s_cur s_flushed s_cmpreg];
         repeat split; reflexivity).
  - destruct (set_item (cmp_of (c_cmp c)) (c_tree c) key val prio) as [t'|];
      inversion Hstep; subst s' r; clear Hstep; cbn [s_file s_cur s_flushed s_cmpreg];
      repeat split; reflexivity.
  - destruct (delete (cmp_of (c_cmp c)) (c_tree c) key) as [t' b0].
    inversion Hstep; subst s' r; clear Hstep; cbn [s_file s_cur s_flushed s_cmpreg];
      repeat split; reflexivity.
  - destruct (visit (cmp_of (c_cmp c)) asc (c_tree c) target 0 (visit_budget (c_tree c) stop))
      as [[d b1] k1].
    inversion Hstep; subst s' r; clear Hstep; cbn [s_file s_cur s_flushed s_cmpreg];
      repeat split; reflexivity.
Qed.

Lemma dstep_nondisk : forall ds o, is_disk o = false ->
  dstep ds o =
  (let '(s', r) := step (mkStore true (d_cur ds) [] (d_cmpreg ds)) o in
   (mkDStore (d_file ds) (d_size ds) (s_cur s') (s_cmpreg s'), r)).
Proof. intros ds o H. destruct o; try discriminate H; reflexivity. Qed.

(* the answers of a non-disk operation and the erased new state depend only on the erased state *)
Lemma nondisk_same : forall dcur cur fl reg o s1 r1 s2 r2, is_disk o = false ->
  ecolls dcur = ecolls cur ->
  step (mkStore true dcur [] reg) o = (s1, r1) ->
  step (mkStore true cur fl reg) o = (s2, r2) ->
  r1 = r2 /\ ecolls (s_cur s1) = ecolls (s_cur s2) /\ s_cmpreg s1 = s_cmpreg s2.
Proof.
  intros dcur cur fl reg o s1 r1 s2 r2 Hd E H1 H2.
  apply step_estore in H1. apply step_estore in H2. unfold estore in H1, H2.
  cbn [s_file s_cur s_flushed s_cmpreg map] in H1, H2. rewrite E in H1.
  destruct (step_nondisk _ _ _ _ _ _ _ Hd H1) as (_ & _ & H3).
  rewrite (H3 true (map ecolls fl)) in H2. cbn [s_cur s_cmpreg] in H2.
  inversion H2. auto.
Qed.

(* ================================================================== *)
(* 2. The treap operations only create location-less nodes and reuse  *)
(*    existing subtrees and (location, item) pairs.                    *)

(* 2a. Predicates on trees that are decomposable at every node and composable at a fresh
   (location-less) node are preserved by split / join / insert / delete. *)
Section Closed.
Variable cmp : bytes -> bytes -> comparison.
Variable P : tree -> Prop.
Variable Q : option ploc -> item -> Prop.
Hypothesis P_E : P E.
Hypothesis P_dec : forall nl l il it nn nb r, P (T nl l il it nn nb r) -> P l /\ P r /\ Q il it.
Hypothesis P_mk : forall l il it nn nb r, P l -> P r -> Q il it -> P (T None l il it nn nb r).

Lemma mk_closed l il it r : P l -> P r -> Q il it -> P (mk l il it r).
Proof. intros. unfold mk. apply P_mk; assumption. Qed.

Lemma splitR_closed : forall s t l m r, splitR cmp s t l m r -> P t ->
  P l /\ P r /\ (forall il i, m = Some (il, i) -> Q il i).
Proof.
  intros s t l m r H.
  induction H as [ | nl l il it nn nb r Hc | nl il it nn nb r Hc
                 | nl l il it nn nb r ll m lr Hc HR IH | nl l il it nn nb Hc
                 | nl l il it nn nb r rl m rr Hc HR IH ]; intro Ht.
  - repeat split; auto. intros; discriminate.
  - destruct (P_dec _ _ _ _ _ _ _ Ht) as (H1 & H2 & H3). repeat split; auto.
    intros il' i' E'. inversion E'; subst. exact H3.
  - repeat split; auto. intros; discriminate.
  - destruct (P_dec _ _ _ _ _ _ _ Ht) as (H1 & H2 & H3).
    destruct (IH H1) as (I1 & I2 & I3). repeat split; auto. apply mk_closed; auto.
  - repeat split; auto. intros; discriminate.
  - destruct (P_dec _ _ _ _ _ _ _ Ht) as (H1 & H2 & H3).
    destruct (IH H2) as (I1 & I2 & I3). repeat split; auto. apply mk_closed; auto.
Qed.

Lemma split_closed : forall t s l m r, split cmp t s = (l, m, r) -> P t ->
  P l /\ P r /\ (forall il i, m = Some (il, i) -> Q il i).
Proof. intros t s l m r H. apply (splitR_closed s). apply split_R. exact H. Qed.

Lemma joinR_closed : forall a b j, joinR a b j -> P a -> P b -> P j.
Proof.
  intros a b j H.
  induction H as [ b | a
    | n1 tl til ti nn1 nb1 tr n2 al ail ai nn2 nb2 ar j Hp HR IH
    | n1 tl til ti nn1 nb1 tr n2 al ail ai nn2 nb2 ar j Hp HR IH ]; intros Ha Hb; auto.
  - destruct (P_dec _ _ _ _ _ _ _ Ha) as (H1 & H2 & H3). apply mk_closed; auto.
  - destruct (P_dec _ _ _ _ _ _ _ Hb) as (H1 & H2 & H3). apply mk_closed; auto.
Qed.

Lemma join_closed : forall a b, P a -> P b -> P (join a b).
Proof. intros a b. apply joinR_closed. apply join_R. Qed.

Lemma insert_closed : forall t new, Q None new -> P t -> P (insert cmp t new).
Proof.
  induction t as [|nl l IHl il it nn nb r IHr]; intros new Hq Ht.
  - unfold insert, single. apply P_mk; auto.
  - rewrite insert_eq. destruct (P_dec _ _ _ _ _ _ _ Ht) as (H1 & H2 & H3).
    destruct (iprio it >? iprio new).
    + destruct (cmp (ikey it) (ikey new)); apply mk_closed; auto.
    + destruct (split cmp (T nl l il it nn nb r) (ikey new)) as [[l' m'] r'] eqn:Hs.
      destruct (split_closed _ _ _ _ _ Hs Ht) as (S1 & S2 & _). apply mk_closed; auto.
Qed.

Lemma delete_closed : forall t k t' b, delete cmp t k = (t', b) -> P t -> P t'.
Proof.
  intros t k t' b H Ht. unfold delete in H.
  destruct (lookup cmp t k); [|inversion H; subst; exact Ht].
  destruct (split cmp t k) as [[l m] r] eqn:Hs.
  destruct m as [p|]; inversion H; subst; [|exact Ht].
  destruct (split_closed _ _ _ _ _ Hs Ht) as (S1 & S2 & _). apply join_closed; auto.
Qed.

Lemma set_item_closed : forall t key val prio t',
  set_item cmp t key val prio = Some t' ->
  (forall v, val = Some v -> valid_item key val prio = true -> Q None (mkItem key v prio)) ->
  P t -> P t'.
Proof.
  intros t key [v|] prio t' H Hq Ht.
  - destruct (valid_item key (Some v) prio) eqn:V.
    + rewrite (set_item_spec cmp _ key v prio V) in H. inversion H; subst.
      apply insert_closed; auto.
    + rewrite (set_item_invalid cmp _ key (Some v) prio V) in H. discriminate.
  - rewrite set_item_none in H. discriminate.
Qed.

End Closed.

(* the three instances *)
Definition Qrep (f : file) (il : option ploc) (it : item) : Prop :=
  forall q, il = Some q -> plen q = item_loc_len it /\ dec_item f q = Some it.

Lemma rep_dec f : forall nl l il it nn nb r, rep f (T nl l il it nn nb r) -> rep f l /\ rep f r /\ Qrep f il it.
Proof.
  intros nl l il it nn nb r H. cbn [rep] in H. destruct nl as [p|].
  - destruct H as (_ & H1 & H2 & _ & _ & H3 & _). split; [exact H1|]. split; [exact H2|].
    intros q0 Hq. destruct (H3 q0 Hq) as (A & B & _). auto.
  - destruct H as (H1 & H2 & H3). split; [exact H1|]. split; [exact H2|]. exact H3.
Qed.

Lemma rep_mk f : forall l il it nn nb r, rep f l -> rep f r -> Qrep f il it -> rep f (T None l il it nn nb r).
Proof. intros l il it nn nb r H1 H2 H3. cbn [rep]. split; [exact H1|]. split; [exact H2|]. exact H3. Qed.

Lemma below_dec b : forall nl l il it nn nb r, below (T nl l il it nn nb r) b ->
  below l b /\ below r b /\ loc_below il b.
Proof. intros nl l il it nn nb r H. cbn [below] in H. tauto. Qed.

Lemma below_mk b : forall l il it (nn nb : Z) r, below l b -> below r b -> loc_below il b ->
  below (T None l il it nn nb r) b.
Proof. intros. cbn [below loc_below]. tauto. Qed.

Definition items_ok (t : tree) : Prop := Forall item_ok (elems t).

Lemma items_E : items_ok E.
Proof. constructor. Qed.

Lemma items_dec : forall nl l il it nn nb r, items_ok (T nl l il it nn nb r) ->
  items_ok l /\ items_ok r /\ item_ok it.
Proof.
  unfold items_ok. intros nl l il it nn nb r H. cbn [elems] in H.
  apply Forall_app in H. destruct H as [H1 H2]. inversion H2; subst. auto.
Qed.

Lemma items_mk : forall l (il : option ploc) it (nn nb : Z) r, items_ok l -> items_ok r -> item_ok it ->
  items_ok (T None l il it nn nb r).
Proof.
  unfold items_ok. intros. cbn [elems]. apply Forall_app. split; [assumption|]. constructor; assumption.
Qed.

(* 2b. the node offsets of the results are (as multisets) among those of the arguments, hence
   the no-sharing invariant NoDup (node_offs t) is preserved *)
Definition cnt (o : Z) (t : tree) : nat := count_occ Z.eq_dec (node_offs t) o.

Lemma cnt_E o : cnt o E = 0%nat. Proof. reflexivity. Qed.
Lemma cnt_T o nl l il it nn nb r :
  cnt o (T nl l il it nn nb r) = (count_occ Z.eq_dec (oloc_off nl) o + cnt o l + cnt o r)%nat.
Proof. unfold cnt. cbn [node_offs]. rewrite !count_occ_app. lia. Qed.
Lemma cnt_mk o l il it r : cnt o (mk l il it r) = (cnt o l + cnt o r)%nat.
Proof. unfold mk. rewrite cnt_T. reflexivity. Qed.

Lemma nodup_cnt t : NoDup (node_offs t) <-> forall o, (cnt o t <= 1)%nat.
Proof. apply NoDup_count_occ. Qed.

Section Counts.
Variable cmp : bytes -> bytes -> comparison.

Lemma splitR_cnt : forall s t l m r, splitR cmp s t l m r ->
  forall o, (cnt o l + cnt o r <= cnt o t)%nat.
Proof.
  intros s t l m r H o.
  induction H as [ | nl l il it nn nb r Hc | nl il it nn nb r Hc
                 | nl l il it nn nb r ll m lr Hc HR IH | nl l il it nn nb Hc
                 | nl l il it nn nb r rl m rr Hc HR IH ];
    rewrite ?cnt_mk, ?cnt_T, ?cnt_E; lia.
Qed.

Lemma joinR_cnt : forall a b j, joinR a b j -> forall o, (cnt o j <= cnt o a + cnt o b)%nat.
Proof.
  intros a b j H o.
  induction H as [ b | a
    | n1 tl til ti nn1 nb1 tr n2 al ail ai nn2 nb2 ar j Hp HR IH
    | n1 tl til ti nn1 nb1 tr n2 al ail ai nn2 nb2 ar j Hp HR IH ];
    rewrite ?cnt_mk, ?cnt_E; try lia.
  - rewrite cnt_T in IH. rewrite !cnt_T. lia.
  - rewrite cnt_T in IH. rewrite !cnt_T. lia.
Qed.

Lemma insert_cnt : forall t new o, (cnt o (insert cmp t new) <= cnt o t)%nat.
Proof.
  induction t as [|nl l IHl il it nn nb r IHr]; intros new o.
  - cbn. lia.
  - rewrite insert_eq. destruct (iprio it >? iprio new).
    + destruct (cmp (ikey it) (ikey new)); rewrite cnt_mk, cnt_T.
      * lia.
      * specialize (IHr new o). lia.
      * specialize (IHl new o). lia.
    + destruct (split cmp (T nl l il it nn nb r) (ikey new)) as [[l' m'] r'] eqn:Hs.
      apply split_R in Hs. pose proof (splitR_cnt _ _ _ _ _ Hs o). rewrite cnt_mk. lia.
Qed.

Lemma delete_cnt : forall t k t' b o, delete cmp t k = (t', b) -> (cnt o t' <= cnt o t)%nat.
Proof.
  intros t k t' b o H. unfold delete in H.
  destruct (lookup cmp t k); [|inversion H; subst; lia].
  destruct (split cmp t k) as [[l m] r] eqn:Hs.
  destruct m as [p|]; inversion H; subst; [|lia].
  apply split_R in Hs. pose proof (splitR_cnt _ _ _ _ _ Hs o).
  pose proof (joinR_cnt _ _ _ (join_R l r) o). lia.
Qed.

End Counts.

Lemma nodup_le t t' : (forall o, (cnt o t' <= cnt o t)%nat) -> NoDup (node_offs t) -> NoDup (node_offs t').
Proof.
  intros H Hn. apply nodup_cnt. intro o. rewrite nodup_cnt in Hn. specialize (Hn o). specialize (H o). lia.
Qed.

(* 2c. the invariant of a tree of the current state *)
Definition tree_inv (f : file) (b : Z) (t : tree) : Prop :=
  rep f t /\ below t b /\ items_ok t /\ NoDup (node_offs t).

Lemma tree_inv_E f b : tree_inv f b E.
Proof. repeat split; try exact I. constructor. constructor. Qed.

Theorem insert_inv : forall cmp f b t new, item_ok new -> tree_inv f b t ->
  tree_inv f b (insert cmp t new).
Proof.
  intros cmp f b t new Hi (H1 & H2 & H3 & H4). repeat split.
  - apply (insert_closed cmp (rep f) (Qrep f) I (rep_dec f) (rep_mk f)); auto.
    intros q0 Hq. discriminate.
  - apply (insert_closed cmp (fun t => below t b) (fun il _ => loc_below il b) I (below_dec b) (below_mk b)); auto.
    exact I.
  - apply (insert_closed cmp items_ok (fun _ it => item_ok it) items_E items_dec items_mk); auto.
  - eapply nodup_le; [|exact H4]. intro o. apply insert_cnt.
Qed.

Theorem delete_inv : forall cmp f b t k t' d, delete cmp t k = (t', d) -> tree_inv f b t ->
  tree_inv f b t'.
Proof.
  intros cmp f b t k t' d Hd (H1 & H2 & H3 & H4). repeat split.
  - apply (delete_closed cmp (rep f) (Qrep f) I (rep_dec f) (rep_mk f) _ _ _ _ Hd); auto.
  - apply (delete_closed cmp (fun t => below t b) (fun il _ => loc_below il b) I (below_dec b) (below_mk b) _ _ _ _ Hd); auto.
  - apply (delete_closed cmp items_ok (fun _ it => item_ok it) items_E items_dec items_mk _ _ _ _ Hd); auto.
  - eapply nodup_le; [|exact H4]. intro o. eapply delete_cnt; eauto.
Qed.

(* ================================================================== *)
(* 3. Side conditions on histories, and the simulation relation        *)

(* (h1) ASCII names *)
Definition name_okb (n : bytes) : bool := forallb (fun c => (c <? 128)%N) n.

Lemma name_okb_ok n : name_okb n = true -> name_ok n.
Proof.
  unfold name_okb, name_ok. intro H. rewrite forallb_forall in H. apply Forall_forall.
  intros c Hc. apply N.ltb_lt. auto.
Qed.

(* (h2) encodable items *)
Definition item_okb (it : item) : bool :=
  byte_ok (ikey it) && byte_ok (ival it) && (item_loc_len it <? two32) &&
  (- two31 <=? iprio it) && (iprio it <? two31).

Lemma item_okb_ok it : item_okb it = true -> item_ok it.
Proof.
  unfold item_okb, item_ok. intro H.
  apply andb_prop in H. destruct H as [H H5]. apply andb_prop in H. destruct H as [H H4].
  apply andb_prop in H. destruct H as [H H3]. apply andb_prop in H. destruct H as [H1 H2].
  apply Z.ltb_lt in H3, H5. apply Z.leb_le in H4. auto.
Qed.

(* (h3') the aggregates written into node records fit 8 bytes *)
Definition totals_okb (cs : colls) : bool :=
  forallb (fun nc => (num (c_tree (snd nc)) <? 2 ^ 64) && (nby (c_tree (snd nc)) <? 2 ^ 64)) cs.

(* (h4) no root record ends at lo+1 .. lo+n *)
Fixpoint no_root_in (f : file) (lo : Z) (n : nat) : bool :=
  match n with
  | O => true
  | S k => match root_at f (lo + Z.of_nat (S k)) with
           | None => no_root_in f lo k
           | Some _ => false
           end
  end.

Lemma no_root_in_spec f lo : forall n, no_root_in f lo n = true ->
  forall e, lo < e <= lo + Z.of_nat n -> root_at f e = None.
Proof.
  induction n as [|k IH]; intros H e He; [lia|].
  cbn [no_root_in] in H.
  destruct (root_at f (lo + Z.of_nat (S k))) eqn:Hr; [discriminate|].
  destruct (Z.eq_dec e (lo + Z.of_nat (S k))) as [->|Hne]; [exact Hr|].
  apply IH; [exact H | lia].
Qed.

(* the side conditions of one operation, evaluated in the byte-level state it is applied to:
   (h1) for OColl, (h2) for OSet, (h3) and (h3') for OFlush ... *)
Definition op_okb0 (ds : dstore) (o : op) : bool :=
  match o with
  | OColl name _ => name_okb name
  | OSet name key val prio =>
    match cget (d_cur ds) name, val with
    | Some _, Some v => if valid_item key val prio then item_okb (mkItem key v prio) else true
    | _, _ => true
    end
  | OFlush =>
    let ds' := fst (dstep ds OFlush) in
    totals_okb (d_cur ds) && (d_size ds' <? two63) &&
    (roots_len + blen (enc_json (root_map (d_cur ds'))) <? two32)
  | _ => true
  end.

(* ... and (h4): the bytes a Flush appends contain no look-alike root record, i.e. no valid
   root record ends strictly between the old store size and the end of the new root record *)
Definition roots_okb (ds : dstore) (o : op) : bool :=
  match o with
  | OFlush =>
    let ds' := fst (dstep ds OFlush) in
    no_root_in (d_file ds') (d_size ds) (Z.to_nat (d_size ds' - d_size ds - 1))
  | _ => true
  end.

Definition op_okb (ds : dstore) (o : op) : bool := op_okb0 ds o && roots_okb ds o.

Fixpoint dhist_ok (ds : dstore) (ops : list op) : bool :=
  match ops with
  | [] => true
  | o :: ops' => op_okb ds o && dhist_ok (fst (dstep ds o)) ops'
  end.

Definition history_ok (ops : list op) : Prop := dhist_ok dinit ops = true.

(* ---- the simulation relation ---- *)
Definition coll_inv (f : file) (b : Z) (nc : bytes * coll) : Prop :=
  name_ok (fst nc) /\ tree_inv f b (c_tree (snd nc)).

(* names and erased trees of a collection map / of a loaded root *)
Definition ekeys (cs : colls) : list (bytes * tree) :=
  map (fun nc => (fst nc, terase (c_tree (snd nc)))) cs.
Definition esnap (cs : list (bytes * tree)) : list (bytes * tree) :=
  map (fun nt => (fst nt, terase (snd nt))) cs.

(* the root record ending at e decodes to the trees cs, which are the flushed state st up to
   locations, and everything they refer to lies below e *)
Definition snap (f : file) (e : Z) (cs : list (bytes * tree)) (st : colls) : Prop :=
  root_at f e = Some (locs_of cs) /\
  Forall (fun nt => name_ok (fst nt) /\ persisted (snd nt) /\ tree_inv f e (snd nt)) cs /\
  esnap cs = ekeys st.

Definition snap_ok (f : file) (e : Z) (st : colls) : Prop := exists cs, snap f e cs st.

(* strictly decreasing *)
Fixpoint sdesc (l : list Z) : Prop :=
  match l with
  | [] => True
  | e :: l' => Forall (fun x => x < e) l' /\ sdesc l'
  end.

Record R (ds : dstore) (s : store) (ends : list Z) : Prop := mkR {
  R_file : s_file s = true;
  R_reg : d_cmpreg ds = s_cmpreg s;
  R_cur : ecolls (d_cur ds) = ecolls (s_cur s);
  R_len : blen (d_file ds) = d_size ds;
  R_size : d_size ds = hd 0 ends;
  R_inv : Forall (coll_inv (d_file ds) (d_size ds)) (d_cur ds);
  R_snaps : Forall2 (snap_ok (d_file ds)) ends (s_flushed s);
  R_desc : sdesc ends;
  R_roots : forall e, root_at (d_file ds) e <> None -> In e ends;
  R_wf : wf s
}.

Lemma root_at_nil e : root_at [] e = None.
Proof.
  destruct (root_at [] e) eqn:H; [|reflexivity].
  pose proof (root_at_le_blen _ _ _ H). pose proof (root_at_Some_gt _ _ _ H).
  rewrite blen_nil in *. change roots_len with 44 in *. lia.
Qed.

Theorem R_init : R dinit (init true) [].
Proof.
  constructor; cbn [dinit init s_file d_cmpreg s_cmpreg d_cur s_cur d_file d_size s_flushed hd];
    try reflexivity; try constructor.
  - intros e H. rewrite root_at_nil in H. congruence.
  - apply colls_wf_nil.
  - constructor.
Qed.

(* ================================================================== *)
(* 4. One-step simulation for the operations that do not touch the file *)

Lemma Forall_cset {A} (P : bytes * A -> Prop) : forall m n c,
  Forall P m -> P (n, c) -> Forall P (cset m n c).
Proof.
  induction m as [|[k v] m IH]; intros n c H Hn; cbn [cset].
  - constructor; auto.
  - inversion H; subst. destruct (cmp_bytes n k); repeat constructor; auto.
Qed.

Lemma Forall_cdel {A} (P : bytes * A -> Prop) : forall m n, Forall P m -> Forall P (cdel m n).
Proof.
  induction m as [|[k v] m IH]; intros n H; cbn [cdel]; auto.
  inversion H; subst. destruct (cmp_bytes n k); auto.
Qed.

Lemma step_coll_inv : forall f b fb cur fl reg o s' r, is_disk o = false ->
  (forall name id, o = OColl name id -> name_ok name) ->
  (forall name key v prio c, o = OSet name key (Some v) prio -> cget cur name = Some c ->
     valid_item key (Some v) prio = true -> item_ok (mkItem key v prio)) ->
  Forall (coll_inv f b) cur ->
  step (mkStore fb cur fl reg) o = (s', r) ->
  Forall (coll_inv f b) (s_cur s').
Proof.
  intros f b fb cur fl reg o s' r Hd Hname Hitem Hinv Hstep. unfold step in Hstep.
  assert (Hin : forall n c, cget cur n = Some c -> coll_inv f b (n, c)).
  { intros n c G. apply cget_In in G. rewrite Forall_forall in Hinv. auto. }
  destruct o; cbn [is_disk] in Hd; try discriminate Hd; clear Hd;
    cbv beta zeta in Hstep; unfold with_cur in Hstep;
    cbn [s_file s_cur s_flushed s_cmpreg] in Hstep;
    try (destruct (cget cur name) as [c|] eqn:G);
    try (inversion Hstep; subst s' r; clear Hstep; cbn [s_cur]; exact Hinv).
  - (* OColl, existing *)
    inversion Hstep; subst s' r; clear Hstep; cbn [s_cur].
    apply Forall_cset; [exact Hinv|]. split; cbn [fst snd c_tree].
    + eapply Hname; reflexivity.
    + apply (Hin _ _ G).
  - (* OColl, new *)
    inversion Hstep; subst s' r; clear Hstep; cbn [s_cur].
    apply Forall_cset; [exact Hinv|]. split; cbn [fst snd c_tree].
    + eapply Hname; reflexivity.
    + apply tree_inv_E.
  - (* ORmColl *)
    inversion Hstep; subst s' r; clear Hstep; cbn [s_cur]. apply Forall_cdel. exact Hinv.
  - inversion Hstep; subst s' r; clear Hstep; cbn [s_cur]. apply Forall_cdel. exact Hinv.
  - (* OSet *)
    destruct (set_item (cmp_of (c_cmp c)) (c_tree c) key val prio) as [t'|] eqn:Hs;
      inversion Hstep; subst s' r; clear Hstep; cbn [s_cur]; [|exact Hinv].
    destruct (Hin _ _ G) as [Hn Ht]. cbn [fst snd] in Hn, Ht.
    apply Forall_cset; [exact Hinv|]. split; cbn [fst snd c_tree]; [exact Hn|].
    destruct val as [v|]; [|rewrite set_item_none in Hs; discriminate].
    destruct (valid_item key (Some v) prio) eqn:V.
    + rewrite (set_item_spec _ _ key v prio V) in Hs. inversion Hs; subst t'.
      apply insert_inv; [|exact Ht]. eapply Hitem; eauto.
    + rewrite (set_item_invalid _ _ key (Some v) prio V) in Hs. discriminate.
  - (* ODel *)
    destruct (delete (cmp_of (c_cmp c)) (c_tree c) key) as [t' b0] eqn:Hdel.
    inversion Hstep; subst s' r; clear Hstep; cbn [s_cur].
    destruct (Hin _ _ G) as [Hn Ht]. cbn [fst snd] in Hn, Ht.
    apply Forall_cset; [exact Hinv|]. split; cbn [fst snd c_tree]; [exact Hn|].
    eapply delete_inv; eauto.
  - (* OVisit *)
    destruct (visit (cmp_of (c_cmp c)) asc (c_tree c) target 0 (visit_budget (c_tree c) stop))
      as [[d b1] k1].
    inversion Hstep; subst; exact Hinv.
Qed.

Theorem sim_nondisk : forall ds s ends o ds' r s' r', is_disk o = false ->
  R ds s ends -> op_okb ds o = true -> ops_ok (s_cmpreg s) [o] ->
  dstep ds o = (ds', r) -> step s o = (s', r') ->
  r = r' /\ R ds' s' ends.
Proof.
  intros [f size dcur dreg] [fb cur fl reg] ends o ds' r s' r' Hd HR Hok Hops Hds Hs.
  destruct HR as [Rf Rreg Rcur Rlen Rsize Rinv Rsnaps Rdesc Rroots Rwf].
  cbn [s_file d_cmpreg s_cmpreg d_cur s_cur d_file d_size s_flushed] in *. subst fb dreg.
  rewrite (dstep_nondisk _ _ Hd) in Hds. cbn [d_cur d_cmpreg d_file d_size] in Hds.
  destruct (step (mkStore true dcur [] reg) o) as [s1 r1] eqn:H1.
  inversion Hds; subst ds' r; clear Hds.
  destruct (nondisk_same _ _ _ _ _ _ _ _ _ Hd Rcur H1 Hs) as (Er & Ec & Ereg).
  destruct (step_nondisk _ _ _ _ _ _ _ Hd Hs) as (Sf & Sfl & _).
  destruct (step_refines _ _ _ _ Rwf Hops Hs) as [Hwf' _].
  split; [exact Er|].
  constructor; cbn [s_file d_cmpreg s_cmpreg d_cur s_cur d_file d_size s_flushed]; auto.
  - (* the invariant of the current trees *)
    eapply step_coll_inv; [exact Hd| | |exact Rinv|exact H1].
    + intros name id ->. apply andb_prop in Hok. destruct Hok as [Hok _].
      cbn [op_okb0] in Hok. apply name_okb_ok. exact Hok.
    + intros name key v prio c -> G V. apply andb_prop in Hok. destruct Hok as [Hok _].
      cbn [op_okb0 d_cur] in Hok. rewrite G, V in Hok.
      apply item_okb_ok. exact Hok.
  - rewrite Sfl. exact Rsnaps.
Qed.

(* ================================================================== *)
(* 5. Flush                                                            *)

Lemma sum_bytes_nonneg l : 0 <= sum_bytes l.
Proof.
  induction l as [|x l IH]; cbn [sum_bytes fold_right]; [lia|].
  fold (sum_bytes l). unfold item_bytes.
  pose proof (blen_nonneg (ikey x)). pose proof (blen_nonneg (ival x)). lia.
Qed.

(* with exact aggregates, the bounds at the root bound every node *)
Lemma aggs_tree_ok : forall t, aggs t -> items_ok t -> num t < 2 ^ 64 -> nby t < 2 ^ 64 -> tree_ok t.
Proof.
  set (M := 2 ^ 64).
  induction t as [|nl l IHl il it nn nb r IHr]; intros Ha Hi Hn Hb; [exact I|].
  destruct (items_dec _ _ _ _ _ _ _ Hi) as (Il & Ir & Iit).
  cbn [aggs] in Ha. destruct Ha as (Al & Ar & An & Ab).
  cbn [num nby] in Hn, Hb.
  destruct (aggs_num _ Al) as [Nl Bl]. destruct (aggs_num _ Ar) as [Nr Br].
  cbn [size elems] in An, Ab. rewrite sum_bytes_app in Ab.
  pose proof (sum_bytes_nonneg (elems l)). pose proof (sum_bytes_nonneg (elems r)).
  assert (0 <= item_bytes it).
  { unfold item_bytes. pose proof (blen_nonneg (ikey it)). pose proof (blen_nonneg (ival it)). lia. }
  cbn [tree_ok]. fold M.
  split; [exact Iit|]. split; [lia|]. split; [lia|].
  split; [apply IHl; auto; lia | apply IHr; auto; lia].
Qed.

Lemma tree_ok_items : forall t, tree_ok t -> items_ok t.
Proof.
  induction t as [|nl l IHl il it nn nb r IHr]; intro H; [constructor|].
  cbn [tree_ok] in H. destruct H as (H1 & _ & _ & H4 & H5).
  unfold items_ok in *. cbn [elems]. apply Forall_app. split; [auto|]. constructor; auto.
Qed.

Lemma In_cget {A} : forall (m : list (bytes * A)) n c,
  names_sorted m -> In (n, c) m -> cget m n = Some c.
Proof.
  unfold names_sorted.
  induction m as [|[k v] m IH]; intros n c Hs Hin; [destruct Hin|].
  cbn [map fst keys_sorted] in Hs. destruct Hs as [H1 H2]. cbn [cget].
  destruct Hin as [Heq|Hin].
  - inversion Heq; subst. rewrite cmp_bytes_refl. reflexivity.
  - assert (Hlt : cmp_bytes k n = Lt).
    { rewrite Forall_forall in H1. apply H1. apply (in_map fst) in Hin. exact Hin. }
    rewrite (cmp_bytes_opp k n), Hlt. cbn [CompOpp]. apply IH; assumption.
Qed.

Lemma ecolls_names a b : ecolls a = ecolls b -> map fst a = map fst b.
Proof. intro H. rewrite <- (ecolls_fst a), <- (ecolls_fst b), H. reflexivity. Qed.

(* the current trees of the byte-level store have exact aggregates, as the model's have *)
Lemma dcur_aggs : forall reg dcur cur n c, ecolls dcur = ecolls cur -> colls_wf reg cur ->
  In (n, c) dcur -> aggs (c_tree c).
Proof.
  intros reg dcur cur n c E [Hs Hc] Hin.
  assert (Hsd : names_sorted dcur).
  { eapply names_sorted_keys; [|exact Hs]. apply ecolls_names. exact E. }
  pose proof (In_cget _ _ _ Hsd Hin) as G.
  pose proof (cget_ecolls dcur n) as G1. rewrite G, E, cget_ecolls in G1. cbn [option_map] in G1.
  destruct (cget cur n) as [c2|] eqn:G2; cbn [option_map] in G1; [|discriminate].
  inversion G1 as [[Hcmp Ht]].
  destruct (Hc _ _ G2) as [[_ Ha] _].
  eapply terase_eq_aggs; [|exact Ha]. symmetry. exact Ht.
Qed.

Lemma decode_store_inv f e cs : decode_store f = OpOk e cs ->
  root_at f e = Some (locs_of cs) /\ Forall (fun nt => persisted (snd nt)) cs.
Proof.
  unfold decode_store. destruct (blen f =? 0); [discriminate|].
  destruct (scan f (blen f)) as [| |e0 m] eqn:Hs; try discriminate.
  destruct (load_all f m e0) as [cs0|] eqn:Hl; [|discriminate].
  intro H. inversion H; subst e0 cs0.
  destruct (scan_found _ _ _ _ Hs) as (_ & _ & Hr & _).
  destruct (load_all_inv _ _ _ _ Hl) as [Hm Hp]. subst m. split; [exact Hr|].
  eapply Forall_impl; [|exact Hp]. intros a [Ha _]. exact Ha.
Qed.

Lemma coll_post_ecolls f s cs cs' : Forall2 (coll_post f s) cs cs' -> ecolls cs' = ecolls cs.
Proof.
  induction 1 as [|[n c] [n' c'] cs cs' Hp H2 IH]; [reflexivity|].
  unfold ecolls, kmap in *. cbn [map fst snd]. rewrite IH. f_equal.
  destruct Hp as (P1 & P2 & _ & _ & _ & P6). cbn [fst snd] in *. subst n'.
  unfold ecoll. rewrite P2, P6. reflexivity.
Qed.

Lemma ekeys_ecolls a : ekeys a = map (fun nc => (fst nc, c_tree (snd nc))) (ecolls a).
Proof. unfold ekeys, ecolls, kmap. rewrite map_map. reflexivity. Qed.

Lemma ecolls_ekeys a b : ecolls a = ecolls b -> ekeys a = ekeys b.
Proof. intro H. rewrite !ekeys_ecolls, H. reflexivity. Qed.

Lemma esnap_tmap cs : esnap (tmap cs) = ekeys cs.
Proof. unfold esnap, tmap, ekeys. rewrite map_map. reflexivity. Qed.

Lemma tree_inv_stable f f' b b' t : tree_inv f b t -> agree f f' b -> b <= b' -> tree_inv f' b' t.
Proof.
  intros (H1 & H2 & H3 & H4) Ha Hb. repeat split; auto.
  - eapply rep_stable; eauto.
  - eapply below_mono; eauto.
Qed.

Lemma snap_stable f f' e cs st : snap f e cs st -> agree f f' e -> snap f' e cs st.
Proof.
  intros (H1 & H2 & H3) Ha. split; [|split; [|exact H3]].
  - rewrite (root_at_agree f f' e Ha). exact H1.
  - eapply Forall_impl; [|exact H2]. intros nt (A & B & C). split; [exact A|]. split; [exact B|].
    eapply tree_inv_stable; eauto. lia.
Qed.

Lemma snap_ok_stable f f' e st : snap_ok f e st -> agree f f' e -> snap_ok f' e st.
Proof. intros [cs H] Ha. exists cs. eapply snap_stable; eauto. Qed.

Lemma Forall2_impl_In {A B} (P Q : A -> B -> Prop) l l' :
  (forall a b, In a l -> P a b -> Q a b) -> Forall2 P l l' -> Forall2 Q l l'.
Proof.
  intros H H2. induction H2 as [|a b l l' Hab H2 IH]; constructor.
  - apply H; [left; reflexivity | exact Hab].
  - apply IH. intros a0 b0 Hin. apply H. right. exact Hin.
Qed.

Lemma ends_le ends x : sdesc ends -> In x ends -> x <= hd 0 ends.
Proof.
  destruct ends as [|e l]; intros Hs Hin; [destruct Hin|].
  cbn [hd]. destruct Hin as [->|Hin]; [lia|].
  destruct Hs as [H _]. rewrite Forall_forall in H. specialize (H _ Hin). lia.
Qed.

Lemma snaps_stable f f' ends fl : sdesc ends ->
  agree f f' (hd 0 ends) -> Forall2 (snap_ok f) ends fl -> Forall2 (snap_ok f') ends fl.
Proof.
  intros Hs Ha. apply Forall2_impl_In. intros e st Hin H.
  eapply snap_ok_stable; [exact H|]. eapply agree_mono; [exact Ha|]. apply ends_le; assumption.
Qed.

(* what Flush establishes, beyond flush_decodes_nodup: the new trees are the old ones up to
   locations, and the store size grows by at least a root record *)
Lemma flush_post f size cs f' size' cs' :
  Forall (coll_ok f size) cs -> 0 <= size <= blen f ->
  flush_bytes f size cs = (f', size', cs') -> size' < two63 ->
  Forall2 (coll_post f' size') cs cs' /\ size + roots_len < size'.
Proof.
  intros Hok Hsz H H63. unfold flush_bytes in H.
  destruct (write_colls f size cs) as [[f1 s1] cs1] eqn:E.
  revert H63. inversion H; subst f' size' cs'; clear H. intros H63.
  set (r := enc_root (root_map cs1) s1) in *.
  assert (Hbr : blen r = roots_len + blen (enc_json (root_map cs1))) by apply blen_enc_root.
  pose proof (blen_enc_json_pos (root_map cs1)) as Hj. change roots_len with 44 in *.
  destruct (write_colls_spec _ _ _ _ _ _ Hok Hsz E ltac:(lia)) as (A1 & A2 & A3 & A4).
  destruct (append_facts f1 s1 r ltac:(lia)) as (W1 & W2 & W3 & W4).
  split; [|lia].
  eapply Forall2_imp; [|exact A4]. intros nc nc' Hp.
  apply (coll_post_stable f1 _ s1); auto. lia.
Qed.

Theorem sim_flush : forall ds s ends ds' r s' r',
  R ds s ends -> op_okb ds OFlush = true -> ops_ok (s_cmpreg s) [OFlush] ->
  dstep ds OFlush = (ds', r) -> step s OFlush = (s', r') ->
  r = r' /\ R ds' s' (d_size ds' :: ends).
Proof.
  intros [f size dcur dreg] [fb cur fl reg] ends ds' r s' r' HR Hok Hops Hds Hs.
  pose proof (R_wf _ _ _ HR) as Rwf.
  destruct (step_refines _ _ _ _ Rwf Hops Hs) as [Hwf' _].
  destruct HR as [Rf Rreg Rcur Rlen Rsize Rinv Rsnaps Rdesc Rroots _].
  cbn [s_file d_cmpreg s_cmpreg d_cur s_cur d_file d_size s_flushed] in *. subst fb dreg.
  unfold op_okb, op_okb0, roots_okb in Hok. cbn [dstep d_file d_size d_cur d_cmpreg] in Hds, Hok.
  destruct (flush_bytes f size dcur) as [[f' size'] cs'] eqn:Hfl.
  cbn [fst d_size d_cur d_file] in Hok.
  inversion Hds; subst ds' r; clear Hds.
  cbn [step s_file] in Hs. inversion Hs; subst s' r'; clear Hs.
  apply andb_prop in Hok. destruct Hok as [Hok Hnr]. apply andb_prop in Hok. destruct Hok as [Hok H32].
  apply andb_prop in Hok. destruct Hok as [Htot H63].
  apply Z.ltb_lt in H63, H32.
  pose proof (blen_nonneg f) as Hf0.
  assert (Hsz : 0 <= size <= blen f) by lia.
  (* the preconditions of Flush *)
  assert (Hcok : Forall (coll_ok f size) dcur).
  { apply Forall_forall. intros [n c] Hin.
    rewrite Forall_forall in Rinv. destruct (Rinv _ Hin) as (Hn & Hrep & Hbel & Hit & Hnd).
    cbn [fst snd] in *. unfold coll_ok. cbn [fst snd]. repeat split; auto.
    unfold totals_okb in Htot. rewrite forallb_forall in Htot. specialize (Htot _ Hin).
    cbn [snd] in Htot. apply andb_prop in Htot. destruct Htot as [T1 T2]. apply Z.ltb_lt in T1, T2.
    apply aggs_tree_ok; auto.
    eapply dcur_aggs; [exact Rcur | exact (proj1 Rwf) | exact Hin]. }
  assert (Hnd : Forall (fun nc => NoDup (node_offs (c_tree (snd nc)))) dcur).
  { eapply Forall_impl; [|exact Rinv]. intros nc (_ & _ & _ & _ & H). exact H. }
  pose proof (flush_no_junk _ _ _ _ _ _ Hcok Hsz Hfl H63 Rlen) as Hbl.
  destruct (flush_decodes_nodup _ _ _ _ _ _ Hcok Hsz Hfl H63 H32 Hbl Hnd) as (D1 & _ & D3 & D4 & D5).
  destruct (flush_post _ _ _ _ _ _ Hcok Hsz Hfl H63) as (Hpost & Hgrow).
  destruct (decode_store_inv _ _ _ D1) as (Hroot & Hpers).
  pose proof (coll_post_ecolls _ _ _ _ Hpost) as Hec.
  assert (Rinv' : Forall (coll_inv f' size') cs').
  { apply Forall_forall. intros nc Hin. rewrite Forall_forall in D4, D5.
    destruct (D4 _ Hin) as (C1 & C2 & C3 & C4). specialize (D5 _ Hin).
    split; [exact C1|]. repeat split; auto. apply tree_ok_items. exact C4. }
  split; [reflexivity|].
  constructor; cbn [s_file d_cmpreg s_cmpreg d_cur s_cur d_file d_size s_flushed hd]; auto.
  - rewrite Hec. exact Rcur.
  - (* the snapshots *)
    constructor.
    + exists (tmap cs'). split; [exact Hroot|]. split.
      * apply Forall_forall. intros nt Hin.
        rewrite Forall_forall in Hpers. specialize (Hpers _ Hin).
        unfold tmap in Hin. apply in_map_iff in Hin. destruct Hin as (nc & <- & Hin).
        rewrite Forall_forall in Rinv'. destruct (Rinv' _ Hin) as [A B]. cbn [fst snd] in *. auto.
      * rewrite esnap_tmap. apply ecolls_ekeys. rewrite Hec. exact Rcur.
    + apply (snaps_stable f f'); auto. rewrite <- Rsize. exact D3.
  - (* strictly decreasing *)
    split; [|exact Rdesc]. apply Forall_forall. intros x Hin.
    pose proof (ends_le _ _ Rdesc Hin). change roots_len with 44 in Hgrow. lia.
  - (* no other roots *)
    intros e He.
    destruct (root_at f' e) as [m|] eqn:Hr; [clear He | congruence].
    pose proof (root_at_le_blen _ _ _ Hr) as Hle. rewrite Hbl in Hle.
    destruct (Z.eq_dec e size') as [->|Hne]; [left; reflexivity|]. right.
    destruct (Z_le_gt_dec e size) as [Hlow|Hhigh].
    + apply Rroots. rewrite <- (root_at_agree f f' e); [congruence|].
      eapply agree_mono; [exact D3 | exact Hlow].
    + exfalso. rewrite (no_root_in_spec _ _ _ Hnr e) in Hr; [discriminate|]. lia.
Qed.

(* ================================================================== *)
(* 6. Re-open                                                          *)

(* a snapshot loads back, entirely *)
Lemma snap_load f e cs st : snap f e cs st -> 0 <= e <= blen f ->
  load_all f (locs_of cs) e = Some cs.
Proof.
  intros (_ & H & _) He. apply load_all_rep; [exact He|].
  eapply Forall_impl; [|exact H]. intros nt (_ & Hp & Hrep & Hbel & _ & Hnd).
  split; [exact Hrep|]. split; [exact Hp|]. split; [exact Hbel|].
  pose proof (size_le_offsets f _ e Hrep Hp Hbel Hnd) as Hs. unfold blen in He. lia.
Qed.

Lemma ecolls_loaded reg cs : ecolls (colls_of_loaded reg cs) = colls_of_loaded reg (esnap cs).
Proof. unfold ecolls, kmap, colls_of_loaded, esnap. rewrite !map_map. reflexivity. Qed.

Lemma ecolls_recmp_loaded reg st : ecolls (recmp reg st) = colls_of_loaded reg (ekeys st).
Proof. unfold ecolls, kmap, colls_of_loaded, recmp, ekeys. rewrite !map_map. reflexivity. Qed.

(* ... and becomes a current state that matches the model's *)
Lemma snap_cur f e cs st reg : snap f e cs st ->
  ecolls (colls_of_loaded reg cs) = ecolls (recmp reg st) /\
  Forall (coll_inv f e) (colls_of_loaded reg cs).
Proof.
  intros (_ & H & He). split.
  - rewrite ecolls_loaded, ecolls_recmp_loaded, He. reflexivity.
  - unfold colls_of_loaded. apply Forall_map.
    eapply Forall_impl; [|exact H]. intros nt (Hn & _ & Hi). split; cbn [fst snd c_tree]; assumption.
Qed.

Lemma Forall2_nil_l {A B} (P : A -> B -> Prop) l2 : Forall2 P [] l2 -> l2 = [].
Proof. intro H. inversion H. reflexivity. Qed.

Lemma Forall2_cons_l {A B} (P : A -> B -> Prop) a l l2 : Forall2 P (a :: l) l2 ->
  exists b l', l2 = b :: l' /\ P a b /\ Forall2 P l l'.
Proof. intro H. inversion H; subst. eauto. Qed.

Theorem sim_reopen : forall ds s ends ds' r s' r',
  R ds s ends -> ops_ok (s_cmpreg s) [OReopen] ->
  dstep ds OReopen = (ds', r) -> step s OReopen = (s', r') ->
  r = r' /\ R ds' s' ends.
Proof.
  intros [f size dcur dreg] [fb cur fl reg] ends ds' r s' r' HR Hops Hds Hs.
  pose proof (R_wf _ _ _ HR) as Rwf.
  destruct (step_refines _ _ _ _ Rwf Hops Hs) as [Hwf' _].
  destruct HR as [Rf Rreg Rcur Rlen Rsize Rinv Rsnaps Rdesc Rroots _].
  cbn [s_file d_cmpreg s_cmpreg d_cur s_cur d_file d_size s_flushed] in *. subst fb dreg.
  cbn [dstep d_file d_size d_cur d_cmpreg] in Hds.
  cbn [step s_file s_flushed s_cmpreg] in Hs. unfold with_cur in Hs.
  cbn [s_file s_flushed s_cmpreg] in Hs. inversion Hs; subst s' r'; clear Hs.
  destruct ends as [|e rest].
  - (* never flushed: the file is empty *)
    cbn [hd] in Rsize. rewrite Rsize in Rlen, Rinv, Hds. clear Rsize size. apply Forall2_nil_l in Rsnaps. subst fl.
    unfold decode_store in Hds. rewrite Rlen in Hds. cbn [Z.eqb] in Hds.
    inversion Hds; subst ds' r; clear Hds. split; [reflexivity|].
    constructor; cbn [s_file d_cmpreg s_cmpreg d_cur s_cur d_file d_size s_flushed hd]; auto.
  - cbn [hd] in Rsize. rewrite Rsize in Rlen, Rinv, Hds. clear Rsize size.
    apply Forall2_cons_l in Rsnaps. destruct Rsnaps as (st & fl' & -> & [cs Hsnap] & Hrest).
    pose proof Hsnap as (Hroot & _ & _).
    pose proof (root_at_Some_gt _ _ _ Hroot) as Hgt. change roots_len with 44 in Hgt.
    assert (Hdec : decode_store f = OpOk e cs).
    { unfold decode_store. rewrite Rlen.
      replace (e =? 0) with false by (symmetry; apply Z.eqb_neq; lia).
      rewrite (scan_complete f e e _ Hroot) by lia.
      rewrite (snap_load _ _ _ _ Hsnap) by lia. reflexivity. }
    rewrite Hdec in Hds. inversion Hds; subst ds' r; clear Hds. split; [reflexivity|].
    destruct (snap_cur _ _ _ _ reg Hsnap) as [Hc Hi].
    constructor; cbn [s_file d_cmpreg s_cmpreg d_cur s_cur d_file d_size s_flushed hd]; auto.
    constructor; [exists cs; exact Hsnap | exact Hrest].
Qed.

(* ================================================================== *)
(* 7. FlushRevert                                                      *)

Theorem sim_revert : forall ds s ends ds' r s' r',
  R ds s ends -> ops_ok (s_cmpreg s) [ORevert] ->
  dstep ds ORevert = (ds', r) -> step s ORevert = (s', r') ->
  r = r' /\ R ds' s' (tl ends).
Proof.
  intros [f size dcur dreg] [fb cur fl reg] ends ds' r s' r' HR Hops Hds Hs.
  pose proof (R_wf _ _ _ HR) as Rwf.
  destruct (step_refines _ _ _ _ Rwf Hops Hs) as [Hwf' _].
  destruct HR as [Rf Rreg Rcur Rlen Rsize Rinv Rsnaps Rdesc Rroots _].
  cbn [s_file d_cmpreg s_cmpreg d_cur s_cur d_file d_size s_flushed] in *. subst fb dreg.
  cbn [dstep d_file d_size d_cur d_cmpreg] in Hds.
  cbn [step s_file s_flushed s_cmpreg] in Hs. cbv zeta in Hs. inversion Hs; subst s' r'; clear Hs.
  destruct ends as [|e [|ep rest]]; cbn [hd tl] in *.
  - (* nothing was ever flushed *)
    rewrite Rsize in Rlen, Rinv, Hds. clear Rsize size. apply Forall2_nil_l in Rsnaps. subst fl. apply blen_0_nil in Rlen. subst f.
    change (revert_bytes [] 0) with (([] : file), 0, ([] : list (bytes * option ploc))) in Hds.
    cbn [load_all] in Hds. inversion Hds; subst ds' r; clear Hds. split; [reflexivity|].
    constructor; cbn [s_file d_cmpreg s_cmpreg d_cur s_cur d_file d_size s_flushed hd tl]; auto.
  - (* back to the empty store *)
    rewrite Rsize in Rlen, Rinv, Hds. clear Rsize size. apply Forall2_cons_l in Rsnaps. destruct Rsnaps as (st & fl' & -> & [cs Hsnap] & Hrest). apply Forall2_nil_l in Hrest. subst fl'.
    pose proof Hsnap as (Hroot & _ & _).
    pose proof (root_at_Some_gt _ _ _ Hroot) as Hgt.
    rewrite (revert_to_empty f e) in Hds; [|intros e' He'|exact Hgt].
    2:{ destruct (root_at f e') eqn:Hr; [|reflexivity]. exfalso.
        assert (Hin : In e' [e]) by (apply Rroots; congruence). destruct Hin as [Heq|[]]. lia. }
    cbn [load_all] in Hds. inversion Hds; subst ds' r; clear Hds. split; [reflexivity|].
    constructor; cbn [s_file d_cmpreg s_cmpreg d_cur s_cur d_file d_size s_flushed hd tl]; auto.
    intros e' He'. rewrite root_at_nil in He'. congruence.
  - (* back to the previous root *)
    rewrite Rsize in Rlen, Rinv, Hds. clear Rsize size. apply Forall2_cons_l in Rsnaps. destruct Rsnaps as (st & fl' & -> & [cs Hsnap] & Hrest).
    apply Forall2_cons_l in Hrest. destruct Hrest as (stp & fl'' & -> & [csp Hsnapp] & Hrest').
    pose proof Hsnap as (Hroot & _ & _). pose proof Hsnapp as (Hrootp & _ & _).
    destruct Rdesc as [Hlt Rdesc']. pose proof (Forall_inv Hlt) as Hep. cbv beta in Hep.
    pose proof Rdesc' as [Hltp _].
    rewrite (revert_previous f e _ ep _ Hroot Hrootp Hep) in Hds.
    2:{ intros e' He'. destruct (root_at f e') eqn:Hr; [|reflexivity]. exfalso.
        assert (Hin : In e' (e :: ep :: rest)) by (apply Rroots; congruence).
        destruct Hin as [Heq|[Heq|Hin]]; [lia|lia|].
        rewrite Forall_forall in Hltp. specialize (Hltp _ Hin). lia. }
    set (f' := firstn (Z.to_nat ep) f) in *.
    destruct (revert_reopens f ep _ Hrootp) as [Hbl' _]. fold f' in Hbl'.
    pose proof (root_at_Some_gt _ _ _ Hrootp) as Hgtp. change roots_len with 44 in Hgtp.
    assert (Hag : agree f f' ep) by apply agree_firstn.
    pose proof (snap_stable _ _ _ _ _ Hsnapp Hag) as Hsnapp'.
    rewrite (snap_load _ _ _ _ Hsnapp') in Hds by lia.
    inversion Hds; subst ds' r; clear Hds. split; [reflexivity|].
    destruct (snap_cur _ _ _ _ reg Hsnapp') as [Hc Hi].
    constructor; cbn [s_file d_cmpreg s_cmpreg d_cur s_cur d_file d_size s_flushed hd tl]; auto.
    + apply (snaps_stable f f'); auto. constructor; [exists csp; exact Hsnapp | exact Hrest'].
    + intros x Hx.
      destruct (root_at f' x) as [m|] eqn:Hr; [clear Hx | congruence].
      pose proof (root_at_le_blen _ _ _ Hr) as Hle. rewrite Hbl' in Hle.
      assert (Hin : In x (e :: ep :: rest)).
      { apply Rroots. rewrite <- (root_at_agree f f' x); [congruence|].
        eapply agree_mono; [exact Hag | exact Hle]. }
      destruct Hin as [Heq|Hin]; [lia | exact Hin].
Qed.

(* ================================================================== *)
(* 8. Whole histories                                                  *)

Definition next_ends (o : op) (ds' : dstore) (ends : list Z) : list Z :=
  match o with
  | OFlush => d_size ds' :: ends
  | ORevert => tl ends
  | _ => ends
  end.

Theorem sim_step : forall ds s ends o ds' r s' r',
  R ds s ends -> op_okb ds o = true -> ops_ok (s_cmpreg s) [o] ->
  dstep ds o = (ds', r) -> step s o = (s', r') ->
  r = r' /\ R ds' s' (next_ends o ds' ends).
Proof.
  intros ds s ends o ds' r s' r' HR Hok Hops Hds Hs.
  destruct (is_disk o) eqn:Hd.
  - destruct o; try discriminate Hd; cbn [next_ends].
    + eapply sim_flush; eauto.
    + eapply sim_reopen; eauto.
    + eapply sim_revert; eauto.
  - assert (next_ends o ds' ends = ends) as -> by (destruct o; try discriminate Hd; reflexivity).
    eapply sim_nondisk; eauto.
Qed.

Theorem sim_run : forall ops ds s ends,
  R ds s ends -> ops_ok (s_cmpreg s) ops -> dhist_ok ds ops = true ->
  drun ds ops = run s ops.
Proof.
  induction ops as [|o ops IH]; intros ds s ends HR Hops Hh; [reflexivity|].
  cbn [drun run dhist_ok] in *.
  apply andb_prop in Hh. destruct Hh as [Hok Hh].
  destruct (dstep ds o) as [ds' r] eqn:Hds. destruct (step s o) as [s' r'] eqn:Hs.
  cbn [fst] in Hh.
  destruct (ops_ok_step _ _ _ _ _ Hops Hs) as [Hops1 Hops2].
  destruct (sim_step _ _ _ _ _ _ _ _ HR Hok Hops1 Hds Hs) as [Er HR'].
  subst r'. f_equal. eapply IH; eauto.
Qed.

(* the byte-level store answers exactly as the abstract one ... *)
Theorem dstore_refines_store_exact : forall ops,
  ops_ok [] ops -> history_ok ops -> drun dinit ops = run (init true) ops.
Proof.
  intros ops Hops Hh. apply (sim_run ops dinit (init true) []); [apply R_init | exact Hops | exact Hh].
Qed.

(* ... in particular up to the visit depths *)
Theorem dstore_refines_store : forall ops,
  ops_ok [] ops -> history_ok ops ->
  map oerase (drun dinit ops) = map oerase (run (init true) ops).
Proof. intros ops Hops Hh. rewrite (dstore_refines_store_exact ops Hops Hh). reflexivity. Qed.

(* with StoreRefine.c01_refines_sorted_map: the file-backed store is a sorted map across
   flushes, re-opens and reverts *)
Corollary dstore_refines_sorted_map : forall ops,
  ops_ok [] ops -> history_ok ops ->
  map oerase (drun dinit ops) = map oerase (srun (sinit true) ops).
Proof.
  intros ops Hops Hh. rewrite (dstore_refines_store ops Hops Hh).
  apply c01_refines_sorted_map. exact Hops.
Qed.

(* ================================================================== *)
(* 9. Non-vacuity: an ordinary history satisfies the side conditions   *)

Definition ex_history : list op :=
  [ OColl [97]%N 0; OColl [98]%N 1;
    OSet [97]%N [107; 49]%N (Some [118; 49]%N) 5;
    OSet [98]%N [107; 50]%N (Some [118; 50; 0; 255]%N) 7;
    OFlush;
    OSet [97]%N [107; 51]%N (Some [118; 51]%N) 3;
    ODel [98]%N [107; 50]%N;
    OFlush;
    OReopen;
    OGet [97]%N [107; 51]%N; OGet [98]%N [107; 50]%N;
    ORevert;
    OGet [97]%N [107; 51]%N; OGet [98]%N [107; 50]%N; OGet [97]%N [107; 49]%N;
    ORevert;
    ONames ].

Example ex_history_ok : ops_ok [] ex_history /\ history_ok ex_history.
Proof.
  split.
  - cbn. repeat split; auto.
  - vm_compute. reflexivity.
Qed.

(* what it answers (computed on bytes; by the theorem, also what Store.run answers) *)
Example ex_history_run :
  drun dinit ex_history =
  [ ROk; ROk; ROk; ROk; ROk; ROk; RBool true; ROk; ROk;
    RVal (Some [118; 51]%N); RVal None;
    ROk;
    RVal None; RVal (Some [118; 50; 0; 255]%N); RVal (Some [118; 49]%N);
    ROk;
    RNames [] ].
Proof. vm_compute. reflexivity. Qed.

Example ex_history_refines : drun dinit ex_history = run (init true) ex_history.
Proof. apply dstore_refines_store_exact; apply ex_history_ok. Qed.

(* ================================================================== *)
(* 10. Clause (h4) cannot be dropped: a value that looks like a root   *)
(*     record makes FlushRevert stop at it.                            *)

(* the side conditions without (h4) *)
Fixpoint dhist_ok0 (ds : dstore) (ops : list op) : bool :=
  match ops with
  | [] => true
  | o :: ops' => op_okb0 ds o && dhist_ok0 (fst (dstep ds o)) ops'
  end.

(* the first Flush ends at 63; the value of the item set next is written at 63 + 17 and is
   a complete root record (of an empty store) that says it starts there *)
Definition cex_history : list op :=
  [ OColl [97]%N 0; OFlush;
    OSet [97]%N [107]%N (Some (enc_root [] 80)) 1; OFlush;
    ORevert; ONames ].

Example h4_needed :
  ops_ok [] cex_history /\ dhist_ok0 dinit cex_history = true /\
  drun dinit cex_history = [ROk; ROk; ROk; ROk; ROk; RNames []] /\
  run (init true) cex_history = [ROk; ROk; ROk; ROk; ROk; RNames [[97%N]]].
Proof.
  split; [cbn; auto|]. split; [vm_compute; reflexivity|].
  split; vm_compute; reflexivity.
Qed.
