(* DecItemRead.v — part of the decision theorems (see DecBase.v): each file serves a few properties, so that a change of
   the source breaks only the theorems -- and the properties -- it concerns. *)
From GK Require Import Base Treap Codec Blocks GExpr Generated DecBase.
From Coq Require Import ZArith NArith List String Bool Lia.
Import ListNotations.
Open Scope string_scope.
Open Scope list_scope.
Open Scope Z_scope.

Local Arguments Z.gtb : simpl never.
Local Arguments Z.ltb : simpl never.
Local Arguments Z.leb : simpl never.
Local Arguments Z.geb : simpl never.
Local Arguments Z.eqb : simpl never.
Local Arguments Z.quot : simpl never.
Local Arguments Z.rem : simpl never.
Local Arguments Z.add : simpl never.
Local Arguments Z.sub : simpl never.
Local Arguments Z.of_nat : simpl never.

(* 7. itemLoc.read: an item is (re)read from the file iff it is not cached, or cached without its value while the
   value is asked for (Lazy.v / LazyMut.reads_of); the record is rejected unless length = header + key + value
   (Codec.dec_item) *)
Theorem item_reload_decision :
  exists c, decisions "itemLoc.read" "icur.Val" = [c] /\
    forall cached hasval wv : bool,
      gtrue (upd (upd (upd env0 "icur" (b2z cached)) "icur.Val" (b2z hasval)) "withValue" (b2z wv)) c =
      Some (negb cached || (negb hasval && wv)).
Proof. eexists. split; [vm_compute; reflexivity|]. intros [|] [|] [|]; reflexivity. Qed.

