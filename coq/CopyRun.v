(* CopyRun.v — Store.CopyTo as a HISTORY of the destination store (property C11, on bytes).
   For every source collection in name order: SetCollection(name, comparator), then its items in ascending order with
   SetItem (same key, value, priority), a Flush after every flushEvery-th item of that collection when flushEvery > 0,
   and a closing Flush when flushEvery > 0 (store.go CopyTo).  The destination starts as an empty store on an empty file,
   so the file CopyTo leaves is DStore's file after this history: it is compared byte for byte with the implementation's
   destination file. *)
From GK Require Import Base Treap Store Codec Disk DStore.
From Coq Require Import ZArith List Bool.
Import ListNotations.

Fixpoint copy_items (name : bytes) (items : list item) (fe : nat) (i : nat) : list op :=
  match items with
  | [] => []
  | it :: r =>
    OSet name (ikey it) (Some (ival it)) (iprio it) ::
    (if (Nat.ltb 0 fe) && (Nat.eqb (Nat.modulo (S i) fe) 0) then [OFlush] else []) ++
    copy_items name r fe (S i)
  end.

(* a source collection: its name, its comparator (index into Base.cmp_of), its items in ascending order *)
Definition src_coll := (bytes * nat * list item)%type.

Definition copy_coll (fe : nat) (c : src_coll) : list op :=
  let '(name, cmpid, items) := c in OColl name cmpid :: copy_items name items fe O.

Definition copy_ops (src : list src_coll) (fe : Z) : list op :=
  flat_map (copy_coll (Z.to_nat fe)) src ++ (if (0 <? fe)%Z then [OFlush] else []).

(* the destination file and its store after CopyTo *)
Definition copy_result (src : list src_coll) (fe : Z) : list out * file :=
  (drun dinit (copy_ops src fe), last (dfiles dinit (copy_ops src fe)) []).
