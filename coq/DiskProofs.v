(* DiskProofs.v — Part II: the disk model of Disk.v. *)
From GK Require Import Base Treap TreapSpec Store Codec CodecProofs Disk.
From Coq Require Import Lia ZArith NArith List Bool.
Import ListNotations.
Open Scope Z_scope.

(* ------------------------------------------------------------------ *)
(* definitions *)
Fixpoint persisted (t : tree) : Prop :=
  match t with
  | E => True
  | T nl l il _ _ _ r => nl <> None /\ il <> None /\ persisted l /\ persisted r
  end.

(* the persisted part of t is what the file says; a persisted node has a
   persisted item and persisted children *)
Fixpoint rep (f : file) (t : tree) : Prop :=
  match t with
  | E => True
  | T None l il it nn nb r =>
      rep f l /\ rep f r /\
      (forall q, il = Some q -> plen q = item_loc_len it /\ dec_item f q = Some it)
  | T (Some p) l il it nn nb r =>
      persisted t /\ rep f l /\ rep f r /\ plen p = node_len /\
      dec_node f p = Some (mkNodeRec il (root_loc l) (root_loc r) nn nb) /\
      (forall q, il = Some q -> plen q = item_loc_len it /\ dec_item f q = Some it /\
                                poff q + plen q <= poff p) /\
      (forall q, root_loc l = Some q -> poff q + plen q <= poff p) /\
      (forall q, root_loc r = Some q -> poff q + plen q <= poff p)
  end.

Definition loc_below (o : option ploc) (b : Z) : Prop :=
  match o with Some p => 0 <= poff p /\ poff p + plen p <= b | None => True end.

(* every Some-location occurring in t (node or item) lies in [0, b] *)
Fixpoint below (t : tree) (b : Z) : Prop :=
  match t with
  | E => True
  | T nl l il _ _ _ r => loc_below nl b /\ loc_below il b /\ below l b /\ below r b
  end.

Definition agree (f f' : file) (b : Z) : Prop :=
  forall o len, 0 <= o -> o + len <= b -> read_at f' o len = read_at f o len.

Fixpoint tree_ok (t : tree) : Prop :=
  match t with
  | E => True
  | T _ l _ it nn nb r =>
      item_ok it /\ 0 <= nn < 2 ^ 64 /\ 0 <= nb < 2 ^ 64 /\ tree_ok l /\ tree_ok r
  end.

(* ------------------------------------------------------------------ *)
(* basic facts on agree / below *)
Lemma agree_refl f b : agree f f b.
Proof. intros o len _ _. reflexivity. Qed.

Lemma agree_trans f1 f2 f3 b b' : agree f1 f2 b -> agree f2 f3 b' -> b <= b' -> agree f1 f3 b.
Proof. intros H1 H2 Hb o len Ho Hl. rewrite H2 by lia. now apply H1. Qed.

Lemma agree_mono f f' b b' : agree f f' b -> b' <= b -> agree f f' b'.
Proof. intros H Hb o len Ho Hl. apply H; lia. Qed.

Lemma agree_write_at f s d : 0 <= s <= blen f -> agree f (write_at f s d) s.
Proof. intros H o len Ho Hl. now apply read_write_below. Qed.

Lemma agree_firstn f e : agree f (firstn (Z.to_nat e) f) e.
Proof.
  intros o len Ho Hl. destruct (Z_le_gt_dec 0 e).
  - apply read_at_firstn; lia.
  - destruct (Z_le_gt_dec len 0) as [L|L]; [|lia].
    replace (Z.to_nat e) with 0%nat by lia. cbn [firstn]. unfold read_at.
    destruct (len =? 0); [reflexivity|].
    replace (0 <=? o) with true by (symmetry; apply Z.leb_le; lia).
    replace (o + len <=? blen []) with true by (symmetry; apply Z.leb_le; rewrite blen_nil; lia).
    replace (o + len <=? blen f) with true by (symmetry; apply Z.leb_le; pose proof (blen_nonneg f); lia).
    replace (Z.to_nat len) with 0%nat by lia. reflexivity.
Qed.

Lemma loc_below_mono o b b' : loc_below o b -> b <= b' -> loc_below o b'.
Proof. destruct o; simpl; [lia|trivial]. Qed.

Lemma below_mono t : forall b b', below t b -> b <= b' -> below t b'.
Proof.
  induction t as [|nl l IHl il it nn nb r IHr]; intros b b' H Hb; [exact I|].
  cbn [below] in *. destruct H as (H1 & H2 & H3 & H4).
  repeat split; eauto using loc_below_mono.
Qed.

(* ------------------------------------------------------------------ *)
(* II.4 the backward scan *)
Lemma root_at_low f e : e <= roots_len -> root_at f e = None.
Proof. intros H. unfold root_at. now replace (e <=? roots_len) with true by (symmetry; apply Z.leb_le; lia). Qed.

Lemma root_at_Some_gt f e m : root_at f e = Some m -> roots_len < e.
Proof.
  intros H. destruct (Z_le_gt_dec e roots_len) as [L|L]; [|lia].
  rewrite root_at_low in H by assumption. discriminate.
Qed.

Lemma scan_back_spec : forall fuel f e, (Z.to_nat e < fuel)%nat ->
  match scan_back fuel f e with
  | ScanOutOfFuel => False
  | ScanNone => forall e', e' <= e -> root_at f e' = None
  | ScanFound e1 m => e1 <= e /\ roots_len < e1 /\ root_at f e1 = Some m /\
                      forall e', e1 < e' <= e -> root_at f e' = None
  end.
Proof.
  induction fuel as [|k IH]; intros f e Hf; [lia|].
  cbn [scan_back]. destruct (Z.leb_spec e roots_len) as [L|L].
  - intros e' He'. apply root_at_low. lia.
  - destruct (root_at f e) as [m|] eqn:Er.
    + repeat split; try lia; try assumption.
    + change roots_len with 44 in L.
      specialize (IH f (e - 1)). destruct (scan_back k f (e - 1)) as [| |e1 m].
      * apply IH. lia.
      * intros e' He'. destruct (Z.eq_dec e' e) as [->|N]; [assumption|]. apply IH; lia.
      * destruct IH as (H1 & H2 & H3 & H4); [lia|]. repeat split; try lia; try assumption.
        intros e' He'. destruct (Z.eq_dec e' e) as [->|N]; [assumption|]. apply H4; lia.
Qed.

Lemma scan_spec f size :
  match scan f size with
  | ScanOutOfFuel => False
  | ScanNone => forall e', e' <= size -> root_at f e' = None
  | ScanFound e1 m => e1 <= size /\ roots_len < e1 /\ root_at f e1 = Some m /\
                      forall e', e1 < e' <= size -> root_at f e' = None
  end.
Proof. unfold scan. apply scan_back_spec. lia. Qed.

(* (the hypothesis 0 <= size of STATEMENTS.md is not needed) *)
Theorem scan_total f size : 0 <= size -> scan f size <> ScanOutOfFuel.
Proof. intros _ H. pose proof (scan_spec f size) as S. now rewrite H in S. Qed.

Theorem scan_total' f size : scan f size <> ScanOutOfFuel.
Proof. intros H. pose proof (scan_spec f size) as S. now rewrite H in S. Qed.

Theorem scan_found f size e m : scan f size = ScanFound e m ->
  e <= size /\ roots_len < e /\ root_at f e = Some m /\
  forall e', e < e' <= size -> root_at f e' = None.
Proof. intros H. pose proof (scan_spec f size) as S. now rewrite H in S. Qed.

Theorem scan_none f size : 0 <= size -> scan f size = ScanNone ->
  forall e', e' <= size -> root_at f e' = None.
Proof. intros _ H. pose proof (scan_spec f size) as S. now rewrite H in S. Qed.

Theorem scan_complete f size e m : root_at f e = Some m -> e <= size ->
  (forall e', e < e' <= size -> root_at f e' = None) -> scan f size = ScanFound e m.
Proof.
  intros Hr He Hn. pose proof (scan_spec f size) as S.
  destruct (scan f size) as [| |e1 m1]; [contradiction| |].
  - rewrite S in Hr by assumption. discriminate.
  - destruct S as (S1 & S2 & S3 & S4).
    destruct (Z.lt_trichotomy e e1) as [L|[->|L]].
    + rewrite Hn in S3 by lia. discriminate.
    + rewrite Hr in S3. now inversion S3.
    + rewrite S4 in Hr by lia. discriminate.
Qed.

(* ------------------------------------------------------------------ *)
(* II.5 root_at only reads below e *)
Theorem root_at_agree f f' e : agree f f' e -> root_at f' e = root_at f e.
Proof.
  intros H. unfold root_at. destruct (Z.leb_spec e roots_len) as [L|L]; [reflexivity|].
  change roots_len with 44 in *. change roots_end_len with 24.
  rewrite (H (e - 24) 24) by lia.
  destruct (read_at f (e - 24) 24) as [t|]; [|reflexivity].
  destruct (negb (beq (sub t 12 6) magic_end && beq (sub t 18 6) magic_end)); [reflexivity|].
  cbv zeta.
  destruct (negb _); [reflexivity|].
  rewrite (H (de (sub t 0 8)) (e - de (sub t 0 8) - 24)); [reflexivity|apply de_nonneg|lia].
Qed.

(* ------------------------------------------------------------------ *)
(* II.1 rep only depends on the bytes below the locations of t *)
Lemma dec_item_agree f f' q it b :
  dec_item f q = Some it -> plen q = item_loc_len it -> 0 <= poff q -> poff q + plen q <= b ->
  agree f f' b -> dec_item f' q = Some it.
Proof.
  intros Hd Hl Ho Hb Hag. pose proof (item_loc_len_ge it) as Hge.
  unfold dec_item in *. change item_hdr_len with 16 in *.
  destruct (plen q <? 16); [discriminate|].
  rewrite (Hag (poff q) 16) by lia.
  destruct (read_at f (poff q) 16) as [h|]; [|discriminate].
  cbv zeta in *.
  pose proof (de_nonneg (sub h 4 4)) as Hkl. pose proof (de_nonneg (sub h 8 4)) as Hvl.
  set (kl := de (sub h 4 4)) in *. set (vl := de (sub h 8 4)) in *.
  destruct (negb _); [discriminate|].
  destruct (read_at f (poff q + 16) kl) as [k|] eqn:Ek; [|discriminate].
  destruct (read_at f (poff q + 16 + kl) vl) as [v|] eqn:Ev; [|discriminate].
  apply read_at_blen in Ek as Bk; [|assumption]. apply read_at_blen in Ev as Bv; [|assumption].
  assert (Hit : item_loc_len it = 16 + kl + vl).
  { inversion Hd; subst it. rewrite item_loc_len_eq. cbn [ikey ival]. lia. }
  rewrite (Hag (poff q + 16) kl), Ek by lia.
  rewrite (Hag (poff q + 16 + kl) vl), Ev by lia. exact Hd.
Qed.

Lemma dec_node_agree f f' p nr b :
  dec_node f p = Some nr -> 0 <= poff p -> poff p + plen p <= b ->
  agree f f' b -> dec_node f' p = Some nr.
Proof.
  intros Hd Ho Hb Hag. unfold dec_node in *.
  destruct (Z.eqb_spec (plen p) node_len) as [E|E]; [|discriminate]. cbn [negb] in *.
  rewrite (Hag (poff p) node_len) by lia. exact Hd.
Qed.

Theorem rep_stable f f' t b : rep f t -> below t b -> agree f f' b -> rep f' t.
Proof.
  intros Hrep Hb Hag. revert Hrep Hb.
  induction t as [|nl l IHl il it nn nb r IHr]; intros Hrep Hb; [exact I|].
  destruct nl as [p|]; cbn [rep below loc_below] in *.
  - destruct Hrep as (Hp & Hl & Hr & Hpl & Hdn & Hit & Hll & Hrl).
    destruct Hb as ((Hp0 & Hpb) & Hib & Hlb & Hrb).
    split; [exact Hp|]. split; [auto|]. split; [auto|]. split; [exact Hpl|].
    split; [apply (dec_node_agree f f' p _ b); auto|]. split; [|split; assumption].
    intros q Hq. destruct (Hit q Hq) as (H1 & H2 & H3). subst il. cbn [loc_below] in Hib.
    split; [assumption|]. split; [|assumption]. apply (dec_item_agree f f' q it b); auto; lia.
  - destruct Hrep as (Hl & Hr & Hit). destruct Hb as (_ & Hib & Hlb & Hrb).
    split; [auto|]. split; [auto|].
    intros q Hq. destruct (Hit q Hq) as (H1 & H2). subst il. cbn [loc_below] in Hib.
    split; [assumption|]. apply (dec_item_agree f f' q it b); auto; lia.
Qed.

(* ------------------------------------------------------------------ *)
(* II.3 loading a represented, fully persisted tree gives the tree itself *)
Lemma load_None d f b bud : load d f None b bud = Some (E, bud).
Proof. destruct d; reflexivity. Qed.

Lemma load_rep_gen f : forall t depth budget b,
  rep f t -> persisted t -> (forall p, root_loc t = Some p -> poff p + plen p <= b) ->
  (size t <= budget)%nat -> (height t <= depth)%nat ->
  load depth f (root_loc t) b budget = Some (t, (budget - size t)%nat).
Proof.
  induction t as [|nl l IHl il it nn nb r IHr]; intros depth budget b Hrep Hper Hb Hs Hh.
  - cbn [root_loc size]. rewrite load_None. f_equal. f_equal. lia.
  - cbn [persisted] in Hper. destruct Hper as (Hnl & Hil & Hpl & Hpr).
    destruct nl as [p|]; [|congruence]. destruct il as [q|]; [|congruence].
    cbn [rep] in Hrep. destruct Hrep as (_ & Hl & Hr & Hplen & Hdn & Hit & Hll & Hrl).
    destruct (Hit q eq_refl) as (Hq1 & Hq2 & Hq3).
    cbn [size height] in Hs, Hh.
    destruct depth as [|k]; [lia|]. destruct budget as [|bud]; [lia|].
    cbn [root_loc load].
    replace (poff p + plen p <=? b) with true by (symmetry; apply Z.leb_le; now apply Hb).
    cbn [negb]. rewrite Hdn. cbn [nr_item nr_left nr_right nr_nn nr_nb].
    replace (poff q + plen q <=? poff p) with true by (symmetry; apply Z.leb_le; assumption).
    cbn [negb]. rewrite Hq2.
    rewrite (IHl k bud (poff p)) by (auto; lia).
    rewrite (IHr k (bud - size l)%nat (poff p)) by (auto; lia).
    f_equal. f_equal. cbn [size]. lia.
Qed.

Lemma below_root t b : below t b -> forall p, root_loc t = Some p -> poff p + plen p <= b.
Proof.
  destruct t as [|nl l il it nn nb r]; cbn [root_loc below]; [discriminate|].
  intros (H & _) p ->. apply H.
Qed.

Theorem load_rep f t b depth budget :
  rep f t -> persisted t -> below t b -> (size t <= budget)%nat -> (height t <= depth)%nat ->
  load depth f (root_loc t) b budget = Some (t, (budget - size t)%nat).
Proof. intros Hr Hp Hb. apply load_rep_gen; auto. now apply below_root. Qed.

(* what a successful load returns *)
Lemma load_root_loc : forall d f l b bud t rem, load d f l b bud = Some (t, rem) -> root_loc t = l.
Proof.
  intros d f l b bud t rem H. destruct l as [p|].
  - destruct d as [|k]; [discriminate|]. destruct bud as [|bud]; [discriminate|].
    cbn [load] in H.
    destruct (negb (poff p + plen p <=? b)); [discriminate|].
    destruct (dec_node f p) as [nr|]; [|discriminate].
    destruct (nr_item nr) as [il|]; [|discriminate].
    destruct (negb (poff il + plen il <=? poff p)); [discriminate|].
    destruct (dec_item f il) as [it|]; [|discriminate].
    destruct (load k f (nr_left nr) (poff p) bud) as [[lt b1]|]; [|discriminate].
    destruct (load k f (nr_right nr) (poff p) b1) as [[rt b2]|]; [|discriminate].
    inversion H. reflexivity.
  - rewrite load_None in H. inversion H; reflexivity.
Qed.

Lemma load_persisted : forall d f l b bud t rem, load d f l b bud = Some (t, rem) -> persisted t.
Proof.
  induction d as [|k IH]; intros f l b bud t rem H.
  - destruct l; [discriminate|]. rewrite load_None in H. inversion H. exact I.
  - destruct l as [p|]; [|rewrite load_None in H; inversion H; exact I].
    destruct bud as [|bud]; [discriminate|]. cbn [load] in H.
    destruct (negb (poff p + plen p <=? b)); [discriminate|].
    destruct (dec_node f p) as [nr|]; [|discriminate].
    destruct (nr_item nr) as [il|]; [|discriminate].
    destruct (negb (poff il + plen il <=? poff p)); [discriminate|].
    destruct (dec_item f il) as [it|]; [|discriminate].
    destruct (load k f (nr_left nr) (poff p) bud) as [[lt b1]|] eqn:El; [|discriminate].
    destruct (load k f (nr_right nr) (poff p) b1) as [[rt b2]|] eqn:Er; [|discriminate].
    inversion H; subst. cbn [persisted]. repeat split; try discriminate; eauto.
Qed.

(* heights of represented persisted trees are bounded by the offsets *)
Lemma rep_height f : forall t b, rep f t -> persisted t -> below t b ->
  match root_loc t with
  | Some p => Z.of_nat (height t) * node_len <= poff p + plen p
  | None => height t = 0%nat
  end.
Proof.
  induction t as [|nl l IHl il it nn nb r IHr]; intros b Hrep Hper Hb; [reflexivity|].
  cbn [persisted] in Hper. destruct Hper as (Hnl & Hil & Hpl & Hpr).
  destruct nl as [p|]; [|congruence].
  cbn [rep] in Hrep. destruct Hrep as (_ & Hl & Hr & Hplen & Hdn & Hit & Hll & Hrl).
  cbn [below loc_below] in Hb. destruct Hb as ((Hp0 & Hpb) & _ & Hlb & Hrb).
  specialize (IHl b Hl Hpl Hlb). specialize (IHr b Hr Hpr Hrb).
  cbn [root_loc height]. rewrite Hplen. change node_len with 52 in *.
  assert (Z.of_nat (height l) * 52 <= poff p).
  { destruct (root_loc l) as [ql|]; [specialize (Hll ql eq_refl); lia|lia]. }
  assert (Z.of_nat (height r) * 52 <= poff p).
  { destruct (root_loc r) as [qr|]; [specialize (Hrl qr eq_refl); lia|lia]. }
  lia.
Qed.

Lemma rep_height_le f t b : 0 <= b -> rep f t -> persisted t -> below t b -> Z.of_nat (height t) <= b.
Proof.
  intros H0 Hrep Hper Hb. pose proof (rep_height f t b Hrep Hper Hb) as H.
  destruct (root_loc t) as [p|] eqn:E.
  - pose proof (below_root t b Hb p E). change node_len with 52 in H. lia.
  - lia.
Qed.

Lemma load_size : forall d f l b bud t rem, load d f l b bud = Some (t, rem) -> (size t + rem = bud)%nat.
Proof.
  induction d as [|k IH]; intros f l b bud t rem H.
  - destruct l; [discriminate|]. rewrite load_None in H. inversion H. reflexivity.
  - destruct l as [p|]; [|rewrite load_None in H; inversion H; reflexivity].
    destruct bud as [|bud]; [discriminate|]. cbn [load] in H.
    destruct (negb (poff p + plen p <=? b)); [discriminate|].
    destruct (dec_node f p) as [nr|]; [|discriminate].
    destruct (nr_item nr) as [il|]; [|discriminate].
    destruct (negb (poff il + plen il <=? poff p)); [discriminate|].
    destruct (dec_item f il) as [it|]; [|discriminate].
    destruct (load k f (nr_left nr) (poff p) bud) as [[lt b1]|] eqn:El; [|discriminate].
    destruct (load k f (nr_right nr) (poff p) b1) as [[rt b2]|] eqn:Er; [|discriminate].
    inversion H; subst. apply IH in El, Er. cbn [size]. lia.
Qed.

(* ------------------------------------------------------------------ *)
(* load_all *)
Definition locs_of (cs : list (bytes * tree)) : list (bytes * option ploc) :=
  map (fun nt => (fst nt, root_loc (snd nt))) cs.

Lemma load_all_rep f bound : forall cs,
  0 <= bound <= blen f ->
  Forall (fun nt => rep f (snd nt) /\ persisted (snd nt) /\ below (snd nt) bound /\
                    (size (snd nt) <= S (length f))%nat) cs ->
  load_all f (locs_of cs) bound = Some cs.
Proof.
  intros cs Hb. induction 1 as [|[n t] cs (Hr & Hp & Hbl & Hs) Hcs IH]; [reflexivity|].
  cbn [locs_of map load_all fst snd] in *. fold (locs_of cs). rewrite IH.
  rewrite load_rep; auto.
  pose proof (rep_height_le f t bound (proj1 Hb) Hr Hp Hbl). unfold blen in Hb. lia.
Qed.

Lemma load_all_inv f bound : forall m cs, load_all f m bound = Some cs ->
  m = locs_of cs /\ Forall (fun nt => persisted (snd nt) /\ (size (snd nt) <= S (length f))%nat) cs.
Proof.
  induction m as [|[n p] m IH]; intros cs H.
  - inversion H. split; [reflexivity|constructor].
  - cbn [load_all] in H.
    destruct (load (S (length f)) f p bound (S (length f))) as [[t rem]|] eqn:El; [|discriminate].
    destruct (load_all f m bound) as [r|]; [|discriminate].
    inversion H; subst. destruct (IH r eq_refl) as (-> & Hf).
    cbn [locs_of map fst snd]. split.
    + f_equal. f_equal. symmetry. eapply load_root_loc; eauto.
    + constructor; [|assumption]. cbn [snd]. split; [eapply load_persisted; eauto|].
      apply load_size in El. lia.
Qed.

(* ------------------------------------------------------------------ *)
(* II.6 crash atomicity (C03) *)
Theorem crash_recovers_previous f0 f' e0 m0 :
  scan f0 (blen f0) = ScanFound e0 m0 -> agree f0 f' e0 -> e0 <= blen f' ->
  (forall e', e0 < e' <= blen f' -> root_at f' e' = None) ->
  scan f' (blen f') = ScanFound e0 m0.
Proof.
  intros Hs Hag He Hn. apply scan_found in Hs. destruct Hs as (_ & _ & Hr & _).
  apply scan_complete; auto. now rewrite (root_at_agree f0 f' e0 Hag).
Qed.

(* CHANGED w.r.t. STATEMENTS.md: "every tree in cs is below e0" is not enough.
   (1) dec_item reads the key and value lengths from the record header, not from
       the item's ploc, so an item record may extend beyond its ploc and even
       beyond e0 (see counterexample crash_cex_overrun below); we ask for
       [rep f0 t] (which includes plen q = item_loc_len it).
   (2) load_all f' uses the budget S (length f'), which may be smaller than
       the budget S (length f0) when the file has shared subtrees (see
       crash_cex_budget); we ask for size t <= S (length f')
       (crash_same_trees_grow: automatic when length f0 <= length f'). *)
Theorem crash_same_trees f0 f' e0 m0 cs :
  scan f0 (blen f0) = ScanFound e0 m0 -> agree f0 f' e0 -> e0 <= blen f' ->
  load_all f0 m0 e0 = Some cs ->
  Forall (fun nt => rep f0 (snd nt) /\ below (snd nt) e0 /\ (size (snd nt) <= S (length f'))%nat) cs ->
  load_all f' m0 e0 = Some cs.
Proof.
  intros Hs Hag He Hl Hcs. apply scan_found in Hs. destruct Hs as (_ & Hgt & _ & _).
  change roots_len with 44 in Hgt.
  apply load_all_inv in Hl. destruct Hl as (-> & Hper).
  apply load_all_rep; [lia|].
  rewrite Forall_forall in *. intros nt Hin. destruct (Hcs nt Hin) as (H1 & H2 & H3).
  destruct (Hper nt Hin) as (H4 & _). repeat split; auto.
  eapply rep_stable; eauto.
Qed.

Corollary crash_same_trees_grow f0 f' e0 m0 cs :
  scan f0 (blen f0) = ScanFound e0 m0 -> agree f0 f' e0 -> blen f0 <= blen f' ->
  load_all f0 m0 e0 = Some cs ->
  Forall (fun nt => rep f0 (snd nt) /\ below (snd nt) e0) cs ->
  load_all f' m0 e0 = Some cs.
Proof.
  intros Hs Hag He Hl Hcs. pose proof (scan_found _ _ _ _ Hs) as (Hle & _).
  apply (crash_same_trees f0 f' e0 m0 cs); auto; [lia|].
  pose proof (load_all_inv _ _ _ _ Hl) as (_ & Hsz).
  rewrite Forall_forall in *. intros nt Hin. destruct (Hcs nt Hin) as (H1 & H2).
  destruct (Hsz nt Hin) as (_ & H3). unfold blen in He. repeat split; auto. lia.
Qed.

Theorem crash_decode_store f0 f' e0 m0 cs :
  scan f0 (blen f0) = ScanFound e0 m0 -> agree f0 f' e0 -> e0 <= blen f' ->
  (forall e', e0 < e' <= blen f' -> root_at f' e' = None) ->
  load_all f0 m0 e0 = Some cs ->
  Forall (fun nt => rep f0 (snd nt) /\ below (snd nt) e0 /\ (size (snd nt) <= S (length f'))%nat) cs ->
  decode_store f0 = OpOk e0 cs /\ decode_store f' = OpOk e0 cs.
Proof.
  intros Hs Hag He Hn Hl Hcs.
  pose proof (scan_found _ _ _ _ Hs) as (Hle & Hgt & _). change roots_len with 44 in Hgt.
  pose proof (crash_recovers_previous _ _ _ _ Hs Hag He Hn) as Hs'.
  pose proof (crash_same_trees _ _ _ _ _ Hs Hag He Hl Hcs) as Hl'.
  unfold decode_store.
  replace (blen f0 =? 0) with false by (symmetry; apply Z.eqb_neq; lia).
  replace (blen f' =? 0) with false by (symmetry; apply Z.eqb_neq; lia).
  rewrite Hs, Hs', Hl, Hl'. split; reflexivity.
Qed.

Theorem no_roots_stays_none f' :
  (forall e', e' <= blen f' -> root_at f' e' = None) -> 0 < blen f' -> decode_store f' = OpNoRoots.
Proof.
  intros Hn Hpos. unfold decode_store.
  replace (blen f' =? 0) with false by (symmetry; apply Z.eqb_neq; lia).
  pose proof (scan_spec f' (blen f')) as S.
  destruct (scan f' (blen f')) as [| |e m]; [contradiction|reflexivity|].
  destruct S as (S1 & _ & S3 & _). rewrite Hn in S3 by assumption. discriminate.
Qed.

(* ------------------------------------------------------------------ *)
(* II.2 write_tree *)

(* the tree without its locations: what Flush must preserve *)
Fixpoint erase (t : tree) : tree :=
  match t with
  | E => E
  | T _ l _ it nn nb r => T None (erase l) None it nn nb (erase r)
  end.

Lemma erase_elems t : elems (erase t) = elems t.
Proof. induction t as [|nl l IHl il it nn nb r IHr]; cbn [erase elems]; congruence. Qed.
Lemma erase_shape t : shape_of (erase t) = shape_of t.
Proof. induction t as [|nl l IHl il it nn nb r IHr]; cbn [erase shape_of]; congruence. Qed.
Lemma erase_num t : num (erase t) = num t.
Proof. destruct t; reflexivity. Qed.
Lemma erase_nby t : nby (erase t) = nby t.
Proof. destruct t; reflexivity. Qed.
Lemma erase_size t : size (erase t) = size t.
Proof. induction t as [|nl l IHl il it nn nb r IHr]; cbn [erase size]; congruence. Qed.
Lemma erase_tree_ok t : tree_ok (erase t) <-> tree_ok t.
Proof. induction t as [|nl l IHl il it nn nb r IHr]; cbn [erase tree_ok]; tauto. Qed.

Lemma erase_eq_elems t t' : erase t' = erase t -> elems t' = elems t.
Proof. intros H. rewrite <- (erase_elems t'), H. apply erase_elems. Qed.
Lemma erase_eq_shape t t' : erase t' = erase t -> shape_of t' = shape_of t.
Proof. intros H. rewrite <- (erase_shape t'), H. apply erase_shape. Qed.
Lemma erase_eq_num t t' : erase t' = erase t -> num t' = num t.
Proof. intros H. rewrite <- (erase_num t'), H. apply erase_num. Qed.
Lemma erase_eq_nby t t' : erase t' = erase t -> nby t' = nby t.
Proof. intros H. rewrite <- (erase_nby t'), H. apply erase_nby. Qed.
Lemma erase_eq_size t t' : erase t' = erase t -> size t' = size t.
Proof. intros H. rewrite <- (erase_size t'), H. apply erase_size. Qed.
Lemma erase_eq_tree_ok t t' : erase t' = erase t -> tree_ok t -> tree_ok t'.
Proof. intros H Ht. apply erase_tree_ok. rewrite H. now apply erase_tree_ok. Qed.

(* after write_items every item of an unpersisted node has a location *)
Fixpoint located (t : tree) : Prop :=
  match t with
  | E => True
  | T None l il _ _ _ r => il <> None /\ located l /\ located r
  | T (Some _) _ _ _ _ _ _ => True
  end.

Lemma write_items_mono : forall t f size f1 s1 t1,
  write_items f size t = (f1, s1, t1) -> size <= s1.
Proof.
  induction t as [|nl l IHl il it nn nb r IHr]; intros f size f1 s1 t1 H; cbn [write_items] in H.
  - inversion H. lia.
  - destruct nl as [p|]; [inversion H; lia|].
    destruct (write_items f size l) as [[fa sa] la] eqn:El. apply IHl in El.
    pose proof (item_loc_len_ge it).
    destruct il as [q|].
    + destruct (write_items fa sa r) as [[fb sb] rb] eqn:Er. apply IHr in Er. inversion H. lia.
    + destruct (write_items (write_at fa sa (enc_item it)) (sa + item_loc_len it) r)
        as [[fb sb] rb] eqn:Er. apply IHr in Er. inversion H. lia.
Qed.

Lemma write_nodes_mono : forall t f size f1 s1 t1,
  write_nodes f size t = (f1, s1, t1) -> size <= s1.
Proof.
  induction t as [|nl l IHl il it nn nb r IHr]; intros f size f1 s1 t1 H; cbn [write_nodes] in H.
  - inversion H. lia.
  - destruct nl as [p|]; [inversion H; lia|].
    destruct (write_nodes f size l) as [[fa sa] la] eqn:El. apply IHl in El.
    destruct (write_nodes fa sa r) as [[fb sb] rb] eqn:Er. apply IHr in Er.
    inversion H. change node_len with 52. lia.
Qed.

(* appending a record at the current size *)
Lemma append_facts f s d : 0 <= s <= blen f ->
  agree f (write_at f s d) s /\ s + blen d <= blen (write_at f s d) /\
  (blen f = s -> blen (write_at f s d) = s + blen d) /\
  read_at (write_at f s d) s (blen d) = Some d.
Proof.
  intros H. pose proof (blen_write_at f s d H). pose proof (blen_nonneg d).
  repeat split; try lia.
  - now apply agree_write_at.
  - now apply read_write_same.
Qed.

Definition w_post (f : file) (size : Z) (t : tree) (f1 : file) (s1 : Z) (t1 : tree) : Prop :=
  agree f f1 size /\ size <= s1 <= blen f1 /\ (blen f = size -> blen f1 = s1) /\
  rep f1 t1 /\ below t1 s1 /\ erase t1 = erase t.

Lemma write_items_spec : forall t f size f1 s1 t1,
  rep f t -> below t size -> 0 <= size <= blen f -> tree_ok t ->
  write_items f size t = (f1, s1, t1) ->
  w_post f size t f1 s1 t1 /\ located t1.
Proof.
  induction t as [|nl l IHl il it nn nb r IHr]; intros f size f1 s1 t1 Hrep Hbl Hsz Hok H;
    cbn [write_items] in H.
  - inversion H; subst. unfold w_post. repeat split; auto using agree_refl; lia.
  - destruct nl as [p|].
    { inversion H; subst. unfold w_post. split; [|exact I].
      split; [apply agree_refl|]. split; [lia|]. split; [auto|]. split; [exact Hrep|].
      split; [exact Hbl|reflexivity]. }
    cbn [rep] in Hrep. destruct Hrep as (Hl & Hr & Hit).
    cbn [below] in Hbl. destruct Hbl as (_ & Hib & Hlb & Hrb).
    cbn [tree_ok] in Hok. destruct Hok as (Hiok & Hnn & Hnb & Hlok & Hrok).
    destruct (write_items f size l) as [[fa sa] la] eqn:El.
    pose proof (write_items_mono _ _ _ _ _ _ El) as Hm1.
    destruct (IHl _ _ _ _ _ Hl Hlb Hsz Hlok El) as ((A1 & A2 & A3 & A4 & A5 & A6) & A7).
    pose proof (item_loc_len_ge it) as Hge.
    destruct il as [q|].
    + destruct (write_items fa sa r) as [[fb sb] rb] eqn:Er. inversion H; subst; clear H.
      pose proof (write_items_mono _ _ _ _ _ _ Er) as Hm2.
      assert (Hr' : rep fa r) by (eapply rep_stable; eauto).
      assert (Hrb' : below r sa) by (eapply below_mono; eauto; lia).
      destruct (IHr _ _ _ _ _ Hr' Hrb' ltac:(lia) Hrok Er) as ((B1 & B2 & B3 & B4 & B5 & B6) & B7).
      assert (Hag : agree f f1 size) by (eapply agree_trans; eauto; lia).
      split.
      * unfold w_post. split; [exact Hag|]. split; [lia|]. split; [auto|].
        split; [|split].
        -- cbn [rep]. split; [eapply rep_stable; eauto|]. split; [exact B4|].
           intros q' Hq'. inversion Hq'; subst q'. destruct (Hit q eq_refl) as (Q1 & Q2).
           split; [exact Q1|]. cbn [loc_below] in Hib.
           apply (dec_item_agree f f1 q it size); auto; lia.
        -- cbn [below]. split; [exact I|]. split; [eapply loc_below_mono; eauto; lia|].
           split; [eapply below_mono; eauto; lia|exact B5].
        -- cbn [erase]. now rewrite A6, B6.
      * cbn [located]. split; [discriminate|]. split; assumption.
    + destruct (write_items (write_at fa sa (enc_item it)) (sa + item_loc_len it) r)
        as [[fb sb] rb] eqn:Er. inversion H; subst; clear H.
      pose proof (write_items_mono _ _ _ _ _ _ Er) as Hm2.
      destruct (append_facts fa sa (enc_item it) ltac:(lia)) as (W1 & W2 & W3 & W4).
      rewrite blen_enc_item in W2, W3, W4.
      set (f2 := write_at fa sa (enc_item it)) in *.
      assert (Hag2 : agree f f2 size) by (eapply agree_trans; eauto; lia).
      assert (Hr' : rep f2 r) by (eapply rep_stable; eauto).
      assert (Hrb' : below r (sa + item_loc_len it)) by (eapply below_mono; eauto; lia).
      destruct (IHr _ _ _ _ _ Hr' Hrb' ltac:(lia) Hrok Er) as ((B1 & B2 & B3 & B4 & B5 & B6) & B7).
      assert (Hag : agree f f1 size) by (eapply agree_trans; eauto; lia).
      assert (Hd2 : dec_item f2 (mkPloc sa (item_loc_len it)) = Some it)
        by (apply dec_item_enc; auto; lia).
      split.
      * unfold w_post. split; [exact Hag|]. split; [lia|]. split; [intros; apply B3; apply W3; auto|].
        split; [|split].
        -- cbn [rep]. split; [apply (rep_stable fa f1 la sa); auto; eapply agree_trans; eauto; lia|].
           split; [exact B4|].
           intros q' Hq'. inversion Hq'; subst q'. cbn [plen]. split; [reflexivity|].
           apply (dec_item_agree f2 f1 _ it (sa + item_loc_len it)); cbn [poff plen]; auto; lia.
        -- cbn [below loc_below poff plen]. split; [exact I|]. split; [lia|].
           split; [eapply below_mono; eauto; lia|exact B5].
        -- cbn [erase]. now rewrite A6, B6.
      * cbn [located]. split; [discriminate|]. split; assumption.
Qed.

Lemma root_loc_ok f t b : rep f t -> below t b -> b < two63 -> oploc_ok (root_loc t).
Proof.
  intros Hrep Hb Hlt. destruct t as [|nl l il it nn nb r]; [exact I|].
  destruct nl as [p|]; [|exact I]. cbn [root_loc oploc_ok].
  cbn [rep] in Hrep. destruct Hrep as (_ & _ & _ & Hpl & _).
  cbn [below loc_below] in Hb. destruct Hb as ((H0 & H1) & _).
  unfold ploc_ok. rewrite Hpl in *. change node_len with 52 in *. rewrite two32_eq. lia.
Qed.

Lemma write_nodes_spec : forall t f size f1 s1 t1,
  rep f t -> below t size -> located t -> 0 <= size <= blen f -> tree_ok t ->
  write_nodes f size t = (f1, s1, t1) -> s1 < two63 ->
  w_post f size t f1 s1 t1 /\ persisted t1.
Proof.
  induction t as [|nl l IHl il it nn nb r IHr]; intros f size f1 s1 t1 Hrep Hbl Hloc Hsz Hok H H63;
    cbn [write_nodes] in H.
  - inversion H; subst. unfold w_post. repeat split; auto using agree_refl; lia.
  - destruct nl as [p|].
    { inversion H; subst. unfold w_post. split.
      - split; [apply agree_refl|]. split; [lia|]. split; [auto|]. split; [exact Hrep|].
        split; [exact Hbl|reflexivity].
      - cbn [rep] in Hrep. apply Hrep. }
    cbn [rep] in Hrep. destruct Hrep as (Hl & Hr & Hit).
    cbn [below] in Hbl. destruct Hbl as (_ & Hib & Hlb & Hrb).
    cbn [located] in Hloc. destruct Hloc as (Hil & Hlloc & Hrloc).
    cbn [tree_ok] in Hok. destruct Hok as (Hiok & Hnn & Hnb & Hlok & Hrok).
    destruct (write_nodes f size l) as [[fa sa] la] eqn:El.
    destruct (write_nodes fa sa r) as [[fb sb] rb] eqn:Er.
    inversion H; subst; clear H.
    pose proof (write_nodes_mono _ _ _ _ _ _ El) as Hm1.
    pose proof (write_nodes_mono _ _ _ _ _ _ Er) as Hm2.
    change node_len with 52 in H63.
    destruct (IHl _ _ _ _ _ Hl Hlb Hlloc Hsz Hlok El ltac:(lia)) as ((A1 & A2 & A3 & A4 & A5 & A6) & A7).
    assert (Hr' : rep fa r) by (eapply rep_stable; eauto).
    assert (Hrb' : below r sa) by (eapply below_mono; eauto; lia).
    destruct (IHr _ _ _ _ _ Hr' Hrb' Hrloc ltac:(lia) Hrok Er ltac:(lia)) as ((B1 & B2 & B3 & B4 & B5 & B6) & B7).
    set (d := enc_node il (root_loc la) (root_loc rb) nn nb) in *.
    destruct (append_facts fb sb d ltac:(lia)) as (W1 & W2 & W3 & W4).
    assert (Hbd : blen d = 52) by (subst d; apply blen_enc_node).
    rewrite Hbd in W2, W3, W4.
    set (f' := write_at fb sb d) in *.
    assert (Hagb : agree f fb size) by (eapply agree_trans; eauto; lia).
    assert (Hag : agree f f' size) by (eapply agree_trans; eauto; lia).
    destruct il as [q|]; [|congruence]. destruct (Hit q eq_refl) as (Q1 & Q2).
    cbn [loc_below] in Hib.
    assert (Hper : persisted (T (Some (mkPloc sb 52)) la (Some q) it nn nb rb)).
    { cbn [persisted]. repeat split; try discriminate; assumption. }
    assert (Hdn : dec_node f' (mkPloc sb node_len) =
                  Some (mkNodeRec (Some q) (root_loc la) (root_loc rb) nn nb)).
    { apply dec_node_enc; auto; try lia.
      - cbn [oploc_ok]. unfold ploc_ok. destruct Hiok as (_ & _ & Hi32 & _).
        pose proof (item_loc_len_ge it). rewrite Q1. rewrite two63_eq in *. lia.
      - apply (root_loc_ok fa la sa); auto. lia.
      - apply (root_loc_ok fb rb sb); auto. lia. }
    split; [|exact Hper].
    unfold w_post. split; [exact Hag|]. change node_len with 52. split; [lia|].
    split; [intros; rewrite W3; auto|]. split; [|split].
    + cbn [rep]. split; [exact Hper|].
      split; [apply (rep_stable fa f' la sa); auto; eapply agree_trans; eauto; lia|].
      split; [apply (rep_stable fb f' rb sb); auto|].
      split; [reflexivity|]. split; [exact Hdn|]. cbn [poff plen].
      split; [|split].
      * intros q' Hq'. inversion Hq'; subst q'. split; [exact Q1|]. split; [|lia].
        apply (dec_item_agree f f' q it size); auto; lia.
      * intros ql Hql. pose proof (below_root _ _ A5 ql Hql). lia.
      * intros qr Hqr. pose proof (below_root _ _ B5 qr Hqr). lia.
    + cbn [below loc_below poff plen]. split; [lia|]. split; [lia|].
      split; eapply below_mono; eauto; lia.
    + cbn [erase]. now rewrite A6, B6.
Qed.

Lemma w_post_trans f size t f1 s1 t1 f2 s2 t2 :
  w_post f size t f1 s1 t1 -> w_post f1 s1 t1 f2 s2 t2 -> w_post f size t f2 s2 t2.
Proof.
  intros (A1 & A2 & A3 & A4 & A5 & A6) (B1 & B2 & B3 & B4 & B5 & B6).
  unfold w_post. split; [eapply agree_trans; eauto; lia|]. split; [lia|]. split; [auto|].
  split; [assumption|]. split; [assumption|congruence].
Qed.

Lemma write_tree_post f size t f' size' t' :
  rep f t -> below t size -> 0 <= size <= blen f -> tree_ok t -> size' < two63 ->
  write_tree f size t = (f', size', t') ->
  w_post f size t f' size' t' /\ persisted t'.
Proof.
  intros Hrep Hbl Hsz Hok H63 H. unfold write_tree in H.
  destruct (write_items f size t) as [[f1 s1] t1] eqn:E1.
  destruct (write_items_spec _ _ _ _ _ _ Hrep Hbl Hsz Hok E1) as (P1 & L1).
  pose proof P1 as (A1 & A2 & A3 & A4 & A5 & A6).
  destruct (write_nodes_spec _ _ _ _ _ _ A4 A5 L1 ltac:(lia) (erase_eq_tree_ok _ _ A6 Hok) H H63)
    as (P2 & Hper).
  split; [eapply w_post_trans; eauto|exact Hper].
Qed.

(* The bound of STATEMENTS.md is instantiated as: final size < two63.  The optional
   last conjunct is given as: if the file had no bytes beyond size, neither has f'. *)
Theorem write_tree_spec f size t f' size' t' :
  rep f t -> below t size -> 0 <= size <= blen f -> tree_ok t -> size' < two63 ->
  write_tree f size t = (f', size', t') ->
  agree f f' size /\ size <= size' /\ size' <= blen f' /\ persisted t' /\ rep f' t' /\ below t' size' /\
  elems t' = elems t /\ shape_of t' = shape_of t /\ num t' = num t /\ nby t' = nby t /\
  (blen f = size -> blen f' = size').
Proof.
  intros Hrep Hbl Hsz Hok H63 H.
  destruct (write_tree_post _ _ _ _ _ _ Hrep Hbl Hsz Hok H63 H) as ((A1 & A2 & A3 & A4 & A5 & A6) & Hper).
  repeat split; try lia; auto using erase_eq_elems, erase_eq_shape, erase_eq_num, erase_eq_nby.
Qed.

(* ------------------------------------------------------------------ *)
(* II.7 durability of Flush (C02) *)
Definition tmap (cs : colls) : list (bytes * tree) :=
  map (fun nc => (fst nc, c_tree (snd nc))) cs.

Definition coll_ok (f : file) (size : Z) (nc : bytes * coll) : Prop :=
  name_ok (fst nc) /\ rep f (c_tree (snd nc)) /\ below (c_tree (snd nc)) size /\
  tree_ok (c_tree (snd nc)).

Definition coll_post (f' : file) (s' : Z) (nc nc' : bytes * coll) : Prop :=
  fst nc' = fst nc /\ c_cmp (snd nc') = c_cmp (snd nc) /\
  persisted (c_tree (snd nc')) /\ rep f' (c_tree (snd nc')) /\ below (c_tree (snd nc')) s' /\
  erase (c_tree (snd nc')) = erase (c_tree (snd nc)).

Lemma coll_ok_stable f f' size size' nc :
  coll_ok f size nc -> agree f f' size -> size <= size' -> coll_ok f' size' nc.
Proof.
  intros (H1 & H2 & H3 & H4) Hag Hle. repeat split; auto.
  - eapply rep_stable; eauto.
  - eapply below_mono; eauto.
Qed.

Lemma coll_post_stable f f' s s' nc nc' :
  coll_post f s nc nc' -> agree f f' s -> s <= s' -> coll_post f' s' nc nc'.
Proof.
  intros (H1 & H2 & H3 & H4 & H5 & H6) Hag Hle. repeat split; auto.
  - eapply rep_stable; eauto.
  - eapply below_mono; eauto.
Qed.

Lemma write_tree_mono f size t f' s' t' : write_tree f size t = (f', s', t') -> size <= s'.
Proof.
  unfold write_tree. destruct (write_items f size t) as [[f1 s1] t1] eqn:E1. intros E2.
  apply write_items_mono in E1. apply write_nodes_mono in E2. lia.
Qed.

Lemma write_colls_mono : forall cs f size f' s' cs',
  write_colls f size cs = (f', s', cs') -> size <= s'.
Proof.
  induction cs as [|[n c] cs IH]; intros f size f' s' cs' H; cbn [write_colls] in H.
  - inversion H. lia.
  - destruct (write_tree f size (c_tree c)) as [[f1 s1] t'] eqn:E1.
    destruct (write_colls f1 s1 cs) as [[f2 s2] cs2] eqn:E2.
    inversion H; subst. apply write_tree_mono in E1. apply IH in E2. lia.
Qed.

Lemma write_colls_spec : forall cs f size f' s' cs',
  Forall (coll_ok f size) cs -> 0 <= size <= blen f ->
  write_colls f size cs = (f', s', cs') -> s' < two63 ->
  agree f f' size /\ size <= s' <= blen f' /\ (blen f = size -> blen f' = s') /\
  Forall2 (coll_post f' s') cs cs'.
Proof.
  induction cs as [|[n c] cs IH]; intros f size f' s' cs' Hok Hsz H H63; cbn [write_colls] in H.
  - inversion H; subst. repeat split; auto using agree_refl; try lia.
  - destruct (write_tree f size (c_tree c)) as [[f1 s1] t'] eqn:E1.
    destruct (write_colls f1 s1 cs) as [[f2 s2] cs2] eqn:E2.
    inversion H; subst; clear H.
    inversion Hok as [|? ? Hc Hcs]; subst.
    destruct Hc as (C1 & C2 & C3 & C4). cbn [fst snd] in *.
    pose proof (write_colls_mono _ _ _ _ _ _ E2) as Hm2.
    assert (H1' : s1 < two63) by lia.
    destruct (write_tree_post _ _ _ _ _ _ C2 C3 Hsz C4 H1' E1)
      as ((A1 & A2 & A3 & A4 & A5 & A6) & Hper).
    assert (Hcs' : Forall (coll_ok f1 s1) cs).
    { eapply Forall_impl; [|exact Hcs]. intros nc Hnc. eapply coll_ok_stable; eauto. lia. }
    destruct (IH _ _ _ _ _ Hcs' ltac:(lia) E2 H63) as (B1 & B2 & B3 & B4).
    split; [eapply agree_trans; eauto; lia|]. split; [lia|]. split; [auto|].
    constructor; [|exact B4].
    eapply (coll_post_stable f1 _ s1); [|eassumption|lia].
    unfold coll_post. cbn [fst snd c_cmp c_tree]. repeat split; auto.
Qed.

Lemma Forall2_imp {A B} (P Q : A -> B -> Prop) l l' :
  (forall a b, P a b -> Q a b) -> Forall2 P l l' -> Forall2 Q l l'.
Proof. intros H. induction 1; constructor; auto. Qed.

Lemma root_map_locs cs : root_map cs = locs_of (tmap cs).
Proof. unfold root_map, locs_of, tmap. rewrite map_map. reflexivity. Qed.

Lemma coll_post_entry_ok f' s' cs cs' :
  Forall (fun nc => name_ok (fst nc)) cs -> Forall2 (coll_post f' s') cs cs' -> s' < two63 ->
  Forall entry_ok (root_map cs').
Proof.
  intros Hn H2 H63. revert Hn. induction H2 as [|nc nc' cs cs' Hp H2 IH]; intros Hn; [constructor|].
  inversion Hn; subst. cbn [root_map map]. constructor; [|now apply IH].
  destruct Hp as (P1 & P2 & P3 & P4 & P5 & P6). unfold entry_ok. rewrite P1. split; [assumption|].
  destruct (c_tree (snd nc')) as [|nl l il it nn nb r]; [exact I|].
  cbn [root_loc]. destruct nl as [p|]; [|exact I].
  cbn [rep] in P4. destruct P4 as (_ & _ & _ & Hpl & _).
  cbn [below loc_below] in P5. destruct P5 as ((Hq0 & Hq1) & _).
  rewrite Hpl in *. change node_len with 52 in *. rewrite two63_eq in H63. lia.
Qed.

Lemma coll_post_contents f' s' cs cs' : Forall2 (coll_post f' s') cs cs' ->
  contents (tmap cs') = map (fun nc => (fst nc, elems (c_tree (snd nc)))) cs.
Proof.
  induction 1 as [|nc nc' cs cs' Hp H2 IH]; [reflexivity|].
  unfold contents, tmap in *. cbn [map fst snd]. rewrite IH. f_equal.
  destruct Hp as (P1 & _ & _ & _ & _ & P6). rewrite P1. f_equal. now apply erase_eq_elems.
Qed.

Lemma coll_post_loadable (f' : file) s' cs cs' :
  Forall2 (coll_post f' s') cs cs' ->
  Forall (fun nc => (size (c_tree (snd nc)) <= S (length f'))%nat) cs ->
  Forall (fun nt => rep f' (snd nt) /\ persisted (snd nt) /\ below (snd nt) s' /\
                    (size (snd nt) <= S (length f'))%nat) (tmap cs').
Proof.
  induction 1 as [|nc nc' cs cs' Hp H2 IH]; intros Hs; [constructor|].
  inversion Hs; subst. cbn [tmap map]. constructor; [|now apply IH].
  destruct Hp as (P1 & P2 & P3 & P4 & P5 & P6). cbn [snd]. repeat split; auto.
  rewrite (erase_eq_size _ _ P6). assumption.
Qed.

(* CHANGED w.r.t. STATEMENTS.md:
   - the size bound is "size' < two63" and "root record shorter than two32" (needed by the encoders);
   - ADDED hypothesis: every tree has at most S (length f') nodes.  decode_store loads each
     tree with a budget of S (length f') node records; [rep] does not exclude files in which
     node records are shared (a DAG), whose unfolding may have more nodes than the file has
     bytes (counterexample flush_cex_budget below).  Sufficient conditions are given by
     size_le_offsets / flush_decodes_nodup below. *)
Theorem flush_decodes f size cs f' size' cs' :
  Forall (coll_ok f size) cs -> 0 <= size <= blen f ->
  flush_bytes f size cs = (f', size', cs') ->
  size' < two63 -> roots_len + blen (enc_json (root_map cs')) < two32 ->
  blen f' = size' ->
  Forall (fun nc => (Treap.size (c_tree (snd nc)) <= S (length f'))%nat) cs ->
  decode_store f' = OpOk size' (tmap cs') /\
  contents (tmap cs') = map (fun nc => (fst nc, elems (c_tree (snd nc)))) cs /\
  agree f f' size.
Proof.
  intros Hok Hsz H H63 H32 Hbl Hsize. unfold flush_bytes in H.
  destruct (write_colls f size cs) as [[f1 s1] cs1] eqn:E.
  revert H63 H32 Hbl Hsize. inversion H; subst f' size' cs'; clear H. intros H63 H32 Hbl Hsize.
  set (r := enc_root (root_map cs1) s1) in *.
  assert (Hbr : blen r = roots_len + blen (enc_json (root_map cs1))) by apply blen_enc_root.
  pose proof (blen_nonneg (enc_json (root_map cs1))) as Hj. change roots_len with 44 in *.
  destruct (write_colls_spec _ _ _ _ _ _ Hok Hsz E ltac:(lia)) as (A1 & A2 & A3 & A4).
  destruct (append_facts f1 s1 r ltac:(lia)) as (W1 & W2 & W3 & W4).
  set (f' := write_at f1 s1 r) in *.
  assert (Hnames : Forall (fun nc => name_ok (fst nc)) cs).
  { eapply Forall_impl; [|exact Hok]. intros nc Hnc. apply Hnc. }
  assert (Hentries : Forall entry_ok (root_map cs1)) by (eapply coll_post_entry_ok; eauto; lia).
  assert (Hroot : root_at f' (s1 + blen r) = Some (root_map cs1)).
  { apply root_at_enc; auto; try lia. fold r. rewrite Hbr. exact H32. }
  assert (Hscan : scan f' (blen f') = ScanFound (s1 + blen r) (root_map cs1)).
  { rewrite Hbl. apply scan_complete; auto; [lia|]. intros e' He'. lia. }
  assert (Hload : load_all f' (root_map cs1) (s1 + blen r) = Some (tmap cs1)).
  { rewrite root_map_locs. apply load_all_rep; [lia|].
    apply (coll_post_loadable f' (s1 + blen r) cs cs1); [|exact Hsize].
    eapply Forall2_imp; [|exact A4]. intros nc nc' Hp.
    apply (coll_post_stable f1 f' s1); auto. lia. }
  split; [|split].
  - unfold decode_store. replace (blen f' =? 0) with false by (symmetry; apply Z.eqb_neq; lia).
    rewrite Hscan, Hload. reflexivity.
  - eapply coll_post_contents; eauto.
  - eapply agree_trans; eauto. lia.
Qed.

(* no junk beyond: if the store size is the file length before, it is after *)
Lemma flush_no_junk f size cs f' size' cs' :
  Forall (coll_ok f size) cs -> 0 <= size <= blen f ->
  flush_bytes f size cs = (f', size', cs') -> size' < two63 ->
  blen f = size -> blen f' = size'.
Proof.
  intros Hok Hsz H H63 Hbl. unfold flush_bytes in H.
  destruct (write_colls f size cs) as [[f1 s1] cs1] eqn:E.
  revert H63 Hbl. inversion H; subst f' size' cs'; clear H. intros H63 Hbl.
  set (r := enc_root (root_map cs1) s1) in *. pose proof (blen_nonneg r).
  destruct (write_colls_spec _ _ _ _ _ _ Hok Hsz E ltac:(lia)) as (A1 & A2 & A3 & A4).
  destruct (append_facts f1 s1 r ltac:(lia)) as (W1 & W2 & W3 & W4). auto.
Qed.

(* ------------------------------------------------------------------ *)
(* II.8 FlushRevert (C08) *)
Theorem revert_total f size :
  scan f (if roots_len <? size then size - 1 else size) <> ScanOutOfFuel.
Proof. apply scan_total'. Qed.

Theorem revert_previous f e_k m_k e_prev m_prev :
  root_at f e_k = Some m_k -> root_at f e_prev = Some m_prev -> e_prev < e_k ->
  (forall e', e_prev < e' < e_k -> root_at f e' = None) ->
  revert_bytes f e_k = (firstn (Z.to_nat e_prev) f, e_prev, m_prev).
Proof.
  intros Hk Hp Hlt Hn. unfold revert_bytes.
  apply root_at_Some_gt in Hk.
  replace (roots_len <? e_k) with true by (symmetry; apply Z.ltb_lt; lia).
  rewrite (scan_complete f (e_k - 1) e_prev m_prev); auto; [lia|].
  intros e' He'. apply Hn. lia.
Qed.

Theorem revert_to_empty f e_k :
  (forall e', e' < e_k -> root_at f e' = None) -> roots_len < e_k ->
  revert_bytes f e_k = ([], 0, []).
Proof.
  intros Hn Hlt. unfold revert_bytes.
  replace (roots_len <? e_k) with true by (symmetry; apply Z.ltb_lt; lia).
  pose proof (scan_spec f (e_k - 1)) as S.
  destruct (scan f (e_k - 1)) as [| |e m]; try reflexivity.
  destruct S as (S1 & _ & S3 & _). rewrite Hn in S3 by lia. discriminate.
Qed.

(* the truncated file re-opens to the same root *)
Theorem revert_root_at f e : root_at (firstn (Z.to_nat e) f) e = root_at f e.
Proof. apply root_at_agree. apply agree_firstn. Qed.

Lemma root_at_le_blen f e m : root_at f e = Some m -> e <= blen f.
Proof.
  intros H. pose proof (root_at_Some_gt _ _ _ H) as Hgt. unfold root_at in H.
  replace (e <=? roots_len) with false in H by (symmetry; apply Z.leb_gt; lia).
  destruct (read_at f (e - roots_end_len) roots_end_len) as [t|] eqn:Er; [|discriminate].
  apply read_at_inv in Er. change roots_end_len with 24 in Er. destruct Er as (_ & [Er|Er]); lia.
Qed.

Theorem revert_reopens f e m :
  root_at f e = Some m ->
  let f' := firstn (Z.to_nat e) f in blen f' = e /\ scan f' (blen f') = ScanFound e m.
Proof.
  intros H f'. pose proof (root_at_le_blen _ _ _ H) as Hle.
  pose proof (root_at_Some_gt _ _ _ H) as Hgt. change roots_len with 44 in Hgt.
  assert (Hb : blen f' = e).
  { subst f'. unfold blen in *. rewrite firstn_length. lia. }
  split; [exact Hb|]. rewrite Hb. apply scan_complete; [|lia|intros; lia].
  subst f'. now rewrite revert_root_at.
Qed.

(* ------------------------------------------------------------------ *)
(* II.9 conformance of the flushed file to layout v4 *)
Lemma aggs_b_erase t : aggs_b (erase t) = aggs_b t.
Proof.
  induction t as [|nl l IHl il it nn nb r IHr]; [reflexivity|].
  cbn [erase aggs_b]. now rewrite IHl, IHr, !erase_num, !erase_nby.
Qed.

Lemma aggs_aggs_b t : aggs t -> aggs_b t = true.
Proof.
  induction t as [|nl l IHl il it nn nb r IHr]; [reflexivity|].
  intros (Hl & Hr & Hnn & Hnb). cbn [aggs_b]. rewrite IHl, IHr by assumption.
  destruct (aggs_num l Hl) as (L1 & L2). destruct (aggs_num r Hr) as (R1 & R2).
  cbn [size elems] in *. rewrite sum_bytes_app in Hnb.
  replace (nn =? num l + num r + 1) with true by (symmetry; apply Z.eqb_eq; lia).
  replace (nb =? nby l + nby r + item_bytes it) with true by (symmetry; apply Z.eqb_eq; lia).
  reflexivity.
Qed.

Lemma rep_locs_b f t : rep f t -> persisted t -> locs_b t = true.
Proof.
  induction t as [|nl l IHl il it nn nb r IHr]; [reflexivity|].
  intros Hrep (Hnl & Hil & Hpl & Hpr).
  destruct nl as [p|]; [|congruence]. destruct il as [q|]; [|congruence].
  cbn [rep] in Hrep. destruct Hrep as (_ & Hl & Hr & Hplen & _ & Hit & _).
  destruct (Hit q eq_refl) as (Q1 & _).
  cbn [locs_b]. rewrite IHl, IHr by assumption. rewrite Hplen, Q1, !Z.eqb_refl. reflexivity.
Qed.

Lemma sorted_sorted_b cmp l : sorted cmp l -> sorted_b cmp l = true.
Proof.
  induction l as [|x xs IH]; [reflexivity|]. intros (Hgt & Hs).
  cbn [sorted_b]. destruct xs as [|y ys]; [reflexivity|].
  inversion Hgt; subst. unfold klt in *. rewrite H1. now apply IH.
Qed.

Lemma names_b_ext (a b : list (bytes * tree)) : map fst a = map fst b -> names_b a = names_b b.
Proof.
  revert b. induction a as [|[n t] a IH]; intros b H; destruct b as [|[n' t'] b]; try discriminate; [reflexivity|].
  cbn [map fst] in H. inversion H; subst. specialize (IH b H2).
  cbn [names_b]. destruct a as [|[n1 t1] a]; destruct b as [|[n2 t2] b]; try discriminate; [reflexivity|].
  cbn [map fst] in H2. inversion H2; subst. now rewrite IH.
Qed.

Lemma coll_post_names f' s' cs cs' : Forall2 (coll_post f' s') cs cs' ->
  map fst (tmap cs') = map fst (tmap cs).
Proof.
  induction 1 as [|nc nc' cs cs' Hp H2 IH]; [reflexivity|].
  unfold tmap in *. cbn [map fst]. rewrite IH. f_equal. apply Hp.
Qed.

Definition coll_conf (cmpid : bytes -> nat) (nc : bytes * coll) : Prop :=
  cmpid (fst nc) = c_cmp (snd nc) /\ cmp_laws (cmp_of (c_cmp (snd nc))) /\
  bst (cmp_of (c_cmp (snd nc))) (c_tree (snd nc)) /\ aggs (c_tree (snd nc)).

Lemma coll_post_conf cmpid f' s' cs cs' :
  Forall2 (coll_post f' s') cs cs' -> Forall (coll_conf cmpid) cs ->
  forallb (fun nt => aggs_b (snd nt) && locs_b (snd nt) &&
                     sorted_b (cmp_of (cmpid (fst nt))) (elems (snd nt))) (tmap cs') = true.
Proof.
  induction 1 as [|nc nc' cs cs' Hp H2 IH]; intros Hc; [reflexivity|].
  inversion Hc as [|? ? (C1 & C2 & C3 & C4) Hc']; subst.
  cbn [tmap map forallb fst snd]. fold (tmap cs'). rewrite IH by assumption.
  destruct Hp as (P1 & P2 & P3 & P4 & P5 & P6).
  rewrite <- aggs_b_erase, P6, aggs_b_erase, (aggs_aggs_b _ C4).
  rewrite (rep_locs_b f' _ P4 P3).
  rewrite P1, C1, (erase_eq_elems _ _ P6).
  rewrite sorted_sorted_b; [reflexivity|]. now apply bst_sorted.
Qed.

(* flush_conforms: II.7's hypotheses, names strictly sorted, every tree a bst with exact
   aggregates under its (lawful) comparator, cmpid giving each collection's comparator. *)
Theorem flush_conforms cmpid f size cs f' size' cs' :
  Forall (coll_ok f size) cs -> 0 <= size <= blen f ->
  flush_bytes f size cs = (f', size', cs') ->
  size' < two63 -> roots_len + blen (enc_json (root_map cs')) < two32 ->
  blen f' = size' ->
  Forall (fun nc => (Treap.size (c_tree (snd nc)) <= S (length f'))%nat) cs ->
  names_b (tmap cs) = true -> Forall (coll_conf cmpid) cs ->
  conforms_v4 cmpid f' = true.
Proof.
  intros Hok Hsz H H63 H32 Hbl Hsize Hnames Hconf.
  destruct (flush_decodes _ _ _ _ _ _ Hok Hsz H H63 H32 Hbl Hsize) as (Hd & _ & _).
  unfold conforms_v4. rewrite Hd.
  unfold flush_bytes in H. destruct (write_colls f size cs) as [[f1 s1] cs1] eqn:E.
  revert H63 H32 Hbl Hsize Hd. inversion H; subst f' size' cs'; clear H. intros H63 H32 Hbl Hsize Hd.
  pose proof (blen_nonneg (enc_root (root_map cs1) s1)) as Hr.
  destruct (write_colls_spec _ _ _ _ _ _ Hok Hsz E ltac:(lia)) as (A1 & A2 & A3 & A4).
  rewrite (names_b_ext _ (tmap cs)) by (eapply coll_post_names; eauto).
  rewrite Hnames. cbn [andb]. eapply coll_post_conf; eauto.
Qed.

(* ------------------------------------------------------------------ *)
(* soundness of load: a loaded tree whose records have consistent lengths (locs_b,
   as checked by conforms_v4) is represented by the file *)
Lemma dec_node_inv f p nr : dec_node f p = Some nr -> plen p = node_len /\ 0 <= poff p.
Proof.
  unfold dec_node. destruct (Z.eqb_spec (plen p) node_len) as [E|E]; [|discriminate]. cbn [negb].
  destruct (read_at f (poff p) node_len) as [b|] eqn:Er; [|discriminate]. intros _.
  apply read_at_inv in Er. change node_len with 52 in *. destruct Er as (_ & [Er|Er]); lia.
Qed.

Lemma dec_item_inv f q it : dec_item f q = Some it -> 0 <= poff q.
Proof.
  unfold dec_item. destruct (plen q <? item_hdr_len); [discriminate|].
  destruct (read_at f (poff q) item_hdr_len) as [h|] eqn:Er; [|discriminate]. intros _.
  apply read_at_inv in Er. change item_hdr_len with 16 in *. destruct Er as (_ & [Er|Er]); lia.
Qed.

Theorem load_sound : forall d f l b bud t rem,
  load d f l b bud = Some (t, rem) -> locs_b t = true -> rep f t /\ below t b.
Proof.
  induction d as [|k IH]; intros f l b bud t rem H Hlocs.
  - destruct l; [discriminate|]. rewrite load_None in H. inversion H. split; exact I.
  - destruct l as [p|]; [|rewrite load_None in H; inversion H; split; exact I].
    pose proof (load_persisted _ _ _ _ _ _ _ H) as Hper.
    destruct bud as [|bud]; [discriminate|]. cbn [load] in H.
    destruct (Z.leb_spec (poff p + plen p) b) as [Hpb|]; [|discriminate]. cbn [negb] in H.
    destruct (dec_node f p) as [nr|] eqn:Edn; [|discriminate].
    destruct (nr_item nr) as [il|] eqn:Eil; [|discriminate].
    destruct (Z.leb_spec (poff il + plen il) (poff p)) as [Hib|]; [|discriminate]. cbn [negb] in H.
    destruct (dec_item f il) as [it|] eqn:Edi; [|discriminate].
    destruct (load k f (nr_left nr) (poff p) bud) as [[lt b1]|] eqn:El; [|discriminate].
    destruct (load k f (nr_right nr) (poff p) b1) as [[rt b2]|] eqn:Er; [|discriminate].
    inversion H; subst t rem; clear H.
    cbn [locs_b] in Hlocs.
    apply andb_prop in Hlocs. destruct Hlocs as (Hlocs & Hlr).
    apply andb_prop in Hlocs. destruct Hlocs as (Hlocs & Hll).
    apply andb_prop in Hlocs. destruct Hlocs as (Hpn & Hqn).
    apply Z.eqb_eq in Hpn, Hqn.
    destruct (IH _ _ _ _ _ _ El Hll) as (Rl & Bl). destruct (IH _ _ _ _ _ _ Er Hlr) as (Rr & Br).
    destruct (dec_node_inv _ _ _ Edn) as (_ & Hp0). pose proof (dec_item_inv _ _ _ Edi) as Hq0.
    pose proof (load_root_loc _ _ _ _ _ _ _ El) as Ll. pose proof (load_root_loc _ _ _ _ _ _ _ Er) as Lr.
    change node_len with 52 in *.
    split.
    + cbn [rep]. split; [exact Hper|]. split; [exact Rl|]. split; [exact Rr|]. split; [exact Hpn|].
      split; [|split; [|split]].
      * rewrite Ll, Lr, <- Eil. now destruct nr.
      * intros q Hq. inversion Hq; subst q. auto.
      * intros q Hq. exact (below_root _ _ Bl q Hq).
      * intros q Hq. exact (below_root _ _ Br q Hq).
    + cbn [below loc_below]. split; [lia|]. split; [lia|].
      split; eapply below_mono; eauto; lia.
Qed.

(* ------------------------------------------------------------------ *)
(* A sufficient condition for the node budget of II.7/II.9: no node record is
   shared inside a tree (the offsets of its persisted nodes are pairwise
   distinct).  The condition is preserved by write_tree. *)
Definition oloc_off (o : option ploc) : list Z :=
  match o with Some p => [poff p] | None => [] end.

Fixpoint node_offs (t : tree) : list Z :=
  match t with
  | E => []
  | T nl l _ _ _ _ r => oloc_off nl ++ node_offs l ++ node_offs r
  end.

Lemma NoDup_app_iff {A} (l l' : list A) :
  NoDup (l ++ l') <-> NoDup l /\ NoDup l' /\ (forall x, In x l -> In x l' -> False).
Proof.
  induction l as [|a l IH]; cbn [app].
  - split; [intros H; split; [constructor|split; [assumption|intros x []]]|tauto].
  - split.
    + intros H. inversion H as [|? ? Hn Hd]; subst. apply IH in Hd. destruct Hd as (D1 & D2 & D3).
      split; [constructor; auto; intros Hin; apply Hn; apply in_or_app; now left|].
      split; [assumption|]. intros x [->|Hx] Hx'; [apply Hn; apply in_or_app; now right|eauto].
    + intros (D1 & D2 & D3). inversion D1 as [|? ? Hn Hd]; subst. constructor.
      * intros Hin. apply in_app_or in Hin. destruct Hin as [Hin|Hin]; [auto|]. apply (D3 a); simpl; auto.
      * apply IH. repeat split; auto. intros x Hx Hx'. apply (D3 x); simpl; auto.
Qed.

Lemma persisted_size_offs t : persisted t -> size t = length (node_offs t).
Proof.
  induction t as [|nl l IHl il it nn nb r IHr]; [reflexivity|].
  intros (Hnl & _ & Hl & Hr). destruct nl as [p|]; [|congruence].
  cbn [size node_offs oloc_off app length]. rewrite app_length, IHl, IHr by assumption. reflexivity.
Qed.

Lemma offs_range f : forall t b, rep f t -> below t b -> forall o, In o (node_offs t) -> 0 <= o < b.
Proof.
  induction t as [|nl l IHl il it nn nb r IHr]; intros b Hrep Hb o Hin; [destruct Hin|].
  cbn [node_offs] in Hin. cbn [below] in Hb. destruct Hb as (Hnb & _ & Hlb & Hrb).
  assert (Hl : rep f l) by (destruct nl; cbn [rep] in Hrep; tauto).
  assert (Hr : rep f r) by (destruct nl; cbn [rep] in Hrep; tauto).
  apply in_app_or in Hin. destruct Hin as [Hin|Hin].
  - destruct nl as [p|]; [|destruct Hin]. destruct Hin as [<-|[]].
    cbn [rep] in Hrep. destruct Hrep as (_ & _ & _ & Hpl & _). cbn [loc_below] in Hnb.
    rewrite Hpl in Hnb. change node_len with 52 in Hnb. lia.
  - apply in_app_or in Hin. destruct Hin; eauto.
Qed.

Lemma NoDup_map_in {A B} (g : A -> B) (l : list A) :
  (forall x y, In x l -> In y l -> g x = g y -> x = y) -> NoDup l -> NoDup (map g l).
Proof.
  induction l as [|a l IH]; intros Hinj Hnd; [constructor|].
  inversion Hnd as [|? ? Hn Hd]; subst. cbn [map]. constructor.
  - intros Hin. apply in_map_iff in Hin. destruct Hin as (x & Hx & Hxl).
    assert (x = a) by (apply Hinj; simpl; auto). subst. contradiction.
  - apply IH; [|assumption]. intros x y Hx Hy. apply Hinj; simpl; auto.
Qed.

Lemma pigeon (l : list Z) (n : Z) : NoDup l -> (forall o, In o l -> 0 <= o < n) ->
  Z.of_nat (length l) <= Z.max 0 n.
Proof.
  intros Hnd Hr.
  assert (Hn : NoDup (map Z.to_nat l)).
  { apply NoDup_map_in; [|assumption]. intros x y Hx Hy E. apply Hr in Hx, Hy. lia. }
  assert (Hi : incl (map Z.to_nat l) (seq 0 (Z.to_nat n))).
  { intros k Hk. apply in_map_iff in Hk. destruct Hk as (o & <- & Ho). apply Hr in Ho.
    apply in_seq. lia. }
  pose proof (NoDup_incl_length Hn Hi) as H. rewrite map_length, seq_length in H. lia.
Qed.

Theorem size_le_offsets f t b : rep f t -> persisted t -> below t b -> NoDup (node_offs t) ->
  Z.of_nat (size t) <= Z.max 0 b.
Proof.
  intros Hrep Hper Hb Hnd. rewrite (persisted_size_offs t Hper).
  apply pigeon; [assumption|]. now apply (offs_range f t b).
Qed.

Lemma write_items_offs : forall t f size f1 s1 t1,
  write_items f size t = (f1, s1, t1) -> node_offs t1 = node_offs t.
Proof.
  induction t as [|nl l IHl il it nn nb r IHr]; intros f size f1 s1 t1 H; cbn [write_items] in H.
  - inversion H. reflexivity.
  - destruct nl as [p|]; [inversion H; reflexivity|].
    destruct (write_items f size l) as [[fa sa] la] eqn:El. apply IHl in El.
    destruct il as [q|].
    + destruct (write_items fa sa r) as [[fb sb] rb] eqn:Er. apply IHr in Er. inversion H; subst.
      cbn [node_offs]. now rewrite El, Er.
    + destruct (write_items (write_at fa sa (enc_item it)) (sa + item_loc_len it) r)
        as [[fb sb] rb] eqn:Er. apply IHr in Er. inversion H; subst.
      cbn [node_offs]. now rewrite El, Er.
Qed.

Lemma write_nodes_offs : forall t f size f1 s1 t1,
  write_nodes f size t = (f1, s1, t1) ->
  (forall o, In o (node_offs t) -> o < size) -> NoDup (node_offs t) ->
  NoDup (node_offs t1) /\
  (forall o, In o (node_offs t1) -> (In o (node_offs t) \/ size <= o) /\ o < s1).
Proof.
  induction t as [|nl l IHl il it nn nb r IHr]; intros f size f1 s1 t1 H Hlt Hnd; cbn [write_nodes] in H.
  - inversion H; subst. split; [constructor|intros o []].
  - destruct nl as [p|].
    { inversion H; subst. split; [assumption|]. intros o Ho. split; [now left|now apply Hlt]. }
    destruct (write_nodes f size l) as [[fa sa] la] eqn:El.
    destruct (write_nodes fa sa r) as [[fb sb] rb] eqn:Er.
    inversion H; subst; clear H.
    pose proof (write_nodes_mono _ _ _ _ _ _ El) as Hm1.
    pose proof (write_nodes_mono _ _ _ _ _ _ Er) as Hm2.
    cbn [node_offs oloc_off app] in Hlt, Hnd.
    apply NoDup_app_iff in Hnd. destruct Hnd as (Nl & Nr & Ndis).
    destruct (IHl _ _ _ _ _ El) as (A1 & A2); [intros; apply Hlt; apply in_or_app; now left|assumption|].
    destruct (IHr _ _ _ _ _ Er) as (B1 & B2);
      [intros o Ho; assert (o < size) by (apply Hlt; apply in_or_app; now right); lia|assumption|].
    cbn [node_offs oloc_off app poff]. change node_len with 52. split.
    + constructor.
      * intros Hin. apply in_app_or in Hin. destruct Hin as [Hin|Hin].
        -- apply A2 in Hin. lia.
        -- apply B2 in Hin. lia.
      * apply NoDup_app_iff. split; [assumption|]. split; [assumption|].
        intros x Hx Hx'. destruct (A2 x Hx) as ([Ha|Ha] & Ha'); destruct (B2 x Hx') as ([Hb|Hb] & Hb').
        -- eauto.
        -- assert (x < size) by (apply Hlt; apply in_or_app; now left). lia.
        -- assert (x < size) by (apply Hlt; apply in_or_app; now right). lia.
        -- lia.
    + intros o [<-|Hin]; [split; [right|]; lia|].
      apply in_app_or in Hin. destruct Hin as [Hin|Hin].
      * destruct (A2 o Hin) as ([Ha|Ha] & Ha'); (split; [|lia]); [left; apply in_or_app; now left|right; lia].
      * destruct (B2 o Hin) as ([Hb|Hb] & Hb'); (split; [|lia]); [left; apply in_or_app; now right|right; lia].
Qed.

Lemma write_tree_nodup f size t f' s' t' :
  rep f t -> below t size -> write_tree f size t = (f', s', t') ->
  NoDup (node_offs t) -> NoDup (node_offs t').
Proof.
  intros Hrep Hb H Hnd. unfold write_tree in H.
  destruct (write_items f size t) as [[f1 s1] t1] eqn:E1.
  pose proof (write_items_offs _ _ _ _ _ _ E1) as Eo.
  pose proof (write_items_mono _ _ _ _ _ _ E1) as Hm.
  apply (write_nodes_offs _ _ _ _ _ _ H); rewrite Eo; [|assumption].
  intros o Ho. pose proof (offs_range f t size Hrep Hb o Ho). lia.
Qed.

Lemma write_colls_nodup : forall cs f size f' s' cs',
  Forall (coll_ok f size) cs -> 0 <= size <= blen f ->
  write_colls f size cs = (f', s', cs') -> s' < two63 ->
  Forall (fun nc => NoDup (node_offs (c_tree (snd nc)))) cs ->
  Forall (fun nc => NoDup (node_offs (c_tree (snd nc)))) cs'.
Proof.
  induction cs as [|[n c] cs IH]; intros f size f' s' cs' Hok Hsz H H63 Hnd; cbn [write_colls] in H.
  - inversion H; subst. constructor.
  - destruct (write_tree f size (c_tree c)) as [[f1 s1] t'] eqn:E1.
    destruct (write_colls f1 s1 cs) as [[f2 s2] cs2] eqn:E2.
    inversion H; subst; clear H.
    inversion Hok as [|? ? Hc Hcs]; subst. inversion Hnd as [|? ? Hn1 Hn2]; subst.
    destruct Hc as (C1 & C2 & C3 & C4). cbn [fst snd] in *.
    pose proof (write_colls_mono _ _ _ _ _ _ E2) as Hm2.
    assert (H1' : s1 < two63) by lia.
    destruct (write_tree_post _ _ _ _ _ _ C2 C3 Hsz C4 H1' E1) as ((A1 & A2 & A3 & A4 & A5 & A6) & Hper).
    constructor.
    + cbn [snd c_tree]. apply (write_tree_nodup f size (c_tree c) f1 s1 t'); auto.
    + apply (IH f1 s1 f' s' cs2); auto; [|lia].
      eapply Forall_impl; [|exact Hcs]. intros nc Hnc. eapply coll_ok_stable; eauto. lia.
Qed.

Lemma coll_post_size_le f1 s1 cs cs1 (L : nat) :
  Forall2 (coll_post f1 s1) cs cs1 ->
  Forall (fun nc => NoDup (node_offs (c_tree (snd nc)))) cs1 -> s1 <= Z.of_nat L ->
  Forall (fun nc => (Treap.size (c_tree (snd nc)) <= S L)%nat) cs.
Proof.
  induction 1 as [|nc nc' cs cs1 Hp A4 IH]; intros Hnd HL; [constructor|].
  inversion Hnd; subst. constructor; [|apply IH; auto].
  destruct Hp as (P1 & P2 & P3 & P4 & P5 & P6).
  pose proof (size_le_offsets f1 _ s1 P4 P3 P5 ltac:(assumption)) as Hs.
  rewrite <- (erase_eq_size _ _ P6). lia.
Qed.

Lemma coll_post_ok f size f1 s1 f' s' cs cs1 :
  Forall (coll_ok f size) cs -> Forall2 (coll_post f1 s1) cs cs1 ->
  agree f1 f' s1 -> s1 <= s' -> Forall (coll_ok f' s') cs1.
Proof.
  intros Hok A4 Hag Hle. induction A4 as [|nc nc' cs cs1 Hp A4 IH]; [constructor|].
  inversion Hok as [|? ? Hc Hcs]; subst. constructor; [|apply IH; auto].
  destruct Hp as (P1 & P2 & P3 & P4 & P5 & P6). destruct Hc as (C1 & C2 & C3 & C4).
  unfold coll_ok. rewrite P1. split; [assumption|].
  split; [eapply rep_stable; eauto|]. split; [eapply below_mono; eauto; lia|].
  eapply erase_eq_tree_ok; eauto.
Qed.

Lemma flush_nodup_facts f size cs f' size' cs' :
  Forall (coll_ok f size) cs -> 0 <= size <= blen f ->
  flush_bytes f size cs = (f', size', cs') -> size' < two63 ->
  Forall (fun nc => NoDup (node_offs (c_tree (snd nc)))) cs ->
  Forall (fun nc => (Treap.size (c_tree (snd nc)) <= S (length f'))%nat) cs /\
  Forall (coll_ok f' size') cs' /\
  Forall (fun nc => NoDup (node_offs (c_tree (snd nc)))) cs'.
Proof.
  intros Hok Hsz H H63 Hnd.
  unfold flush_bytes in H. destruct (write_colls f size cs) as [[f1 s1] cs1] eqn:E.
  revert H63. inversion H; subst f' size' cs'; clear H. intros H63.
  set (r := enc_root (root_map cs1) s1) in *. pose proof (blen_nonneg r) as Hr.
  assert (H63' : s1 < two63) by lia.
  destruct (write_colls_spec _ _ _ _ _ _ Hok Hsz E H63') as (A1 & A2 & A3 & A4).
  pose proof (write_colls_nodup _ _ _ _ _ _ Hok Hsz E H63' Hnd) as Hnd'.
  destruct (append_facts f1 s1 r ltac:(lia)) as (W1 & W2 & W3 & W4).
  split; [|split; [|exact Hnd']].
  - apply (coll_post_size_le f1 s1 cs cs1); auto. unfold blen in *. lia.
  - apply (coll_post_ok f size f1 s1 _ _ cs cs1); auto. lia.
Qed.

(* II.7 with the no-sharing invariant instead of the explicit node budget *)
Theorem flush_decodes_nodup f size cs f' size' cs' :
  Forall (coll_ok f size) cs -> 0 <= size <= blen f ->
  flush_bytes f size cs = (f', size', cs') ->
  size' < two63 -> roots_len + blen (enc_json (root_map cs')) < two32 ->
  blen f' = size' ->
  Forall (fun nc => NoDup (node_offs (c_tree (snd nc)))) cs ->
  decode_store f' = OpOk size' (tmap cs') /\
  contents (tmap cs') = map (fun nc => (fst nc, elems (c_tree (snd nc)))) cs /\
  agree f f' size /\
  (* the invariants hold again for the next Flush *)
  Forall (coll_ok f' size') cs' /\ Forall (fun nc => NoDup (node_offs (c_tree (snd nc)))) cs'.
Proof.
  intros Hok Hsz H H63 H32 Hbl Hnd.
  destruct (flush_nodup_facts _ _ _ _ _ _ Hok Hsz H H63 Hnd) as (G1 & G2 & G3).
  destruct (flush_decodes _ _ _ _ _ _ Hok Hsz H H63 H32 Hbl G1) as (D1 & D2 & D3).
  repeat split; assumption.
Qed.

Theorem flush_conforms_nodup cmpid f size cs f' size' cs' :
  Forall (coll_ok f size) cs -> 0 <= size <= blen f ->
  flush_bytes f size cs = (f', size', cs') ->
  size' < two63 -> roots_len + blen (enc_json (root_map cs')) < two32 ->
  blen f' = size' ->
  Forall (fun nc => NoDup (node_offs (c_tree (snd nc)))) cs ->
  names_b (tmap cs) = true -> Forall (coll_conf cmpid) cs ->
  conforms_v4 cmpid f' = true.
Proof.
  intros Hok Hsz H H63 H32 Hbl Hnd Hnames Hconf.
  destruct (flush_nodup_facts _ _ _ _ _ _ Hok Hsz H H63 Hnd) as (G1 & _ & _).
  eapply flush_conforms; eauto.
Qed.

(* a freshly loaded store satisfies the no-sharing invariant trivially when it is
   empty; an unpersisted tree has no offsets at all *)
Lemma node_offs_erase t : node_offs (erase t) = [].
Proof. induction t as [|nl l IHl il it nn nb r IHr]; cbn [erase node_offs oloc_off app]; [reflexivity|]. now rewrite IHl, IHr. Qed.
