(* GExpr.v — the small statement / expression language into which tools/gen translates the function
   bodies of the Go source (Generated.g_code), with an evaluator for its pure, loop-free fragment.
   Decisions.v proves that the decisions of the hand-written models are the evaluations of the
   translated source conditions. *)
From Coq Require Import ZArith List String Bool DecimalString.
Import ListNotations.
Open Scope string_scope.
Open Scope list_scope.
Open Scope Z_scope.

Inductive gexpr :=
| GNil
| GInt (z : Z)
| GVar (name : string)                       (* identifier or selector path x.y.z *)
| GLit (src : string)                        (* string / char / float literal *)
| GSel (e : gexpr) (field : string)
| GBin (op : string) (a b : gexpr)
| GUn (op : string) (a : gexpr)
| GCall (f : string) (args : list gexpr)
| GFun (name : string)                       (* function literal; its body is the entry [name] of g_code *)
| GOther (src : string).

Inductive gstmt :=
| SAssign (lhs : list gexpr) (tok : string) (rhs : list gexpr)
| SIncDec (x : gexpr) (inc : bool)
| SIf (init : list gstmt) (cond : gexpr) (thn els : list gstmt)
| SFor (init : list gstmt) (cond : option gexpr) (post : list gstmt) (body : list gstmt)
| SRange (k v x : gexpr) (body : list gstmt)
| SReturn (rs : list gexpr)
| SExpr (e : gexpr)
| SDefer (e : gexpr)
| SGo (e : gexpr)
| SBlock (b : list gstmt)
| SVar (name : string) (init : option gexpr)
| SSwitch (init : list gstmt) (tag : gexpr) (cases : list (list gexpr * list gstmt))
| SBranch (tok : string)
| SOther (src : string).

(* ---- rendering (names of opaque values in the environment) ---- *)
Fixpoint gshow (e : gexpr) : string :=
  match e with
  | GNil => "nil"
  | GInt z => NilEmpty.string_of_int (Z.to_int z)
  | GVar n => n
  | GLit s => s
  | GSel a f => (gshow a ++ "." ++ f)%string
  | GBin op a b => ("(" ++ gshow a ++ op ++ gshow b ++ ")")%string
  | GUn op a => (op ++ gshow a)%string
  | GCall f args =>
    (f ++ "(" ++ (fix go (l : list gexpr) : string :=
                   match l with
                   | [] => ""
                   | [x] => gshow x
                   | x :: r => gshow x ++ "," ++ go r
                   end) args ++ ")")%string
  | GFun n => n
  | GOther s => s
  end.

(* ---- evaluation of the pure fragment ----
   Values are integers; booleans are 0 / 1; nil is 0.  Variables and calls are looked up in the
   environment by their rendered text (a call is an opaque, pure value), except the integer conversions,
   which are the identity on the ranges they are used at. *)
Definition env := string -> option Z.

Definition b2z (b : bool) : Z := if b then 1 else 0.

Definition is_conv (f : string) : bool :=
  (f =? "int")%string || (f =? "int64")%string || (f =? "uint64")%string.

Fixpoint geval (rho : env) (e : gexpr) : option Z :=
  match e with
  | GNil => Some 0
  | GInt z => Some z
  | GVar "true" => Some 1
  | GVar "false" => Some 0
  | GVar n => rho n
  | GBin op a b =>
    match op with
    | "&&" => match geval rho a with
              | Some 0 => Some 0
              | Some _ => match geval rho b with Some y => Some (b2z (negb (y =? 0))) | None => None end
              | None => None
              end
    | "||" => match geval rho a with
              | Some 0 => match geval rho b with Some y => Some (b2z (negb (y =? 0))) | None => None end
              | Some _ => Some 1
              | None => None
              end
    | _ =>
      match geval rho a, geval rho b with
      | Some x, Some y =>
        match op with
        | "==" => Some (b2z (x =? y))
        | "!=" => Some (b2z (negb (x =? y)))
        | "<" => Some (b2z (x <? y))
        | "<=" => Some (b2z (x <=? y))
        | ">" => Some (b2z (x >? y))
        | ">=" => Some (b2z (x >=? y))
        | "+" => Some (x + y)
        | "-" => Some (x - y)
        | "*" => Some (x * y)
        | "/" => if y =? 0 then None else Some (Z.quot x y)      (* Go: truncated division *)
        | "%" => if y =? 0 then None else Some (Z.rem x y)
        | _ => None
        end
      | _, _ => None
      end
    end
  | GUn "!" a => match geval rho a with Some x => Some (b2z (x =? 0)) | None => None end
  | GUn "-" a => match geval rho a with Some x => Some (- x) | None => None end
  | GCall f [a] => if is_conv f then geval rho a else rho (gshow e)
  | GCall _ _ => rho (gshow e)
  | GSel _ _ => rho (gshow e)
  | _ => None
  end.

Definition gtrue (rho : env) (e : gexpr) : option bool :=
  match geval rho e with Some x => Some (negb (x =? 0)) | None => None end.

Definition upd (rho : env) (n : string) (v : Z) : env :=
  fun m => if (m =? n)%string then Some v else rho m.

(* result of running a statement list: fell through with a new environment, returned values, or stuck *)
Inductive gres := RFall (rho : env) | RRet (vs : list Z) | RStuck.

Fixpoint gevals (rho : env) (es : list gexpr) : option (list Z) :=
  match es with
  | [] => Some []
  | e :: r => match geval rho e, gevals rho r with Some x, Some xs => Some (x :: xs) | _, _ => None end
  end.

(* loop-free statements: assignments of pure expressions to variables, ++/--, if/else, var, return, blocks;
   a multiple assignment from one call  x, y = f(..)  reads the opaque values "f(..)#0", "f(..)#1" *)
Definition idx (i : nat) : string :=
  match i with O => "#0" | 1%nat => "#1" | 2%nat => "#2" | 3%nat => "#3" | _ => "#n" end.

Fixpoint assign_call (rho : env) (lhs : list gexpr) (call : string) (i : nat) : option env :=
  match lhs with
  | [] => Some rho
  | GVar n :: r =>
    match rho (call ++ idx i)%string with
    | Some v => assign_call (upd rho n v) r call (S i)
    | None => None
    end
  | _ => None
  end.

Fixpoint gexec (fuel : nat) (rho : env) (ss : list gstmt) : gres :=
  match fuel with
  | O => RStuck
  | S k =>
    match ss with
    | [] => RFall rho
    | s :: rest =>
      match s with
      | SAssign [GVar n] tok [e] =>
        match geval rho e with
        | Some v =>
          if ((tok =? "=") || (tok =? ":="))%string then gexec k (upd rho n v) rest
          else match tok, rho n with
               | "+=", Some o => gexec k (upd rho n (o + v)) rest
               | "-=", Some o => gexec k (upd rho n (o - v)) rest
               | _, _ => RStuck
               end
        | None => RStuck
        end
      | SAssign lhs tok [GCall f args] =>
        if ((tok =? "=") || (tok =? ":="))%string then
          match assign_call rho lhs (gshow (GCall f args)) 0 with
          | Some rho' => gexec k rho' rest
          | None => RStuck
          end
        else RStuck
      | SIncDec (GVar n) inc =>
        match rho n with
        | Some o => gexec k (upd rho n (if inc then o + 1 else o - 1)) rest
        | None => RStuck
        end
      | SVar n None => gexec k (upd rho n 0) rest
      | SVar n (Some e) => match geval rho e with Some v => gexec k (upd rho n v) rest | None => RStuck end
      | SIf init c thn els =>
        match gexec k rho init with
        | RFall rho1 =>
          match gtrue rho1 c with
          | Some true => match gexec k rho1 thn with RFall rho2 => gexec k rho2 rest | r => r end
          | Some false => match gexec k rho1 els with RFall rho2 => gexec k rho2 rest | r => r end
          | None => RStuck
          end
        | r => r
        end
      | SBlock b => match gexec k rho b with RFall rho1 => gexec k rho1 rest | r => r end
      | SReturn rs => match gevals rho rs with Some vs => RRet vs | None => RStuck end
      | _ => RStuck
      end
    end
  end.

(* ---- the decision conditions of a body, in source order (if and for conditions, pre-order) ---- *)
Fixpoint conds (fuel : nat) (ss : list gstmt) : list gexpr :=
  match fuel with
  | O => []
  | S k =>
    match ss with
    | [] => []
    | s :: rest =>
      (match s with
       | SIf init c thn els => conds k init ++ [c] ++ conds k thn ++ conds k els
       | SFor init c post body => conds k init ++ (match c with Some e => [e] | None => [] end) ++ conds k post ++ conds k body
       | SRange _ _ _ body => conds k body
       | SBlock b => conds k b
       | SSwitch init _ cases => conds k init ++ flat_map (fun cs => conds k (snd cs)) cases
       | _ => []
       end) ++ conds k rest
    end
  end.

Fixpoint lookup_code (code : list (string * list gstmt)) (name : string) : list gstmt :=
  match code with
  | [] => []
  | (n, b) :: r => if (n =? name)%string then b else lookup_code r name
  end.

(* ---- the calls of a body, in source order (pre-order over statements and expressions; the callee name
   comes before its arguments' calls) ---- *)
Fixpoint ecalls (fuel : nat) (e : gexpr) : list string :=
  match fuel with
  | O => []
  | S k =>
    match e with
    | GCall f args => f :: flat_map (ecalls k) args
    | GBin _ a b => ecalls k a ++ ecalls k b
    | GUn _ a => ecalls k a
    | GSel a _ => ecalls k a
    | _ => []
    end
  end.

Fixpoint calls (fuel : nat) (ss : list gstmt) : list string :=
  match fuel with
  | O => []
  | S k =>
    match ss with
    | [] => []
    | s :: rest =>
      (match s with
       | SAssign lhs _ rhs => flat_map (ecalls k) rhs ++ flat_map (ecalls k) lhs
       | SIncDec x _ => ecalls k x
       | SIf init c thn els => calls k init ++ ecalls k c ++ calls k thn ++ calls k els
       | SFor init c post body =>
         calls k init ++ (match c with Some e => ecalls k e | None => [] end) ++ calls k body ++ calls k post
       | SRange _ _ x body => ecalls k x ++ calls k body
       | SReturn rs => flat_map (ecalls k) rs
       | SExpr e => ecalls k e
       | SDefer e => ecalls k e
       | SGo e => ecalls k e
       | SBlock b => calls k b
       | SVar _ (Some e) => ecalls k e
       | SSwitch init tag cases => calls k init ++ ecalls k tag ++ flat_map (fun cs => calls k (snd cs)) cases
       | _ => []
       end) ++ calls k rest
    end
  end.

(* position of the first occurrence *)
Fixpoint index_of (x : string) (l : list string) : option nat :=
  match l with
  | [] => None
  | y :: r => if (y =? x)%string then Some O else option_map S (index_of x r)
  end.

(* a occurs, b occurs, and the first a comes before the first b *)
Definition before (a b : string) (l : list string) : bool :=
  match index_of a l, index_of b l with
  | Some i, Some j => Nat.ltb i j
  | _, _ => false
  end.

(* ---- the calls of a body with their arguments, in source order ---- *)
Fixpoint ecalls_a (fuel : nat) (e : gexpr) : list (string * list gexpr) :=
  match fuel with
  | O => []
  | S k =>
    match e with
    | GCall f args => (f, args) :: flat_map (ecalls_a k) args
    | GBin _ a b => ecalls_a k a ++ ecalls_a k b
    | GUn _ a => ecalls_a k a
    | GSel a _ => ecalls_a k a
    | _ => []
    end
  end.

Fixpoint calls_a (fuel : nat) (ss : list gstmt) : list (string * list gexpr) :=
  match fuel with
  | O => []
  | S k =>
    match ss with
    | [] => []
    | s :: rest =>
      (match s with
       | SAssign lhs _ rhs => flat_map (ecalls_a k) rhs ++ flat_map (ecalls_a k) lhs
       | SIncDec x _ => ecalls_a k x
       | SIf init c thn els => calls_a k init ++ ecalls_a k c ++ calls_a k thn ++ calls_a k els
       | SFor init c post body =>
         calls_a k init ++ (match c with Some e => ecalls_a k e | None => [] end) ++ calls_a k body ++ calls_a k post
       | SRange _ _ x body => ecalls_a k x ++ calls_a k body
       | SReturn rs => flat_map (ecalls_a k) rs
       | SExpr e => ecalls_a k e
       | SDefer e => ecalls_a k e
       | SGo e => ecalls_a k e
       | SBlock b => calls_a k b
       | SVar _ (Some e) => ecalls_a k e
       | SSwitch init tag cases => calls_a k init ++ ecalls_a k tag ++ flat_map (fun cs => calls_a k (snd cs)) cases
       | _ => []
       end) ++ calls_a k rest
    end
  end.
