(* Proto.v — M5: the version pin / chain / reclaim protocol of collection.go
   (rootAddRef, rootCAS, rootDecRef, closeCollection, Snapshot, SetCollection
   on an existing name) and alloc.go (markReclaimable, reclaimMarkUpdate,
   reclaimNodes, the free list with reuse), as a labelled transition system
   over finite sets of cells.  Every action is one critical section (or one
   lock-free phase) of the Go code, so a theorem about EVERY action sequence
   covers every interleaving of readers, the mutator and the flusher at that
   granularity. *)
(* CHANGES made for the proofs in ProtoProofs.v: none. All step rules are exactly as first
   written; the invariant of ProtoProofs.v is inductive for them as they stand. *)
From stdpp Require Import gmap.

Definition cell := positive.   (* identity of a tree node *)
Definition vid := positive.    (* identity of a version record (rootNodeLoc) *)
Definition lid := positive.    (* identity of a lineage (one rootLock) *)
Definition hid := positive.    (* identity of a Collection handle *)

Inductive mark := U | M (v : vid) | F.   (* unmarked / marked reclaimable by v / on the free list *)
Global Instance mark_eq_dec : EqDecision mark. Proof. solve_decision. Defined.

Record version := Ver {
  v_lin : lid;              (* lineage *)
  v_seq : nat;              (* creation order inside the lineage *)
  v_tree : gset cell;       (* cached nodes reachable from this version's root *)
  v_later : gset cell;      (* reclaimLater *)
  v_refs : nat;             (* rootNodeLoc.refs *)
  v_chain : option vid;     (* chainedRootNodeLoc *)
  v_super : bool;           (* a successor has been published (rootCAS) *)
}.

Record handle := Hd {
  h_lin : lid;
  h_root : option vid;      (* Collection.root; None once closed *)
  h_ro : bool;              (* handle of a read-only snapshot store *)
}.

(* a mutation in flight (SetItem / Delete between rootAddRef and the final rootDecRef) *)
Record mutation := Mut {
  m_handle : hid;
  m_ver : vid;              (* the version it pinned *)
  m_fresh : gset cell;      (* nodes allocated so far *)
}.

Record state := St {
  marks : gmap cell mark;       (* None: never allocated *)
  vers : gmap vid version;      (* live version records *)
  handles : gmap hid handle;
  pins : gmap vid nat;          (* ghost: reader/flusher pins per version (rootAddRef not yet released) *)
  muts : gmap lid mutation;     (* at most one mutation in flight per lineage *)
}.

Definition setm (X : gset cell) (k : mark) (m : gmap cell mark) : gmap cell mark :=
  gset_to_gmap k X ∪ m.

Definition upd_ver (s : state) (v : vid) (x : version) : state :=
  St (marks s) (<[v := x]> (vers s)) (handles s) (pins s) (muts s).

Definition with_refs (x : version) (n : nat) : version :=
  Ver (v_lin x) (v_seq x) (v_tree x) (v_later x) n (v_chain x) (v_super x).

Definition allocatable (s : state) (n : cell) : Prop :=
  marks s !! n = None \/ marks s !! n = Some F.    (* brand new, or REUSED from the free list *)

(* ---- rootDecRef: drop one reference; at zero the version dies: its chained
   successor is released (recursively), then marked cells are freed.  A version
   that dies without successor owns its whole tree (markTreeReclaimableUnlocked). *)
Definition freeable (s : state) (v : vid) (x : version) (n : cell) : Prop :=
  n ∈ v_tree x ∪ v_later x /\
  (marks s !! n = Some (M v) \/ (v_super x = false /\ n ∈ v_tree x /\ marks s !! n = Some U)).

Inductive decref : state -> vid -> state -> Prop :=
| decref_live s v x n :
    vers s !! v = Some x -> v_refs x = S (S n) ->
    decref s v (upd_ver s v (with_refs x (S n)))
| decref_die_nochain s v x (fr : gset cell) :
    vers s !! v = Some x -> v_refs x = 1 -> v_chain x = None ->
    (forall n, n ∈ fr -> freeable s v x n) ->
    decref s v (St (setm fr F (marks s)) (delete v (vers s)) (handles s) (pins s) (muts s))
| decref_die_chain s v x w s1 (fr : gset cell) :
    vers s !! v = Some x -> v_refs x = 1 -> v_chain x = Some w ->
    (* collection.go:814: the chained successor is released first *)
    decref (St (marks s) (delete v (vers s)) (handles s) (pins s) (muts s)) w s1 ->
    (forall n, n ∈ fr -> freeable s1 v x n) ->
    decref s v (St (setm fr F (marks s1)) (vers s1) (handles s1) (pins s1) (muts s1)).

Definition set_handle (s : state) (h : hid) (x : handle) : state :=
  St (marks s) (vers s) (<[h := x]> (handles s)) (pins s) (muts s).
Definition set_pins (s : state) (v : vid) (n : nat) : state :=
  St (marks s) (vers s) (handles s) (<[v := n]> (pins s)) (muts s).
Definition set_marks (s : state) (m : gmap cell mark) : state :=
  St m (vers s) (handles s) (pins s) (muts s).
Definition set_mut (s : state) (l : lid) (m : option mutation) : state :=
  St (marks s) (vers s) (handles s) (pins s)
     (match m with Some x => <[l := x]> (muts s) | None => delete l (muts s) end).

Definition pin_count (s : state) (v : vid) : nat := default 0 (pins s !! v).

Inductive step : state -> state -> Prop :=
(* a new private/named collection: fresh lineage, empty tree (MakePrivateCollection) *)
| s_new s h l v :
    handles s !! h = None -> vers s !! v = None ->
    (forall w y, vers s !! w = Some y -> v_lin y <> l) ->
    (forall g y, handles s !! g = Some y -> h_lin y <> l) ->
    step s (St (marks s) (<[v := Ver l 0 ∅ ∅ 1 None false]> (vers s))
               (<[h := Hd l (Some v) false]> (handles s)) (pins s) (muts s))
(* rootAddRef by a reader / visit / flusher / iterator on any open handle *)
| s_pin s h hd v x :
    handles s !! h = Some hd -> h_root hd = Some v -> vers s !! v = Some x ->
    step s (set_pins (upd_ver s v (with_refs x (S (v_refs x)))) v (S (pin_count s v)))
(* the matching rootDecRef *)
| s_unpin s v p s' :
    pins s !! v = Some (S p) -> decref (set_pins s v p) v s' -> step s s'
(* lazy load: a node read from the file appears below a cached node p; it is a
   fresh (or recycled) cell, unmarked, and becomes part of every live tree containing p *)
| s_load s p c :
    allocatable s c ->
    (exists w y, vers s !! w = Some y /\ p ∈ v_tree y) ->
    step s (St (<[c := U]> (marks s))
               (fmap (fun y => if decide (p ∈ v_tree y)
                               then Ver (v_lin y) (v_seq y) (v_tree y ∪ {[c]}) (v_later y) (v_refs y) (v_chain y) (v_super y)
                               else y) (vers s))
               (handles s) (pins s) (muts s))
(* the root node of a version whose cached tree is still empty is read from the file
   (a store just opened, or reverted): one fresh or recycled cell *)
| s_loadroot s v x c :
    allocatable s c -> vers s !! v = Some x -> v_tree x = ∅ ->
    step s (St (<[c := U]> (marks s))
               (<[v := Ver (v_lin x) (v_seq x) {[c]} (v_later x) (v_refs x) (v_chain x) (v_super x)]> (vers s))
               (handles s) (pins s) (muts s))
(* Snapshot(): a read-only handle on the same version *)
| s_snapshot s h hd v x h' :
    handles s !! h = Some hd -> h_root hd = Some v -> vers s !! v = Some x ->
    handles s !! h' = None ->
    step s (set_handle (upd_ver s v (with_refs x (S (v_refs x)))) h' (Hd (h_lin hd) (Some v) true))
(* SetCollection on an existing name: a new writable handle h' on the same version
   (cnew.root = cold.rootAddRef()) and the old handle closed (cold.closeCollection():
   its reference is dropped again), taken as one step: between the two the count is one
   higher, which is harmless, and the application no longer uses the old handle.
   Not while a mutation of that lineage is in flight (single mutator thread). *)
| s_share s h hd v h' :
    handles s !! h = Some hd -> h_ro hd = false -> h_root hd = Some v ->
    handles s !! h' = None -> muts s !! (h_lin hd) = None ->
    step s (set_handle (set_handle s h (Hd (h_lin hd) None false)) h' (Hd (h_lin hd) (Some v) false))
(* closeCollection (RemoveCollection, Store.Close, FlushRevert, replaced handle):
   the writable handle is not closed while its own mutation is in flight *)
| s_close s h hd v s' :
    handles s !! h = Some hd -> h_root hd = Some v ->
    (forall m, muts s !! (h_lin hd) = Some m -> m_handle m <> h) ->
    decref (set_handle s h (Hd (h_lin hd) None (h_ro hd))) v s' ->
    step s s'
(* SetItem/Delete begin: rootAddRef on the writable handle's current version *)
| s_mbegin s h hd v x :
    handles s !! h = Some hd -> h_ro hd = false -> h_root hd = Some v -> vers s !! v = Some x ->
    muts s !! (h_lin hd) = None ->
    step s (set_mut (upd_ver s v (with_refs x (S (v_refs x)))) (h_lin hd) (Some (Mut h v ∅)))
(* union/split/join: allocate nodes (mkNode: fresh or REUSED from the free list) and
   mark replaced nodes with the pinned version's mark (markReclaimable: only unmarked
   nodes get marked); marked cells are in the old tree or among this mutation's fresh cells *)
| s_mbuild s l m x (new mkd : gset cell) :
    muts s !! l = Some m -> vers s !! (m_ver m) = Some x ->
    (forall n, n ∈ new -> allocatable s n) ->
    mkd ⊆ v_tree x ∪ m_fresh m ∪ new ->
    (forall n, n ∈ mkd -> n ∉ new -> marks s !! n = Some U) ->
    step s (set_mut (set_marks s (setm mkd (M (m_ver m)) (setm new U (marks s))))
                    l (Some (Mut (m_handle m) (m_ver m) (m_fresh m ∪ new))))
(* a failed mutation (file read error): the marks are cleared on the current tree
   (unmarkReclaimable) and the pin is dropped; its fresh cells are garbage *)
| s_mabort s l m x s' :
    muts s !! l = Some m -> vers s !! (m_ver m) = Some x ->
    decref (set_mut (set_marks s
              (setm (filter (fun n => marks s !! n = Some (M (m_ver m))) (v_tree x)) U (marks s)))
              l None) (m_ver m) s' ->
    step s s'
(* mkRootNodeLoc + reclaimMarkUpdate + rootCAS + the two rootDecRef of a successful
   SetItem/Delete.  tr' is the published tree: built from the old tree and fresh cells
   and containing NO cell carrying the old version's mark; rm (re-marked to the new
   version: reclaimLater) are cells carrying the old version's mark. *)
| s_mcas s l m hd x v' (tr' lat' rm : gset cell) s1 s2 :
    muts s !! l = Some m -> handles s !! (m_handle m) = Some hd -> h_root hd = Some (m_ver m) ->
    vers s !! (m_ver m) = Some x -> vers s !! v' = None ->
    tr' ⊆ v_tree x ∪ m_fresh m ->
    (forall n, n ∈ tr' -> marks s !! n = Some U) ->
    rm ⊆ v_tree x ∪ m_fresh m ->
    (* reclaimLater: cells already marked by the old version are re-marked to the new one
       (reclaimMarkUpdate); Delete also marks the removed node itself directly with the new
       version's mark (collection.go:263): an unmarked cell that is not in the new tree *)
    (forall n, n ∈ rm -> marks s !! n = Some (M (m_ver m)) \/ (marks s !! n = Some U /\ n ∉ tr')) ->
    lat' ⊆ rm ->
    let chained := bool_decide (2 < v_refs x) in
    let xnew := Ver l (S (v_seq x)) tr' lat' (if chained then 2 else 1) None false in
    let xold := Ver (v_lin x) (v_seq x) (v_tree x) (v_later x) (v_refs x)
                    (if chained then Some v' else v_chain x) true in
    s1 = St (setm rm (M v') (marks s))
            (<[v' := xnew]> (<[m_ver m := xold]> (vers s)))
            (<[m_handle m := Hd (h_lin hd) (Some v') false]> (handles s))
            (pins s) (delete l (muts s)) ->
    (* t.rootDecRef(rnl) twice: the mutation's pin and the handle's former reference *)
    (exists s', decref s1 (m_ver m) s' /\
       (vers s' !! (m_ver m) = None -> s2 = s') /\
       (vers s' !! (m_ver m) <> None -> decref s' (m_ver m) s2)) ->
    step s s2.

Definition init : state := St ∅ ∅ ∅ ∅ ∅.

Inductive reachable : state -> Prop :=
| r_init : reachable init
| r_step s s' : reachable s -> step s s' -> reachable s'.
