(* LazySeq2.v — LazySeq extended by whole visits, Len and GetTotals.  A visit touches, for every node it enters, the
   node record and the item key-only, re-reads the item with the caller's withValue just before delivering it, and --
   when it leaves the node -- drops the node's cached item again (treap.go visitNodes: the deferred Evict), so that the
   next call has to read that item once more.  Executable; compared call by call with the implementation. *)
From GK Require Import Base Treap Codec Disk Lazy LazyMut LazySeq.
From Coq Require Import ZArith List Bool.
Import ListNotations.
Open Scope Z_scope.

Section WithCmp.
Variable cmp : bytes -> bytes -> comparison.

Definition vch (asc : bool) (target : bytes) (it : item) : bool :=
  if asc then match cmp target (ikey it) with Gt => false | _ => true end
  else match cmp target (ikey it) with Gt => true | _ => false end.

(* touches of a visit; b = deliveries the visitor still answers true to; result: touches, budget left, keepGoing *)
Fixpoint visit_vt (asc : bool) (t : tree) (target : bytes) (wv : bool) (b : nat) : list vtouch * nat * bool :=
  match t with
  | E => ([], b, true)
  | T nl l il it _ _ r =>
    let t0 := (match nl with Some p => [VN p] | None => [] end) ++ (match il with Some q => [VI q it false] | None => [] end) in
    let rv := match il with Some q => [VI q it wv] | None => [] end in
    let choiceT := if asc then l else r in
    let choiceF := if asc then r else l in
    if vch asc target it then
      let '(r1, b1, k1) := visit_vt asc choiceT target wv b in
      if k1 then
        match b1 with
        | O => (t0 ++ r1 ++ rv, O, false)
        | S b' => let '(r2, b2, k2) := visit_vt asc choiceF target wv b' in (t0 ++ r1 ++ rv ++ r2, b2, k2)
        end
      else (t0 ++ r1, b1, false)
    else
      let '(r2, b2, k2) := visit_vt asc choiceF target wv b in (t0 ++ r2, b2, k2)
  end.

End WithCmp.

(* the items a visit touched are dropped from memory when it leaves their nodes *)
Definition item_offs (ts : list vtouch) : list Z :=
  flat_map (fun x => match x with VI q _ _ => [poff q] | VN _ => [] end) ts.
Definition evict (m : mem) (offs : list Z) : mem :=
  filter (fun e => negb (existsb (Z.eqb (fst e)) offs)) m.

Inductive sop2 :=
| S1 (o : sop)
| SVis (asc : bool) (target : bytes) (wv : bool) (b : nat)
| SLen                                   (* MinItem(false), then a key-only ascending visit from the minimum *)
| STot.                                  (* GetTotals: the root node record *)

Definition sstep2 (cmp : bytes -> bytes -> comparison) (t : tree) (m : mem) (o : sop2) : list rd * tree * mem :=
  match o with
  | S1 o => sstep cmp t m o
  | SVis asc target wv b =>
    let ts := fst (fst (visit_vt cmp asc t target wv b)) in
    let '(rs, m') := vreads m ts in (rs, t, evict m' (item_offs ts))
  | SLen =>
    match tmin t with
    | None => let '(rs, m') := vreads m (walk_t true false t) in (rs, t, m')
    | Some mi =>
      let '(r1, m1) := vreads m (walk_t true false t) in
      let ts := fst (fst (visit_vt cmp true t (ikey mi) false (S (Treap.size t)))) in
      let '(r2, m2) := vreads m1 ts in (r1 ++ r2, t, evict m2 (item_offs ts))
    end
  | STot => let '(rs, m') := vreads m (match t with T (Some p) _ _ _ _ _ _ => [VN p] | _ => [] end) in (rs, t, m')
  end.

Fixpoint srun_reads2 (cmp : bytes -> bytes -> comparison) (t : tree) (m : mem) (ops : list sop2) : list (list rd) :=
  match ops with
  | [] => []
  | o :: r => let '(rs, t', m') := sstep2 cmp t m o in rs :: srun_reads2 cmp t' m' r
  end.

Definition seq2_reads_file (cmp : bytes -> bytes -> comparison) (f : file) (l : option ploc) (b : Z) (ops : list sop2)
  : option (list (list rd)) :=
  match load (S (length f)) f l b (S (length f)) with
  | Some (t, _) => Some (srun_reads2 cmp t [] ops)
  | None => None
  end.
