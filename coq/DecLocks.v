(* DecLocks.v — part of the decision theorems (see DecBase.v): which functions may run a StoreCallbacks hook while they
   hold a lock.  Regenerated from the Go source on every run (Generated.g_funcs: callees invoked under a lock, functions
   that call a StoreCallbacks field; Generated.g_reach: reachability, checked closed in CallGraph.v). *)
From GK Require Import GExpr Generated CallGraph.
From Coq Require Import List String ZArith Bool.
Import ListNotations.

Definition reach_of (n : string) : list string :=
  match find (fun p => String.eqb (fst p) n) g_reach with Some p => snd p | None => [] end.
Definition is_cb (n : string) : bool :=
  match find (fun f => String.eqb (g_name f) n) g_funcs with Some f => g_callback f | None => false end.

(* functions with a call site, inside one of their lock regions, from which a function that invokes a StoreCallbacks
   hook is reachable *)
Definition hook_under_lock : list string :=
  map g_name (filter (fun f => existsb (fun c => existsb is_cb (reach_of c)) (g_under f)) g_funcs).

(* only the release of a version's last reference (rootDecRef: rootLock, then freeNodeLock, around the reclaim that
   gives item references back through ItemDecRef) and the statistics helper run hooks under a lock.  In particular the
   store's collection-table mutex is never held while a hook runs: FlushRevert, SetCollection, RemoveCollection and Close
   swap the table first and close the old collections afterwards, so a hook may look at the table (C08: FlushRevert
   always terminates; C18: nothing deadlocks) *)
Theorem hooks_under_locks : hook_under_lock = ["Collection.rootDecRef"; "withAllocLocks"].
Proof. vm_compute. reflexivity. Qed.
