(* CopyRunProofs.v — Store.CopyTo, seen as the history CopyRun.copy_ops of calls on the destination store:
   every call succeeds (CR1), the destination ends up with exactly the source's collections and items (CR2),
   nothing is left unflushed when flushEvery > 0 (CR3), the byte-level store agrees (CR4), and the history
   registers every name once (CR5). *)
From GK Require Import Base Order Treap TreapSpec Store StoreSpec StoreRefine Codec CodecProofs Disk DiskProofs DStore DStoreRefine CopyTo CopyRun.
From Coq Require Import Lia ZArith NArith List Bool Sorted.
Import ListNotations.

(* ================================================================== *)
(* 0. Definitions                                                      *)

(* what the source looks like to CopyTo: names strictly ascending (bytewise), every collection's items strictly
   ascending under its comparator, every item valid for SetItem *)
Definition src_ok (src : list src_coll) : Prop :=
  StronglySorted (fun a b => cmp_bytes (fst (fst a)) (fst (fst b)) = Lt) src /\
  Forall (fun c => let '(name, cmpid, items) := c in
            (cmpid < 4)%nat /\
            StronglySorted (fun a b => cmp_of cmpid (ikey a) (ikey b) = Lt) items /\
            Forall (fun it => valid_item (ikey it) (Some (ival it)) (iprio it) = true) items) src.

(* the state a history leads to (the fold used in the statements) *)
Definition final (s : store) (ops : list op) : store :=
  fold_left (fun s o => fst (step s o)) ops s.

(* all keys of an association list are below n *)
Definition below (ks : list bytes) (n : bytes) : Prop := Forall (fun k => cmp_bytes k n = Lt) ks.

(* the tree CopyTo builds for one collection, and the destination's entry for it *)
Definition tree_of (id : nat) (items : list item) : tree :=
  fold_left (fun t it => insert (cmp_of id) t it) items E.

Definition mkc (c : src_coll) : bytes * coll :=
  (fst (fst c), mkColl (snd (fst c)) (tree_of (snd (fst c)) (snd c))).

(* ================================================================== *)
(* 1. src_ok in the vocabulary of TreapSpec / CopyTo                   *)

Lemma ssorted_sorted : forall cmp l,
  StronglySorted (fun a b => cmp (ikey a) (ikey b) = Lt) l -> sorted cmp l.
Proof.
  intros cmp l H. induction H as [|a l Hs IH Hf]; cbn [sorted]; [exact I|].
  split; [exact Hf | exact IH].
Qed.

Lemma src_ok_parts : forall src, src_ok src ->
  StronglySorted (fun a b => cmp_bytes (fst (fst a)) (fst (fst b)) = Lt) src /\
  Forall (fun c => Forall item_valid (snd c)) src /\
  Forall (fun c => sorted (cmp_of (snd (fst c))) (snd c)) src.
Proof.
  intros src [Hs Hf]. split; [exact Hs|].
  split; (eapply Forall_impl; [|exact Hf]); intros [[n id] items] (_ & H1 & H2); cbn [fst snd].
  - exact H2.
  - apply ssorted_sorted. exact H1.
Qed.

(* ================================================================== *)
(* 2. association lists: a name above all names goes to the end        *)

Section Snoc.
Context {A : Type}.
Implicit Types (m : list (bytes * A)) (n : bytes) (c : A).

Lemma cget_below : forall m n, below (map fst m) n -> cget m n = None.
Proof.
  induction m as [|[k v] m IH]; intros n H; cbn [cget]; auto.
  cbn [map fst] in H. inversion H; subst.
  rewrite (cmp_bytes_opp k n), H2. cbn [CompOpp]. auto.
Qed.

Lemma cset_below : forall m n c, below (map fst m) n -> cset m n c = m ++ [(n, c)].
Proof.
  induction m as [|[k v] m IH]; intros n c H; cbn [cset app]; auto.
  cbn [map fst] in H. inversion H; subst.
  rewrite (cmp_bytes_opp k n), H2. cbn [CompOpp]. rewrite IH by assumption. reflexivity.
Qed.

Lemma cget_snoc : forall m n c, below (map fst m) n -> cget (m ++ [(n, c)]) n = Some c.
Proof.
  induction m as [|[k v] m IH]; intros n c H; cbn [cget app].
  - rewrite cmp_bytes_refl. reflexivity.
  - cbn [map fst] in H. inversion H; subst.
    rewrite (cmp_bytes_opp k n), H2. cbn [CompOpp]. auto.
Qed.

Lemma cset_snoc : forall m n c c', below (map fst m) n -> cset (m ++ [(n, c)]) n c' = m ++ [(n, c')].
Proof.
  induction m as [|[k v] m IH]; intros n c c' H; cbn [cset app].
  - rewrite cmp_bytes_refl. reflexivity.
  - cbn [map fst] in H. inversion H; subst.
    rewrite (cmp_bytes_opp k n), H2. cbn [CompOpp]. rewrite IH by assumption. reflexivity.
Qed.

Lemma below_snoc : forall m n c n', below (map fst m) n' -> cmp_bytes n n' = Lt ->
  below (map fst (m ++ [(n, c)])) n'.
Proof.
  intros m n c n' H1 H2. unfold below. rewrite map_app. apply Forall_app. split; [exact H1|].
  constructor; [exact H2 | constructor].
Qed.

End Snoc.

(* ================================================================== *)
(* 3. the three kinds of steps CopyTo makes                            *)

Lemma step_coll_new : forall cur fl reg name id, cget cur name = None ->
  step (mkStore true cur fl reg) (OColl name id) =
  (mkStore true (cset cur name (mkColl id E)) fl (cset reg name id), ROk).
Proof.
  intros cur fl reg name id H. unfold step. cbv beta iota zeta.
  cbn [s_file s_cur s_flushed s_cmpreg]. rewrite H. reflexivity.
Qed.

Lemma step_set_valid : forall cur fl reg name c it, cget cur name = Some c -> item_valid it ->
  step (mkStore true cur fl reg) (OSet name (ikey it) (Some (ival it)) (iprio it)) =
  (mkStore true (cset cur name (mkColl (c_cmp c) (insert (cmp_of (c_cmp c)) (c_tree c) it))) fl reg, ROk).
Proof.
  intros cur fl reg name c [k v p] H Hv. unfold item_valid in Hv. cbn [ikey ival iprio] in *.
  unfold step. cbv beta iota zeta. cbn [s_file s_cur s_flushed s_cmpreg]. rewrite H.
  rewrite (set_item_spec _ _ _ _ _ Hv). unfold with_cur. cbn [s_file s_cur s_flushed s_cmpreg].
  reflexivity.
Qed.

Lemma step_flush_file : forall cur fl reg,
  step (mkStore true cur fl reg) OFlush = (mkStore true cur (cur :: fl) reg, ROk).
Proof. reflexivity. Qed.

(* ================================================================== *)
(* 4. runs and final states                                            *)

Lemma final_cons : forall s o ops, final s (o :: ops) = final (fst (step s o)) ops.
Proof. reflexivity. Qed.

Lemma final_app : forall a b s, final s (a ++ b) = final (final s a) b.
Proof. intros. unfold final. apply fold_left_app. Qed.

Lemma run_app : forall a b s, run s (a ++ b) = run s a ++ run (final s a) b.
Proof.
  induction a as [|o a IH]; intros b s; [reflexivity|].
  rewrite final_cons. cbn [app run]. destruct (step s o) as [s' r]. cbn [fst app].
  rewrite IH. reflexivity.
Qed.

(* a piece of history all of whose calls answer ROk and that leads to the collections cur' *)
Definition good (s : store) (ops : list op) (cur' : colls) : Prop :=
  Forall (fun o => o = ROk) (run s ops) /\
  exists fl' reg', final s ops = mkStore true cur' fl' reg'.

Lemma good_nil : forall cur fl reg, good (mkStore true cur fl reg) [] cur.
Proof. intros. split; [constructor|]. do 2 eexists. reflexivity. Qed.

Lemma good_cons : forall s o s' ops cur', step s o = (s', ROk) -> good s' ops cur' ->
  good s (o :: ops) cur'.
Proof.
  intros s o s' ops cur' Hs [H1 H2]. split.
  - cbn [run]. rewrite Hs. constructor; [reflexivity | exact H1].
  - rewrite final_cons, Hs. exact H2.
Qed.

Lemma good_app : forall s a b cur1 cur2, good s a cur1 ->
  (forall fl reg, good (mkStore true cur1 fl reg) b cur2) -> good s (a ++ b) cur2.
Proof.
  intros s a b cur1 cur2 [H1 (fl & reg & H2)] Hb. destruct (Hb fl reg) as [H3 H4]. split.
  - rewrite run_app, H2. apply Forall_app. split; assumption.
  - rewrite final_app, H2. exact H4.
Qed.

(* ================================================================== *)
(* 5. the items of one collection, one collection, all collections     *)

Lemma items_good : forall fe name id items pre t fl reg i,
  below (map fst pre) name -> Forall item_valid items ->
  good (mkStore true (pre ++ [(name, mkColl id t)]) fl reg) (copy_items name items fe i)
       (pre ++ [(name, mkColl id (fold_left (fun t it => insert (cmp_of id) t it) items t))]).
Proof.
  intros fe name id. induction items as [|it items IH]; intros pre t fl reg i Hb Hv.
  - cbn [copy_items fold_left]. apply good_nil.
  - inversion Hv; subst. cbn [copy_items fold_left].
    eapply good_cons.
    + rewrite (step_set_valid _ _ _ name (mkColl id t) it); [|apply cget_snoc; exact Hb|assumption].
      cbn [c_cmp c_tree]. rewrite cset_snoc by exact Hb. reflexivity.
    + destruct ((0 <? fe)%nat && (S i mod fe =? 0)%nat); cbn [app].
      * eapply good_cons; [apply step_flush_file|]. apply IH; assumption.
      * apply IH; assumption.
Qed.

Lemma coll_good : forall fe c pre fl reg,
  below (map fst pre) (fst (fst c)) -> Forall item_valid (snd c) ->
  good (mkStore true pre fl reg) (copy_coll fe c) (pre ++ [mkc c]).
Proof.
  intros fe [[name id] items] pre fl reg Hb Hv. cbn [fst snd] in Hb, Hv.
  unfold copy_coll, mkc, tree_of. cbn [fst snd].
  eapply good_cons.
  - rewrite step_coll_new by (apply cget_below; exact Hb).
    rewrite cset_below by exact Hb. reflexivity.
  - apply items_good; assumption.
Qed.

Lemma src_good : forall fe src pre fl reg,
  Forall (fun c => below (map fst pre) (fst (fst c))) src ->
  StronglySorted (fun a b => cmp_bytes (fst (fst a)) (fst (fst b)) = Lt) src ->
  Forall (fun c => Forall item_valid (snd c)) src ->
  good (mkStore true pre fl reg) (flat_map (copy_coll fe) src) (pre ++ map mkc src).
Proof.
  intros fe. induction src as [|c src IH]; intros pre fl reg Hb Hs Hv.
  - cbn [flat_map map]. rewrite app_nil_r. apply good_nil.
  - cbn [flat_map map]. inversion Hb; subst. inversion Hv; subst.
    apply StronglySorted_inv in Hs. destruct Hs as [Hs Hlt].
    eapply good_app; [apply coll_good; assumption|].
    intros fl' reg'.
    replace (pre ++ mkc c :: map mkc src) with ((pre ++ [mkc c]) ++ map mkc src)
      by (rewrite <- app_assoc; reflexivity).
    apply IH; [|exact Hs|assumption].
    rewrite Forall_forall in *. intros c' Hin.
    unfold mkc at 1. apply below_snoc; [apply H2; exact Hin | apply Hlt; exact Hin].
Qed.

(* the whole history, from the empty destination *)
Lemma copy_good : forall src fe, src_ok src ->
  good (init true) (copy_ops src fe) (map mkc src).
Proof.
  intros src fe Hok. destruct (src_ok_parts _ Hok) as (Hs & Hv & _).
  unfold copy_ops. change (init true) with (mkStore true [] [] []).
  eapply good_app.
  - change (map mkc src) with ([] ++ map mkc src). apply src_good; [|exact Hs|exact Hv].
    apply Forall_forall. intros c _. constructor.
  - intros fl reg. destruct (0 <? fe)%Z.
    + eapply good_cons; [apply step_flush_file | apply good_nil].
    + apply good_nil.
Qed.

(* what the destination's entry for a source collection contains *)
Lemma mkc_contents : forall c, sorted (cmp_of (snd (fst c))) (snd c) ->
  (fst (mkc c), c_cmp (snd (mkc c)), elems (c_tree (snd (mkc c)))) = c.
Proof.
  intros [[name id] items] Hs. cbn [fst snd] in Hs. unfold mkc, tree_of. cbn [fst snd c_cmp c_tree].
  destruct (fold_insert_gen (cmp_of id) (cmp_of_laws id) items E I Hs) as [He _].
  cbn zeta in He. rewrite He. reflexivity.
Qed.

(* ================================================================== *)
(* 6. The theorems                                                     *)

(* CR5: a name is registered once, with one comparator *)
Lemma ops_ok_items : forall fe name items i reg rest,
  ops_ok reg rest -> ops_ok reg (copy_items name items fe i ++ rest).
Proof.
  intros fe name. induction items as [|it items IH]; intros i reg rest H; [exact H|].
  cbn [copy_items app ops_ok].
  destruct ((0 <? fe)%nat && (S i mod fe =? 0)%nat); cbn [app ops_ok]; apply IH; exact H.
Qed.

Lemma ops_ok_src : forall fe tail, (forall reg, ops_ok reg tail) -> forall src reg,
  Forall (fun c => below (map fst reg) (fst (fst c))) src ->
  StronglySorted (fun a b => cmp_bytes (fst (fst a)) (fst (fst b)) = Lt) src ->
  ops_ok reg (flat_map (copy_coll fe) src ++ tail).
Proof.
  intros fe tail Ht. induction src as [|[[name id] items] src IH]; intros reg Hb Hs.
  - cbn [flat_map app]. apply Ht.
  - cbn [flat_map copy_coll]. inversion Hb; subst. cbn [fst snd] in *.
    apply StronglySorted_inv in Hs. destruct Hs as [Hs Hlt].
    rewrite <- app_assoc. cbn [app ops_ok]. split.
    + left. apply cget_below. assumption.
    + apply ops_ok_items. rewrite cset_below by assumption. apply IH; [|exact Hs].
      rewrite Forall_forall in *. intros c' Hin.
      apply below_snoc; [apply H2; exact Hin | apply (Hlt c' Hin)].
Qed.

Theorem copy_ops_ok : forall src fe, src_ok src -> ops_ok [] (copy_ops src fe).
Proof.
  intros src fe Hok. destruct (src_ok_parts _ Hok) as (Hs & _ & _).
  unfold copy_ops. apply ops_ok_src; [| |exact Hs].
  - intro reg. destruct (0 <? fe)%Z; exact I.
  - apply Forall_forall. intros c _. constructor.
Qed.
Print Assumptions copy_ops_ok.

(* CR1: every call CopyTo makes on the destination succeeds *)
Theorem copy_all_ok : forall src fe, src_ok src ->
  Forall (fun o => o = ROk) (run (init true) (copy_ops src fe)).
Proof. intros src fe Hok. exact (proj1 (copy_good src fe Hok)). Qed.
Print Assumptions copy_all_ok.

(* CR2: the destination ends up with exactly the source's collections (same names, same comparators) and, in
   each, exactly the source's items (keys, values, priorities) *)
Theorem copy_contents : forall src fe, src_ok src ->
  let s := fold_left (fun s o => fst (step s o)) (copy_ops src fe) (init true) in
  map (fun nc => (fst nc, c_cmp (snd nc), elems (c_tree (snd nc)))) (s_cur s) = src.
Proof.
  intros src fe Hok s. destruct (copy_good src fe Hok) as [_ (fl & reg & Hf)].
  unfold final in Hf. subst s. rewrite Hf. cbn [s_cur].
  destruct (src_ok_parts _ Hok) as (_ & _ & Hso).
  rewrite map_map. rewrite <- (map_id src) at 2. apply map_ext_in.
  intros c Hin. rewrite Forall_forall in Hso. apply mkc_contents. apply Hso. exact Hin.
Qed.
Print Assumptions copy_contents.

(* CR3: with flushEvery > 0 that state is the last flushed state: nothing is left unflushed.
   Store.step's OFlush stores the collections unchanged, so plain equality holds ... *)
Theorem copy_flushed_eq : forall src fe, src_ok src -> (0 < fe)%Z ->
  let s := fold_left (fun s o => fst (step s o)) (copy_ops src fe) (init true) in
  exists rest, s_flushed s = s_cur s :: rest.
Proof.
  intros src fe Hok Hfe s. subst s. fold (final (init true) (copy_ops src fe)).
  unfold copy_ops. apply Z.ltb_lt in Hfe. rewrite Hfe. rewrite final_app.
  destruct (src_ok_parts _ Hok) as (Hs & Hv & _).
  assert (G : good (init true) (flat_map (copy_coll (Z.to_nat fe)) src) (map mkc src)).
  { change (init true) with (mkStore true [] [] []).
    change (map mkc src) with ([] ++ map mkc src). apply src_good; [|exact Hs|exact Hv].
    apply Forall_forall. intros c _. constructor. }
  destruct G as [_ (fl & reg & Hf)]. rewrite Hf.
  rewrite final_cons, step_flush_file. cbn [fst]. unfold final. cbn [fold_left s_flushed s_cur].
  exists fl. reflexivity.
Qed.
Print Assumptions copy_flushed_eq.

(* ... and therefore the statement up to persisted locations *)
Theorem copy_flushed : forall src fe, src_ok src -> (0 < fe)%Z ->
  let s := fold_left (fun s o => fst (step s o)) (copy_ops src fe) (init true) in
  exists st rest, s_flushed s = st :: rest /\ ecolls st = ecolls (s_cur s).
Proof.
  intros src fe Hok Hfe s. destruct (copy_flushed_eq src fe Hok Hfe) as [rest H].
  exists (s_cur s), rest. split; [exact H | reflexivity].
Qed.
Print Assumptions copy_flushed.

(* CR4: the byte-level store agrees *)
Theorem copy_bytes_agree : forall src fe,
  ops_ok [] (copy_ops src fe) -> history_ok (copy_ops src fe) ->
  fst (copy_result src fe) = run (init true) (copy_ops src fe).
Proof.
  intros src fe Hops Hh. unfold copy_result. cbn [fst].
  apply dstore_refines_store_exact; assumption.
Qed.
Print Assumptions copy_bytes_agree.

(* with CR5 and CR1: for a src_ok source whose history meets the byte-level side conditions, every call on the
   byte-level destination succeeds *)
Corollary copy_bytes_all_ok : forall src fe, src_ok src -> history_ok (copy_ops src fe) ->
  Forall (fun o => o = ROk) (fst (copy_result src fe)).
Proof.
  intros src fe Hok Hh. rewrite (copy_bytes_agree src fe (copy_ops_ok src fe Hok) Hh).
  apply copy_all_ok. exact Hok.
Qed.
Print Assumptions copy_bytes_all_ok.

(* ================================================================== *)
(* 7. Non-vacuity                                                      *)

(* two collections; the second uses comparator 1 (reversed order) and lists its items ascending under it *)
Definition ex_src : list src_coll :=
  [ ([97]%N, 0%nat,
     [ mkItem [107; 49]%N [118; 49]%N 5; mkItem [107; 50]%N [118]%N 3; mkItem [107; 51]%N [118; 0; 255]%N 9 ]);
    ([98]%N, 1%nat,
     [ mkItem [122]%N [1]%N 2; mkItem [109]%N [2; 3]%N 4 ]) ].

Lemma ex_src_ok : src_ok ex_src.
Proof.
  split.
  - repeat constructor.
  - repeat constructor.
Qed.

Example ex_copy : exists src, src_ok src /\ (2 <= length src)%nat /\ history_ok (copy_ops src 2) /\
  Forall (fun o => o = ROk) (fst (copy_result src 2)).
Proof.
  exists ex_src. split; [exact ex_src_ok|]. split; [cbn; lia|].
  assert (Hh : history_ok (copy_ops ex_src 2)) by (vm_compute; reflexivity).
  split; [exact Hh|]. apply copy_bytes_all_ok; [exact ex_src_ok | exact Hh].
Qed.
Print Assumptions ex_copy.

(* the history of the example, and what the theorems say about it, computed *)
Example ex_copy_history : copy_ops ex_src 2 =
  [ OColl [97]%N 0; OSet [97]%N [107; 49]%N (Some [118; 49]%N) 5; OSet [97]%N [107; 50]%N (Some [118]%N) 3; OFlush;
    OSet [97]%N [107; 51]%N (Some [118; 0; 255]%N) 9;
    OColl [98]%N 1; OSet [98]%N [122]%N (Some [1]%N) 2; OSet [98]%N [109]%N (Some [2; 3]%N) 4; OFlush;
    OFlush ].
Proof. vm_compute. reflexivity. Qed.
