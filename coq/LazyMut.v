(* LazyMut.v — M4c: which bytes of the file SetItem and Delete read on a store that has just been
   opened (nothing cached).  treap.go union / split / join and node.go numInfo, instrumented: every
   nodeLoc.read and every itemLoc.read(withValue = false) the code performs is recorded as a TOUCH, in
   the order of the code; a touch of a record that is not yet in memory costs the ReadAt calls of
   Lazy.node_reads / Lazy.item_reads, a touch of a record already loaded during the same call costs
   nothing (reads_of).  The result trees are those of Treap.split / join / union (proved in
   LazyMutProofs.v), so this is the same algorithm, observed.  Executable; the predicted read lists are
   compared with the ReadAt calls of the implementation (C19). *)
From GK Require Import Base Treap Codec Disk Lazy.
From Coq Require Import ZArith List Bool.
Import ListNotations.
Open Scope Z_scope.

Inductive touch := TN (p : ploc) | TI (q : ploc) (it : item).

(* nodeLoc.read on the root of t: a read only when the node is persisted *)
Definition tn (t : tree) : list touch :=
  match t with T (Some p) _ _ _ _ _ _ => [TN p] | _ => [] end.
(* itemLoc.read(false) on the item of the root of t *)
Definition ti (t : tree) : list touch :=
  match t with T _ _ (Some q) it _ _ _ => [TI q it] | _ => [] end.

Section WithCmp.
Variable cmp : bytes -> bytes -> comparison.

(* collection.go GetItem(key, false): node, item, compare, descend *)
Fixpoint get_t (t : tree) (k : bytes) : list touch :=
  match t with
  | E => []
  | T _ l _ it _ _ r =>
    tn t ++ ti t ++
    match cmp k (ikey it) with
    | Lt => get_t l k
    | Gt => get_t r k
    | Eq => []
    end
  end.

(* treap.go split; numInfo(left, right) reads both nodes, left first *)
Fixpoint split_t (t : tree) (s : bytes) : (tree * option (option ploc * item) * tree) * list touch :=
  match t with
  | E => ((E, None, E), [])
  | T nl l il it nn nb r =>
    let t0 := tn t ++ ti t in
    match cmp s (ikey it) with
    | Eq => ((l, Some (il, it), r), t0 ++ tn l ++ tn r)   (* both children are loaded in place before they are copied *)
    | Lt =>
      match l with
      | E => ((E, None, t), t0)
      | _ => let '((ll, m, lr), tl) := split_t l s in
             ((ll, m, mk lr il it r), t0 ++ tl ++ tn lr ++ tn r)
      end
    | Gt =>
      match r with
      | E => ((t, None, E), t0)
      | _ => let '((rl, m, rr), tr) := split_t r s in
             ((mk l il it rl, m, rr), t0 ++ tr ++ tn l ++ tn rl)
      end
    end
  end.

(* treap.go join: both nodes are read before the emptiness tests *)
Fixpoint join_t (this : tree) : tree -> tree * list touch :=
  fix join_that (that : tree) : tree * list touch :=
  match this, that with
  | E, _ => (that, tn that)
  | _, E => (this, tn this)
  | T _ tl til ti_ _ _ tr, T _ al ail ai _ _ ar =>
    let t0 := tn this ++ tn that ++ ti this ++ ti that in
    if iprio ti_ >? iprio ai then
      let '(nr, t1) := join_t tr that in
      (mk tl til ti_ nr, t0 ++ t1 ++ tn tl ++ tn nr)
    else
      let '(nl, t1) := join_that al in
      (mk nl ail ai ar, t0 ++ t1 ++ tn nl ++ tn ar)
  end.

(* treap.go union, on fuel like Treap.union *)
Fixpoint union_t (fuel : nat) (this that : tree) : option (tree * list touch) :=
  match fuel with
  | O => None
  | S f =>
    match this, that with
    | E, _ => Some (that, tn that)
    | _, E => Some (this, tn this)
    | T _ tl til ti_ _ _ tr, T _ al ail ai _ _ ar =>
      let t0 := tn this ++ tn that ++ ti this ++ ti that in
      if iprio ti_ >? iprio ai then
        let '((l, m, r), ts) := split_t that (ikey ti_) in
        match union_t f tl l, union_t f tr r with
        | Some (nl, t1), Some (nr, t2) =>
          let res := match m with
                     | Some (mil, mi) => mk nl mil mi nr
                     | None => mk nl til ti_ nr
                     end in
          Some (res, t0 ++ ts ++ t1 ++ t2 ++ tn nl ++ tn nr)
        | _, _ => None
        end
      else
        let '((l, _, r), ts) := split_t this (ikey ai) in
        match union_t f l al, union_t f r ar with
        | Some (nl, t1), Some (nr, t2) =>
          Some (mk nl ail ai nr, t0 ++ ts ++ t1 ++ t2 ++ tn nl ++ tn nr)
        | _, _ => None
        end
    end
  end.

End WithCmp.

(* a touched record is read from the file the first time only *)
Definition seen (o : Z) (s : list Z) : bool := existsb (Z.eqb o) s.

Fixpoint reads_of (s : list Z) (ts : list touch) : list rd :=
  match ts with
  | [] => []
  | TN p :: r =>
    if seen (poff p) s then reads_of s r else node_reads p ++ reads_of (poff p :: s) r
  | TI q it :: r =>
    if seen (poff q) s then reads_of s r else item_reads q it false ++ reads_of (poff q :: s) r
  end.

(* collection.go SetItem: validation (no I/O), then union(root, new node) *)
Definition set_touches (cmp : bytes -> bytes -> comparison) (t : tree) (key : bytes) (val : option bytes)
           (prio : Z) : list touch :=
  match val with
  | Some v =>
    if valid_item key val prio then
      match union_t cmp (S (S (height t))) t (single (mkItem key v prio)) with
      | Some (_, ts) => ts
      | None => []
      end
    else []
  | None => []
  end.

Definition set_treads cmp t key val prio : list rd := reads_of [] (set_touches cmp t key val prio).

(* collection.go Delete: GetItem(key, false); when found, split at the key and join the two sides *)
Definition del_touches (cmp : bytes -> bytes -> comparison) (t : tree) (k : bytes) : list touch :=
  match lookup cmp t k with
  | None => get_t cmp t k
  | Some _ =>
    let '((l, _, r), ts) := split_t cmp t k in
    let '(_, tj) := join_t l r in
    get_t cmp t k ++ ts ++ tj
  end.

Definition del_treads cmp t k : list rd := reads_of [] (del_touches cmp t k).

(* from the file: the tree of collection root l as the independent decoder loads it *)
Definition mut_reads_file (cmp : bytes -> bytes -> comparison) (f : file) (l : option ploc) (b : Z)
           (set : bool) (key : bytes) (prio : Z) : option (list rd) :=
  match load (S (length f)) f l b (S (length f)) with
  | Some (t, _) => Some (if set then set_treads cmp t key (Some []) prio else del_treads cmp t key)
  | None => None
  end.
