(* Decisions.v — the decisions of the hand-written models ARE the decisions of the Go source.
   tools/gen translates every function body of /repo into Generated.g_code on every run; here the
   translated conditions (and, for the small pure functions, whole bodies) are evaluated with
   GExpr.geval / gexec and proved equal, for all values of their variables, to what Treap.v,
   Blocks.v, Codec.v, Lazy.v and Proto.v decide at the same points.  A change of a comparison, a
   bound or a validation in the source therefore breaks one of these theorems on the next run,
   whatever the random histories happen to exercise.
   The conditions are found by the variables they mention, so unrelated edits of a function do not
   disturb them. *)
From GK Require Import Base Treap Codec Blocks GExpr Generated.
From Coq Require Import ZArith NArith List String Bool Lia.
Import ListNotations.
Open Scope string_scope.
Open Scope list_scope.
Open Scope Z_scope.

Local Arguments Z.gtb : simpl never.
Local Arguments Z.ltb : simpl never.
Local Arguments Z.leb : simpl never.
Local Arguments Z.geb : simpl never.
Local Arguments Z.eqb : simpl never.
Local Arguments Z.quot : simpl never.
Local Arguments Z.rem : simpl never.
Local Arguments Z.add : simpl never.
Local Arguments Z.sub : simpl never.
Local Arguments Z.of_nat : simpl never.

(* ---- finding decisions ---- *)
Fixpoint mentions (v : string) (e : gexpr) : bool :=
  match e with
  | GVar n => (n =? v)%string
  | GSel a _ => mentions v a
  | GBin _ a b => mentions v a || mentions v b
  | GUn _ a => mentions v a
  | GCall f args => (f =? v)%string || existsb (mentions v) args
  | _ => false
  end.

Definition body (f : string) : list gstmt := lookup_code g_code f.
Definition decisions (f v : string) : list gexpr := filter (mentions v) (conds 400 (body f)).

(* environments *)
Definition env0 : env := fun _ => None.
Definition cmpz (c : comparison) : Z := match c with Lt => -1 | Eq => 0 | Gt => 1 end.

(* ------------------------------------------------------------------------------------------- *)
(* 1. treap.go union / join: the root is `this` iff this.Priority > that.Priority (strict): Treap.union, Treap.join *)

Definition prio_env (x y : Z) : env := upd (upd env0 "thisItem.Priority" x) "thatItem.Priority" y.

Theorem union_priority_decision :
  exists c, decisions "Store.union" "thisItem.Priority" = [c] /\
            forall x y, gtrue (prio_env x y) c = Some (x >? y).
Proof. eexists. split; [vm_compute; reflexivity|]. intros x y. cbn. destruct (x >? y); reflexivity. Qed.

Theorem join_priority_decision :
  exists c, decisions "Store.join" "thisItem.Priority" = [c] /\
            forall x y, gtrue (prio_env x y) c = Some (x >? y).
Proof. eexists. split; [vm_compute; reflexivity|]. intros x y. cbn. destruct (x >? y); reflexivity. Qed.

(* 2. split and GetItem branch on the three-way comparison exactly as Treap.split / Treap.lookup match on it *)
Definition c_env (c : Z) : env := upd env0 "c" c.

Theorem split_compare_decisions :
  exists c1 c2, decisions "Store.split" "c" = [c1; c2] /\
    forall o : comparison,
      gtrue (c_env (cmpz o)) c1 = Some (match o with Eq => true | _ => false end) /\
      gtrue (c_env (cmpz o)) c2 = Some (match o with Lt => true | _ => false end).
Proof. do 2 eexists. split; [vm_compute; reflexivity|]. intros [ | | ]; split; reflexivity. Qed.

Theorem getitem_compare_decisions :
  exists c1 c2, decisions "Collection.GetItem" "c" = [c1; c2] /\
    forall o : comparison,
      gtrue (c_env (cmpz o)) c1 = Some (match o with Lt => true | _ => false end) /\
      gtrue (c_env (cmpz o)) c2 = Some (match o with Gt => true | _ => false end).
Proof. do 2 eexists. split; [vm_compute; reflexivity|]. intros [ | | ]; split; reflexivity. Qed.

(* 3. SetItem's validation is Treap.valid_item.  A nil key and an empty key are both rejected, so the model's single
   empty list stands for both (keynil chooses which one the environment describes). *)
Definition item_env (keynil : bool) (key : bytes) (val : option bytes) (prio : Z) : env :=
  upd (upd (upd (upd env0 "item.Key" (if keynil then 0 else 1))
                 "len(item.Key)" (Z.of_nat (List.length key)))
            "item.Val" (match val with Some _ => 1 | None => 0 end))
       "item.Priority" prio.

Lemma valid_item_spec key val prio :
  valid_item key val prio =
  negb (Z.of_nat (List.length key) =? 0) && (match val with Some _ => true | None => false end) &&
  (Z.of_nat (List.length key) <=? 65535) && (0 <=? prio).
Proof.
  destruct key as [|k ks]; [destruct val; reflexivity|].
  assert (E : (Z.of_nat (List.length (k :: ks)) =? 0) = false) by (apply Z.eqb_neq; cbn [List.length]; lia).
  rewrite E. destruct val; reflexivity.
Qed.

Theorem setitem_validation_decisions :
  exists c1 c2,
    decisions "Collection.SetItem" "item.Key" = [c1] /\ decisions "Collection.SetItem" "item.Priority" = [c2] /\
    forall keynil key val prio, (keynil = true -> key = []) ->
      exists b1 b2, gtrue (item_env keynil key val prio) c1 = Some b1 /\
                    gtrue (item_env keynil key val prio) c2 = Some b2 /\
                    valid_item key val prio = negb b1 && negb b2.
Proof.
  do 2 eexists. split; [vm_compute; reflexivity|]. split; [vm_compute; reflexivity|].
  intros keynil key val prio Hnil.
  rewrite valid_item_spec.
  remember (Z.of_nat (List.length key)) as n eqn:En.
  assert (Hn0 : keynil = true -> n = 0) by (intro H; rewrite (Hnil H) in En; exact En).
  assert (Hn : 0 <= n) by (subst n; lia).
  unfold item_env, gtrue. rewrite <- En. clear En Hnil key.
  destruct keynil.
  - rewrite (Hn0 eq_refl). cbn. do 2 eexists. split; [reflexivity|]. split; [reflexivity|]. reflexivity.
  - clear Hn0. cbn.
    destruct (n >? 65535) eqn:E1; cbn.
    + do 2 eexists. split; [reflexivity|]. split; [reflexivity|].
      assert (n <=? 65535 = false) as -> by (apply Z.leb_gt; apply Z.gtb_lt in E1; lia).
      cbn. rewrite !andb_false_r. reflexivity.
    + assert (n <=? 65535 = true) as -> by (apply Z.leb_le; rewrite Z.gtb_ltb in E1; apply Z.ltb_ge in E1; lia).
      destruct (n =? 0) eqn:E0; cbn.
      * do 2 eexists. split; [reflexivity|]. split; [reflexivity|]. reflexivity.
      * destruct val as [v|]; cbn.
        -- do 2 eexists. split; [reflexivity|]. split; [reflexivity|].
           destruct (prio <? 0) eqn:E2; cbn.
           ++ assert (0 <=? prio = false) as -> by (apply Z.leb_gt; apply Z.ltb_lt in E2; lia). reflexivity.
           ++ assert (0 <=? prio = true) as -> by (apply Z.leb_le; apply Z.ltb_ge in E2; lia). reflexivity.
        -- do 2 eexists. split; [reflexivity|]. split; [reflexivity|]. reflexivity.
Qed.

(* 4. ascendChoice / descendChoice (collection.go) are the choices of Treap.visit *)
Definition choice_of (f : string) : option gexpr :=
  match body f with [SReturn (c :: _)] => Some c | _ => None end.

Theorem ascend_choice_decision :
  exists c, choice_of "ascendChoice" = Some c /\
    forall o : comparison, gtrue (upd env0 "cmp" (cmpz o)) c = Some (match o with Gt => false | _ => true end).
Proof. eexists. split; [vm_compute; reflexivity|]. intros [ | | ]; reflexivity. Qed.

Theorem descend_choice_decision :
  exists c, choice_of "descendChoice" = Some c /\
    forall o : comparison, gtrue (upd env0 "cmp" (cmpz o)) c = Some (match o with Gt => true | _ => false end).
Proof. eexists. split; [vm_compute; reflexivity|]. intros [ | | ]; reflexivity. Qed.

(* 5. determineBlocks: the WHOLE translated body, executed, is Blocks.determine_blocks (for every item count that
   fits the int64 the code uses) *)
Definition db_env (cnt : Z) : env := upd (upd env0 "t.Len()#0" cnt) "t.Len()#1" 0.

Theorem determine_blocks_is_source : forall cnt : nat,
  gexec 50 (db_env (Z.of_nat cnt)) (body "Collection.determineBlocks") =
  RRet [Z.of_nat (fst (determine_blocks cnt)); Z.of_nat (snd (determine_blocks cnt)); 0].
Proof.
  intro cnt.
  assert (Hb : body "Collection.determineBlocks" =
    [SVar "cnt" None;
     SAssign [GVar "cnt"; GVar "err"] "=" [GCall "t.Len" []];
     SIf [] (GBin "!=" (GVar "err") GNil) [SReturn [GInt 0; GInt 0; GVar "err"]] [];
     SIf [] (GBin ">" (GVar "cnt") (GInt 1024))
       [SAssign [GVar "size"] ":=" [GBin "/" (GVar "cnt") (GInt 1024)];
        SIf [] (GBin "!=" (GBin "%" (GVar "cnt") (GInt 1024)) (GInt 0)) [SIncDec (GVar "size") true] [];
        SReturn [GInt 1024; GCall "int" [GVar "size"]; GNil]] [];
     SReturn [GCall "int" [GVar "cnt"]; GInt 1; GNil]]) by (vm_compute; reflexivity).
  rewrite Hb. clear Hb.
  remember (determine_blocks cnt) as d eqn:Ed.
  set (n := Z.of_nat cnt). assert (Hn : 0 <= n) by (unfold n; lia).
  assert (H00 : (0 =? 0) = true) by reflexivity.
  assert (H10 : (1 =? 0) = false) by reflexivity.
  assert (H1024 : (1024 =? 0) = false) by reflexivity.
  unfold db_env. cbn. unfold b2z. rewrite ?H00. cbn. rewrite ?H00, ?H10, ?H1024. cbn.
  unfold determine_blocks, max_block_cnt in Ed.
  destruct (n >? 1024) eqn:E1.
  - rewrite H10. cbn. unfold gtrue. cbn. rewrite H1024.
    assert (E : Nat.ltb 1024 cnt = true) by (apply Nat.ltb_lt; apply Z.gtb_lt in E1; unfold n in E1; lia).
    rewrite E in Ed.
    assert (Hq : Z.quot n 1024 = Z.of_nat (Nat.div cnt 1024)).
    { rewrite Z.quot_div_nonneg by lia. unfold n. rewrite Nat2Z.inj_div. reflexivity. }
    assert (Hr : Z.rem n 1024 = Z.of_nat (Nat.modulo cnt 1024)).
    { rewrite Z.rem_mod_nonneg by lia. unfold n. rewrite Nat2Z.inj_mod. reflexivity. }
    rewrite Hq, Hr. subst d. cbn [fst snd].
    destruct (Nat.eqb (Nat.modulo cnt 1024) 0) eqn:E2.
    + apply Nat.eqb_eq in E2. rewrite E2. change (Z.of_nat 0) with 0. rewrite H00. cbn. rewrite H00. cbn.
      rewrite Nat.add_0_r. reflexivity.
    + apply Nat.eqb_neq in E2.
      assert ((Z.of_nat (Nat.modulo cnt 1024) =? 0) = false) as -> by (apply Z.eqb_neq; lia).
      cbn. rewrite H10. cbn. rewrite Nat2Z.inj_add. reflexivity.
  - rewrite H00. cbn.
    assert (E : Nat.ltb 1024 cnt = false).
    { apply Nat.ltb_ge. rewrite Z.gtb_ltb in E1. apply Z.ltb_ge in E1. unfold n in E1. lia. }
    rewrite E in Ed. subst d. reflexivity.
Qed.

(* 6. ploc.isEmpty: a location is empty iff it is nil or offset = 0 and length = 0: what Codec.dec_ploc decodes as None *)
Theorem ploc_is_empty_decision :
  exists c, choice_of "ploc.isEmpty" = Some c /\
    forall o l : Z, gtrue (upd (upd (upd env0 "p" 1) "p.Offset" o) "p.Length" l) c = Some ((o =? 0) && (l =? 0)).
Proof.
  eexists. split; [vm_compute; reflexivity|]. intros o l. unfold gtrue. cbn.
  destruct (o =? 0); destruct (l =? 0); reflexivity.
Qed.

(* 7. itemLoc.read: an item is (re)read from the file iff it is not cached, or cached without its value while the
   value is asked for (Lazy.v / LazyMut.reads_of); the record is rejected unless length = header + key + value
   (Codec.dec_item) *)
Theorem item_reload_decision :
  exists c, decisions "itemLoc.read" "icur.Val" = [c] /\
    forall cached hasval wv : bool,
      gtrue (upd (upd (upd env0 "icur" (b2z cached)) "icur.Val" (b2z hasval)) "withValue" (b2z wv)) c =
      Some (negb cached || (negb hasval && wv)).
Proof. eexists. split; [vm_compute; reflexivity|]. intros [|] [|] [|]; reflexivity. Qed.

Theorem item_length_check_decision :
  exists c, decisions "itemLoc.read" "ds.getLength" = [c] /\
    forall len kl vl : Z,
      gtrue (upd (upd (upd env0 "ds.getLength()" len) "uint32(keyLength)" kl) "valLength" vl) c =
      Some (negb (len =? item_hdr_len + kl + vl)).
Proof.
  eexists. split; [vm_compute; reflexivity|]. intros len kl vl. unfold gtrue. cbn.
  change item_hdr_len with 16. destruct (len =? 16 + kl + vl); reflexivity.
Qed.

Theorem item_short_loc_decision :
  exists c, decisions "itemLoc.read" "loc.Length" = [c] /\
    forall l : Z, gtrue (upd env0 "loc.Length" l) c = Some (l <? item_hdr_len).
Proof.
  eexists. split; [vm_compute; reflexivity|]. intro l. unfold gtrue. cbn. change item_hdr_len with 16.
  destruct (l <? 16); reflexivity.
Qed.

(* 8. rootCAS: the new version is chained behind the previous one iff the previous one has more than two references
   (Proto.v: chained := bool_decide (2 < v_refs x)) *)
Theorem rootcas_chain_decision :
  exists c, decisions "Collection.rootCAS" "prev.refs" = [c] /\
    forall refs : Z, gtrue (upd (upd env0 "prev" 1) "prev.refs" refs) c = Some (2 <? refs).
Proof.
  eexists. split; [vm_compute; reflexivity|]. intro refs. unfold gtrue. cbn. rewrite Z.gtb_ltb.
  destruct (2 <? refs); reflexivity.
Qed.

(* 9. root record checks (store.go checkAndReadRoots / validateAndSetCollections) as in Codec.root_at: version, the two
   length fields, and the recorded offset with the length it implies *)
Theorem root_version_decision :
  exists c, decisions "Store.validateAndSetCollections" "version" = [c] /\
    forall v : Z, gtrue (upd env0 "version" v) c = Some (negb (v =? version)).
Proof.
  eexists. split; [vm_compute; reflexivity|]. intro v. unfold gtrue. cbn. change version with 4.
  destruct (v =? 4); reflexivity.
Qed.

Theorem root_length_decision :
  exists c, decisions "Store.validateAndSetCollections" "length0" = [c] /\
    forall a b : Z, gtrue (upd (upd env0 "length0" a) "length" b) c = Some (negb (a =? b)).
Proof.
  eexists. split; [vm_compute; reflexivity|]. intros a b. unfold gtrue. cbn. destruct (a =? b); reflexivity.
Qed.

Theorem root_offset_decision :
  exists c, decisions "Store.checkAndReadRoots" "offset" = [c] /\
    forall offset size len len32 : Z,
      let rho := upd (upd (upd (upd (upd env0 "offset" offset) "atomic.LoadInt64(&s.size)" size) "rootsLen" roots_len)
                          "length" len) "uint32((atomic.LoadInt64(&s.size)-offset))" len32 in
      gtrue rho c = Some ((offset >=? 0) && (offset <? size - roots_len) && (len =? len32)).
Proof.
  eexists. split; [vm_compute; reflexivity|]. intros offset size len len32 rho. unfold rho, gtrue. cbn.
  change roots_len with 44.
  destruct (offset >=? 0); destruct (offset <? size - 44); destruct (len =? len32); reflexivity.
Qed.

(* 10. FlushRevert steps below the current root only when the store is longer than an empty root record
   (Disk.revert_bytes: if roots_len <? size then size - 1 else size) *)
Theorem revert_step_decision :
  exists c, decisions "Store.FlushRevert" "rootsLen" = [c] /\
    forall size : Z, gtrue (upd (upd env0 "atomic.LoadInt64(&s.size)" size) "rootsLen" roots_len) c = Some (roots_len <? size).
Proof.
  eexists. split; [vm_compute; reflexivity|]. intro size. unfold gtrue. cbn. change roots_len with 44.
  rewrite Z.gtb_ltb. destruct (44 <? size); reflexivity.
Qed.
