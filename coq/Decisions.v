(* Decisions.v — the decisions of the hand-written models ARE the decisions of the Go source.
   tools/gen translates every function body of /repo into Generated.g_code on every run; here the
   translated conditions (and, for the small pure functions, whole bodies) are evaluated with
   GExpr.geval / gexec and proved equal, for all values of their variables, to what Treap.v,
   Blocks.v, Codec.v, Lazy.v and Proto.v decide at the same points.  A change of a comparison, a
   bound or a validation in the source therefore breaks one of these theorems on the next run,
   whatever the random histories happen to exercise.
   The conditions are found by the variables they mention, so unrelated edits of a function do not
   disturb them. *)
From GK Require Import Base Treap Codec Blocks GExpr Generated.
From Coq Require Import ZArith NArith List String Bool Lia.
Import ListNotations.
Open Scope string_scope.
Open Scope list_scope.
Open Scope Z_scope.

Local Arguments Z.gtb : simpl never.
Local Arguments Z.ltb : simpl never.
Local Arguments Z.leb : simpl never.
Local Arguments Z.geb : simpl never.
Local Arguments Z.eqb : simpl never.
Local Arguments Z.quot : simpl never.
Local Arguments Z.rem : simpl never.
Local Arguments Z.add : simpl never.
Local Arguments Z.sub : simpl never.
Local Arguments Z.of_nat : simpl never.

(* ---- finding decisions ---- *)
Fixpoint mentions (v : string) (e : gexpr) : bool :=
  match e with
  | GVar n => (n =? v)%string
  | GSel a _ => mentions v a
  | GBin _ a b => mentions v a || mentions v b
  | GUn _ a => mentions v a
  | GCall f args => (f =? v)%string || existsb (mentions v) args
  | _ => false
  end.

Definition body (f : string) : list gstmt := lookup_code g_code f.
Definition decisions (f v : string) : list gexpr := filter (mentions v) (conds 400 (body f)).

(* environments *)
Definition env0 : env := fun _ => None.
Definition cmpz (c : comparison) : Z := match c with Lt => -1 | Eq => 0 | Gt => 1 end.

(* ------------------------------------------------------------------------------------------- *)
(* 1. treap.go union / join: the root is `this` iff this.Priority > that.Priority (strict): Treap.union, Treap.join *)

Definition prio_env (x y : Z) : env := upd (upd env0 "thisItem.Priority" x) "thatItem.Priority" y.

Theorem union_priority_decision :
  exists c, decisions "Store.union" "thisItem.Priority" = [c] /\
            forall x y, gtrue (prio_env x y) c = Some (x >? y).
Proof. eexists. split; [vm_compute; reflexivity|]. intros x y. cbn. destruct (x >? y); reflexivity. Qed.

Theorem join_priority_decision :
  exists c, decisions "Store.join" "thisItem.Priority" = [c] /\
            forall x y, gtrue (prio_env x y) c = Some (x >? y).
Proof. eexists. split; [vm_compute; reflexivity|]. intros x y. cbn. destruct (x >? y); reflexivity. Qed.

(* 2. split and GetItem branch on the three-way comparison exactly as Treap.split / Treap.lookup match on it *)
Definition c_env (c : Z) : env := upd env0 "c" c.

Theorem split_compare_decisions :
  exists c1 c2, decisions "Store.split" "c" = [c1; c2] /\
    forall o : comparison,
      gtrue (c_env (cmpz o)) c1 = Some (match o with Eq => true | _ => false end) /\
      gtrue (c_env (cmpz o)) c2 = Some (match o with Lt => true | _ => false end).
Proof. do 2 eexists. split; [vm_compute; reflexivity|]. intros [ | | ]; split; reflexivity. Qed.

Theorem getitem_compare_decisions :
  exists c1 c2, decisions "Collection.GetItem" "c" = [c1; c2] /\
    forall o : comparison,
      gtrue (c_env (cmpz o)) c1 = Some (match o with Lt => true | _ => false end) /\
      gtrue (c_env (cmpz o)) c2 = Some (match o with Gt => true | _ => false end).
Proof. do 2 eexists. split; [vm_compute; reflexivity|]. intros [ | | ]; split; reflexivity. Qed.

(* 3. SetItem's validation is Treap.valid_item.  A nil key and an empty key are both rejected, so the model's single
   empty list stands for both (keynil chooses which one the environment describes). *)
Definition item_env (keynil : bool) (key : bytes) (val : option bytes) (prio : Z) : env :=
  upd (upd (upd (upd env0 "item.Key" (if keynil then 0 else 1))
                 "len(item.Key)" (Z.of_nat (List.length key)))
            "item.Val" (match val with Some _ => 1 | None => 0 end))
       "item.Priority" prio.

Lemma valid_item_spec key val prio :
  valid_item key val prio =
  negb (Z.of_nat (List.length key) =? 0) && (match val with Some _ => true | None => false end) &&
  (Z.of_nat (List.length key) <=? 65535) && (0 <=? prio).
Proof.
  destruct key as [|k ks]; [destruct val; reflexivity|].
  assert (E : (Z.of_nat (List.length (k :: ks)) =? 0) = false) by (apply Z.eqb_neq; cbn [List.length]; lia).
  rewrite E. destruct val; reflexivity.
Qed.

Theorem setitem_validation_decisions :
  exists c1 c2,
    decisions "Collection.SetItem" "item.Key" = [c1] /\ decisions "Collection.SetItem" "item.Priority" = [c2] /\
    forall keynil key val prio, (keynil = true -> key = []) ->
      exists b1 b2, gtrue (item_env keynil key val prio) c1 = Some b1 /\
                    gtrue (item_env keynil key val prio) c2 = Some b2 /\
                    valid_item key val prio = negb b1 && negb b2.
Proof.
  do 2 eexists. split; [vm_compute; reflexivity|]. split; [vm_compute; reflexivity|].
  intros keynil key val prio Hnil.
  rewrite valid_item_spec.
  remember (Z.of_nat (List.length key)) as n eqn:En.
  assert (Hn0 : keynil = true -> n = 0) by (intro H; rewrite (Hnil H) in En; exact En).
  assert (Hn : 0 <= n) by (subst n; lia).
  unfold item_env, gtrue. rewrite <- En. clear En Hnil key.
  destruct keynil.
  - rewrite (Hn0 eq_refl). cbn. do 2 eexists. split; [reflexivity|]. split; [reflexivity|]. reflexivity.
  - clear Hn0. cbn.
    destruct (n >? 65535) eqn:E1; cbn.
    + do 2 eexists. split; [reflexivity|]. split; [reflexivity|].
      assert (n <=? 65535 = false) as -> by (apply Z.leb_gt; apply Z.gtb_lt in E1; lia).
      cbn. rewrite !andb_false_r. reflexivity.
    + assert (n <=? 65535 = true) as -> by (apply Z.leb_le; rewrite Z.gtb_ltb in E1; apply Z.ltb_ge in E1; lia).
      destruct (n =? 0) eqn:E0; cbn.
      * do 2 eexists. split; [reflexivity|]. split; [reflexivity|]. reflexivity.
      * destruct val as [v|]; cbn.
        -- do 2 eexists. split; [reflexivity|]. split; [reflexivity|].
           destruct (prio <? 0) eqn:E2; cbn.
           ++ assert (0 <=? prio = false) as -> by (apply Z.leb_gt; apply Z.ltb_lt in E2; lia). reflexivity.
           ++ assert (0 <=? prio = true) as -> by (apply Z.leb_le; apply Z.ltb_ge in E2; lia). reflexivity.
        -- do 2 eexists. split; [reflexivity|]. split; [reflexivity|]. reflexivity.
Qed.

(* 4. ascendChoice / descendChoice (collection.go) are the choices of Treap.visit *)
Definition choice_of (f : string) : option gexpr :=
  match body f with [SReturn (c :: _)] => Some c | _ => None end.

Theorem ascend_choice_decision :
  exists c, choice_of "ascendChoice" = Some c /\
    forall o : comparison, gtrue (upd env0 "cmp" (cmpz o)) c = Some (match o with Gt => false | _ => true end).
Proof. eexists. split; [vm_compute; reflexivity|]. intros [ | | ]; reflexivity. Qed.

Theorem descend_choice_decision :
  exists c, choice_of "descendChoice" = Some c /\
    forall o : comparison, gtrue (upd env0 "cmp" (cmpz o)) c = Some (match o with Gt => true | _ => false end).
Proof. eexists. split; [vm_compute; reflexivity|]. intros [ | | ]; reflexivity. Qed.

(* 5. determineBlocks: the WHOLE translated body, executed, is Blocks.determine_blocks (for every item count that
   fits the int64 the code uses) *)
Definition db_env (cnt : Z) : env := upd (upd env0 "t.Len()#0" cnt) "t.Len()#1" 0.

Theorem determine_blocks_is_source : forall cnt : nat,
  gexec 50 (db_env (Z.of_nat cnt)) (body "Collection.determineBlocks") =
  RRet [Z.of_nat (fst (determine_blocks cnt)); Z.of_nat (snd (determine_blocks cnt)); 0].
Proof.
  intro cnt.
  assert (Hb : body "Collection.determineBlocks" =
    [SVar "cnt" None;
     SAssign [GVar "cnt"; GVar "err"] "=" [GCall "t.Len" []];
     SIf [] (GBin "!=" (GVar "err") GNil) [SReturn [GInt 0; GInt 0; GVar "err"]] [];
     SIf [] (GBin ">" (GVar "cnt") (GInt 1024))
       [SAssign [GVar "size"] ":=" [GBin "/" (GVar "cnt") (GInt 1024)];
        SIf [] (GBin "!=" (GBin "%" (GVar "cnt") (GInt 1024)) (GInt 0)) [SIncDec (GVar "size") true] [];
        SReturn [GInt 1024; GCall "int" [GVar "size"]; GNil]] [];
     SReturn [GCall "int" [GVar "cnt"]; GInt 1; GNil]]) by (vm_compute; reflexivity).
  rewrite Hb. clear Hb.
  remember (determine_blocks cnt) as d eqn:Ed.
  set (n := Z.of_nat cnt). assert (Hn : 0 <= n) by (unfold n; lia).
  assert (H00 : (0 =? 0) = true) by reflexivity.
  assert (H10 : (1 =? 0) = false) by reflexivity.
  assert (H1024 : (1024 =? 0) = false) by reflexivity.
  unfold db_env. cbn. unfold b2z. rewrite ?H00. cbn. rewrite ?H00, ?H10, ?H1024. cbn.
  unfold determine_blocks, max_block_cnt in Ed.
  destruct (n >? 1024) eqn:E1.
  - rewrite H10. cbn. unfold gtrue. cbn. rewrite H1024.
    assert (E : Nat.ltb 1024 cnt = true) by (apply Nat.ltb_lt; apply Z.gtb_lt in E1; unfold n in E1; lia).
    rewrite E in Ed.
    assert (Hq : Z.quot n 1024 = Z.of_nat (Nat.div cnt 1024)).
    { rewrite Z.quot_div_nonneg by lia. unfold n. rewrite Nat2Z.inj_div. reflexivity. }
    assert (Hr : Z.rem n 1024 = Z.of_nat (Nat.modulo cnt 1024)).
    { rewrite Z.rem_mod_nonneg by lia. unfold n. rewrite Nat2Z.inj_mod. reflexivity. }
    rewrite Hq, Hr. subst d. cbn [fst snd].
    destruct (Nat.eqb (Nat.modulo cnt 1024) 0) eqn:E2.
    + apply Nat.eqb_eq in E2. rewrite E2. change (Z.of_nat 0) with 0. rewrite H00. cbn. rewrite H00. cbn.
      rewrite Nat.add_0_r. reflexivity.
    + apply Nat.eqb_neq in E2.
      assert ((Z.of_nat (Nat.modulo cnt 1024) =? 0) = false) as -> by (apply Z.eqb_neq; lia).
      cbn. rewrite H10. cbn. rewrite Nat2Z.inj_add. reflexivity.
  - rewrite H00. cbn.
    assert (E : Nat.ltb 1024 cnt = false).
    { apply Nat.ltb_ge. rewrite Z.gtb_ltb in E1. apply Z.ltb_ge in E1. unfold n in E1. lia. }
    rewrite E in Ed. subst d. reflexivity.
Qed.

(* 6. ploc.isEmpty: a location is empty iff it is nil or offset = 0 and length = 0: what Codec.dec_ploc decodes as None *)
Theorem ploc_is_empty_decision :
  exists c, choice_of "ploc.isEmpty" = Some c /\
    forall o l : Z, gtrue (upd (upd (upd env0 "p" 1) "p.Offset" o) "p.Length" l) c = Some ((o =? 0) && (l =? 0)).
Proof.
  eexists. split; [vm_compute; reflexivity|]. intros o l. unfold gtrue. cbn.
  destruct (o =? 0); destruct (l =? 0); reflexivity.
Qed.

(* 7. itemLoc.read: an item is (re)read from the file iff it is not cached, or cached without its value while the
   value is asked for (Lazy.v / LazyMut.reads_of); the record is rejected unless length = header + key + value
   (Codec.dec_item) *)
Theorem item_reload_decision :
  exists c, decisions "itemLoc.read" "icur.Val" = [c] /\
    forall cached hasval wv : bool,
      gtrue (upd (upd (upd env0 "icur" (b2z cached)) "icur.Val" (b2z hasval)) "withValue" (b2z wv)) c =
      Some (negb cached || (negb hasval && wv)).
Proof. eexists. split; [vm_compute; reflexivity|]. intros [|] [|] [|]; reflexivity. Qed.

Theorem item_length_check_decision :
  exists c, decisions "itemLoc.read" "ds.getLength" = [c] /\
    forall len kl vl : Z,
      gtrue (upd (upd (upd env0 "ds.getLength()" len) "uint32(keyLength)" kl) "valLength" vl) c =
      Some (negb (len =? item_hdr_len + kl + vl)).
Proof.
  eexists. split; [vm_compute; reflexivity|]. intros len kl vl. unfold gtrue. cbn.
  change item_hdr_len with 16. destruct (len =? 16 + kl + vl); reflexivity.
Qed.

Theorem item_short_loc_decision :
  exists c, decisions "itemLoc.read" "loc.Length" = [c] /\
    forall l : Z, gtrue (upd env0 "loc.Length" l) c = Some (l <? item_hdr_len).
Proof.
  eexists. split; [vm_compute; reflexivity|]. intro l. unfold gtrue. cbn. change item_hdr_len with 16.
  destruct (l <? 16); reflexivity.
Qed.

(* 8. rootCAS: the new version is chained behind the previous one iff the previous one has more than two references
   (Proto.v: chained := bool_decide (2 < v_refs x)) *)
Theorem rootcas_chain_decision :
  exists c, decisions "Collection.rootCAS" "prev.refs" = [c] /\
    forall refs : Z, gtrue (upd (upd env0 "prev" 1) "prev.refs" refs) c = Some (2 <? refs).
Proof.
  eexists. split; [vm_compute; reflexivity|]. intro refs. unfold gtrue. cbn. rewrite Z.gtb_ltb.
  destruct (2 <? refs); reflexivity.
Qed.

(* 9. root record checks (store.go checkAndReadRoots / validateAndSetCollections) as in Codec.root_at: version, the two
   length fields, and the recorded offset with the length it implies *)
Theorem root_version_decision :
  exists c, decisions "Store.validateAndSetCollections" "version" = [c] /\
    forall v : Z, gtrue (upd env0 "version" v) c = Some (negb (v =? version)).
Proof.
  eexists. split; [vm_compute; reflexivity|]. intro v. unfold gtrue. cbn. change version with 4.
  destruct (v =? 4); reflexivity.
Qed.

Theorem root_length_decision :
  exists c, decisions "Store.validateAndSetCollections" "length0" = [c] /\
    forall a b : Z, gtrue (upd (upd env0 "length0" a) "length" b) c = Some (negb (a =? b)).
Proof.
  eexists. split; [vm_compute; reflexivity|]. intros a b. unfold gtrue. cbn. destruct (a =? b); reflexivity.
Qed.

Theorem root_offset_decision :
  exists c, decisions "Store.checkAndReadRoots" "offset" = [c] /\
    forall offset size len len32 : Z,
      let rho := upd (upd (upd (upd (upd env0 "offset" offset) "atomic.LoadInt64(&s.size)" size) "rootsLen" roots_len)
                          "length" len) "uint32((atomic.LoadInt64(&s.size)-offset))" len32 in
      gtrue rho c = Some ((offset >=? 0) && (offset <? size - roots_len) && (len =? len32)).
Proof.
  eexists. split; [vm_compute; reflexivity|]. intros offset size len len32 rho. unfold rho, gtrue. cbn.
  change roots_len with 44.
  destruct (offset >=? 0); destruct (offset <? size - 44); destruct (len =? len32); reflexivity.
Qed.

(* 10. FlushRevert steps below the current root only when the store is longer than an empty root record
   (Disk.revert_bytes: if roots_len <? size then size - 1 else size) *)
Theorem revert_step_decision :
  exists c, decisions "Store.FlushRevert" "rootsLen" = [c] /\
    forall size : Z, gtrue (upd (upd env0 "atomic.LoadInt64(&s.size)" size) "rootsLen" roots_len) c = Some (roots_len <? size).
Proof.
  eexists. split; [vm_compute; reflexivity|]. intro size. unfold gtrue. cbn. change roots_len with 44.
  rewrite Z.gtb_ltb. destruct (44 <? size); reflexivity.
Qed.

(* ------------------------------------------------------------------------------------------- *)
(* 11. rootDecRefUnlocked (collection.go): a reference is dropped; the version dies only when that was the last one
   (Proto.decref: refs = S (S n) -> just decremented; refs = 1 -> dies); at death the tree is marked reclaimable only if
   the version was not superseded, and a chained successor is released *)
Theorem decref_decision : forall r : Z,
  exists rest, body "Collection.rootDecRefUnlocked" = SIncDec (GVar "r.refs") false :: SIf [] (GBin ">" (GVar "r.refs") (GInt 0)) [SReturn []] [] :: rest /\
  (1 < r -> gexec 10 (upd env0 "r.refs" r) (firstn 2 (body "Collection.rootDecRefUnlocked")) = RRet []) /\
  (r = 1 -> exists rho, gexec 10 (upd env0 "r.refs" r) (firstn 2 (body "Collection.rootDecRefUnlocked")) = RFall rho /\ rho "r.refs" = Some 0).
Proof.
  intro r. eexists. split; [vm_compute; reflexivity|]. split.
  - intro Hr. cbn. unfold gtrue. cbn.
    assert (r - 1 >? 0 = true) as -> by (apply Z.gtb_lt; lia). reflexivity.
  - intros ->. cbn. eexists. split; [reflexivity|]. reflexivity.
Qed.

Theorem death_marks_unless_superseded :
  exists c, decisions "Collection.rootDecRefUnlocked" "r.superseded" = [c] /\
    forall sup : bool, gtrue (upd env0 "r.superseded" (b2z sup)) c = Some (negb sup).
Proof. eexists. split; [vm_compute; reflexivity|]. intros [|]; reflexivity. Qed.

Theorem death_releases_chain :
  exists c, decisions "Collection.rootDecRefUnlocked" "r.chainedCollection" = [c] /\
    forall a b : bool, gtrue (upd (upd env0 "r.chainedCollection" (b2z a)) "r.chainedRootNodeLoc" (b2z b)) c = Some (a && b).
Proof. eexists. split; [vm_compute; reflexivity|]. intros [|] [|]; reflexivity. Qed.

(* rootAddRef takes exactly one reference on the current version *)
Theorem addref_is_increment :
  exists pre post, body "Collection.rootAddRef" = pre ++ SIncDec (GVar "t.root.refs") true :: post /\
                   Forall (fun s => match s with SIncDec _ _ | SAssign _ _ _ => False | _ => True end) (pre ++ post).
Proof. exists [SExpr (GCall "t.rootLock.Lock" []); SDefer (GCall "t.rootLock.Unlock" [])], [SReturn [GVar "t.root"]].
  split; [vm_compute; reflexivity|]. repeat constructor. Qed.

(* 12. Flush writes only what is not yet persisted (Disk.write_items / write_nodes skip T (Some p); an item with a
   location is not written again: DiskFault's retry theorem rests on this) *)
Theorem write_skips_persisted :
  exists c1 c2, decisions "Collection.writeItems" "nloc" = [c1] /\ decisions "Collection.writeNodes" "nloc" = [c2] /\
    forall isnil persisted : bool,
      let rho := upd (upd env0 "nloc" (b2z (negb isnil))) "nloc.Loc().isEmpty()" (b2z (negb persisted)) in
      gtrue rho c1 = Some (isnil || persisted) /\ gtrue rho c2 = Some (isnil || persisted).
Proof. do 2 eexists. split; [vm_compute; reflexivity|]. split; [vm_compute; reflexivity|]. intros [|] [|]; split; reflexivity. Qed.

Theorem item_written_once :
  exists c, hd_error (conds 400 (body "itemLoc.write")) = Some c /\
    forall empty : bool, gtrue (upd env0 "iloc.Loc().isEmpty()" (b2z empty)) c = Some empty.
Proof. eexists. split; [vm_compute; reflexivity|]. intros [|]; reflexivity. Qed.

Theorem node_written_once :
  exists c, hd_error (conds 400 (body "nodeLoc.write")) = Some c /\
    forall notnil empty : bool, gtrue (upd (upd env0 "nloc" (b2z notnil)) "loc.isEmpty()" (b2z empty)) c = Some (notnil && empty).
Proof. eexists. split; [vm_compute; reflexivity|]. intros [|] [|]; reflexivity. Qed.

(* 13. CopyTo flushes after every flushEvery-th item (and never when flushEvery <= 0) *)
Theorem copyto_flush_schedule :
  exists c, decisions "<lit:Store.CopyTo#1>" "flushEvery" = [c] /\
    forall fe n : Z, 0 <= n ->
      gtrue (upd (upd env0 "flushEvery" fe) "numItems" n) c = Some ((fe >? 0) && (n mod fe =? 0)).
Proof.
  eexists. split; [vm_compute; reflexivity|]. intros fe n Hn. unfold gtrue. cbn.
  destruct (fe >? 0) eqn:E.
  - assert (Hfe : 0 < fe) by (apply Z.gtb_lt in E; exact E).
    assert ((fe =? 0) = false) as -> by (apply Z.eqb_neq; lia).
    rewrite Z.rem_mod_nonneg by lia. cbn. destruct (n mod fe =? 0); reflexivity.
  - reflexivity.
Qed.

(* 14. the backward scan (store.go scanBackwardsForMagicEnd): gives up at size <= rootsLen, tests the two MagicEnd
   copies at offsets 12 and 18 of the 24-byte trailer, and otherwise moves down by exactly one byte (Disk.scan) *)
Definition scan_loop : list gstmt :=
  match body "Store.scanBackwardsForMagicEnd" with SFor _ _ _ b :: _ => b | _ => [] end.

Theorem scan_stop_decision :
  exists c, hd_error (conds 400 scan_loop) = Some c /\
    forall size : Z, gtrue (upd (upd env0 "atomic.LoadInt64(&s.size)" size) "rootsLen" roots_len) c = Some (size <=? roots_len).
Proof. eexists. split; [vm_compute; reflexivity|]. intro size. unfold gtrue. cbn. change roots_len with 44.
  destruct (size <=? 44); reflexivity. Qed.

Theorem scan_step_is_one : last scan_loop (SOther "") = SExpr (GCall "atomic.AddInt64" [GUn "&" (GVar "s.size"); GInt (-1)]).
Proof. vm_compute. reflexivity. Qed.

Theorem scan_magic_offsets :
  exists c, nth_error (conds 400 scan_loop) 3 = Some c /\
    c = GBin "&&" (GCall "bytes.Equal" [GVar "MagicEnd"; GCall "[:]" [GVar "rootsEnd"; GInt 12; GBin "+" (GInt 12) (GCall "len" [GVar "MagicEnd"])]])
                  (GCall "bytes.Equal" [GVar "MagicEnd"; GCall "[:]" [GVar "rootsEnd"; GBin "+" (GInt 12) (GCall "len" [GVar "MagicEnd"]); GNil]]) /\
    geval (upd env0 "len(MagicEnd)" (Z.of_nat (List.length g_magic_end))) (GBin "+" (GInt 12) (GCall "len" [GVar "MagicEnd"])) = Some 18 /\
    roots_end_len = 24.
Proof. eexists. split; [vm_compute; reflexivity|]. split; [reflexivity|]. split; reflexivity. Qed.

(* 15. mutations and Flush are refused on a read-only store, Flush also without a file (MStore.snapshot_refuses) *)
Theorem readonly_refuses :
  hd_error (conds 400 (body "Collection.SetItem")) = Some (GVar "t.store.readOnly") /\
  hd_error (conds 400 (body "Collection.Delete")) = Some (GVar "t.store.readOnly") /\
  hd_error (conds 400 (body "Store.Flush")) = Some (GVar "s.readOnly") /\
  nth_error (conds 400 (body "Store.Flush")) 1 = Some (GBin "==" (GVar "s.file") GNil) /\
  (forall f, In f ["Collection.SetItem"; "Collection.Delete"; "Store.Flush"] ->
     match body f with SIf [] _ (SReturn _ :: _) [] :: _ => True | _ => False end).
Proof. repeat split; try (vm_compute; reflexivity). intros f [<-|[<-|[<-|[]]]]; vm_compute; exact I. Qed.

(* 16. SetCollection: a nil comparator means bytes.Compare (C12) *)
Theorem nil_compare_is_default :
  match body "Store.SetCollection" with
  | SIf [] (GBin "==" (GVar "compare") GNil) [SAssign [GVar "compare"] "=" [GVar "bytes.Compare"]] [] :: _ => True
  | _ => False
  end.
Proof. vm_compute. exact I. Qed.

(* 17. visitNodes stops as soon as the visitor answers false (C06 early stop) *)
Theorem visitor_stop_decision :
  exists c, decisions "Store.visitNodes" "visitor" = [c] /\
    forall answer : bool, gtrue (upd env0 "visitor(nItem,depth)" (b2z answer)) c = Some (negb answer).
Proof. eexists. split; [vm_compute; reflexivity|]. intros [|]; reflexivity. Qed.

(* 18. iterators (Iter.v): Next on a closed iterator answers false without touching the channels; Close is idempotent *)
Theorem iterator_closed_guards :
  match body "iterator.Next" with SIf [] (GVar "it.closed") [SReturn [GVar "false"]] [] :: _ => True | _ => False end /\
  match body "iterator.Close" with
  | [SIf [] (GVar "it.closed") [SReturn []] []; SExpr (GCall "close" [GVar "it.next"]); SAssign [GVar "it.closed"] "=" [GVar "true"]] => True
  | _ => False
  end.
Proof. split; vm_compute; exact I. Qed.

(* ------------------------------------------------------------------------------------------- *)
(* 19. structure and ORDER OF EFFECTS of the durability-critical functions (calls in source order, GExpr.calls) *)
Definition call_list (f : string) : list string := calls 400 (body f).

(* Flush: after its two guards and the write loop's error check there is no other way out: it always ends by writing
   the root record, for the versions it pinned (rnls), not for the live collections *)
Theorem flush_always_writes_roots :
  conds 400 (body "Store.Flush") = [GVar "s.readOnly"; GBin "==" (GVar "s.file") GNil; GBin "!=" (GVar "err") GNil] /\
  last (body "Store.Flush") (SOther "") = SReturn [GCall "s.writeRoots" [GVar "rnls"]] /\
  hd (SOther "") (body "Store.writeRoots") = SAssign [GVar "sJSON"; GVar "err"] ":=" [GCall "json.Marshal" [GVar "rnls"]] /\
  before "c.rootAddRef" "coll[name].write" (call_list "Store.Flush") = true /\
  before "coll[name].write" "s.writeRoots" (call_list "Store.Flush") = true.
Proof. repeat split; vm_compute; reflexivity. Qed.

(* every condition of writeRoots is an error check: nothing else can skip the WriteAt or the size update, and size
   moves only after the WriteAt *)
Theorem write_roots_order :
  Forall (fun c => c = GBin "!=" (GVar "err") GNil) (conds 400 (body "Store.writeRoots")) /\
  before "s.file.WriteAt" "atomic.StoreInt64" (call_list "Store.writeRoots") = true.
Proof. split; [vm_compute; repeat constructor | vm_compute; reflexivity]. Qed.

(* itemLoc.write: the before-write hook runs first, THEN the offset is taken, the header+key are written, the value is
   written, and only then Store.size advances and the location is recorded (DiskFault.write_item_f) *)
Theorem item_write_order :
  let l := call_list "itemLoc.write" in
  before "c.store.callbacks.BeforeItemWrite" "atomic.LoadInt64" l = true /\
  before "atomic.LoadInt64" "c.store.file.WriteAt" l = true /\
  before "c.store.file.WriteAt" "c.store.ItemValWrite" l = true /\
  before "c.store.ItemValWrite" "atomic.StoreInt64" l = true /\
  before "atomic.StoreInt64" "iloc.setLoc" l = true /\
  before "iItem.NumValBytes" "c.store.file.WriteAt" l = true /\
  before "c.store.callbacks.BeforeItemWrite" "iItem.NumValBytes" l = true.
Proof. repeat split; vm_compute; reflexivity. Qed.

(* nodeLoc.write: offset, WriteAt, then size, then the location (DiskFault.write_nodes_f) *)
Theorem node_write_order :
  let l := call_list "nodeLoc.write" in
  before "o.getSize" "o.file.WriteAt" l = true /\
  before "o.file.WriteAt" "o.setSize" l = true /\
  before "o.setSize" "nloc.setLoc" l = true.
Proof. repeat split; vm_compute; reflexivity. Qed.

(* SetItem / Delete publish only through rootCAS after the whole rebuild, and restore the marks when it failed *)
Theorem mutation_publish_order :
  before "t.rootAddRef" "t.store.union" (call_list "Collection.SetItem") = true /\
  before "t.store.union" "t.unmarkReclaimable" (call_list "Collection.SetItem") = true /\
  before "t.store.union" "t.rootCAS" (call_list "Collection.SetItem") = true /\
  before "t.rootAddRef" "t.store.split" (call_list "Collection.Delete") = true /\
  before "t.store.split" "t.store.join" (call_list "Collection.Delete") = true /\
  before "t.store.join" "t.rootCAS" (call_list "Collection.Delete") = true /\
  count_occ string_dec (call_list "Collection.Delete") "t.unmarkReclaimable" = 2%nat /\
  count_occ string_dec (call_list "Collection.SetItem") "t.rootCAS" = 1%nat /\
  count_occ string_dec (call_list "Collection.Delete") "t.rootCAS" = 1%nat.
Proof. repeat split; vm_compute; reflexivity. Qed.

(* FlushRevert: the collections are replaced and the scan runs before the file is truncated; one Truncate *)
Theorem revert_order :
  let l := call_list "Store.FlushRevert" in
  before "s.readRootsScan" "s.file.Truncate" l = true /\
  count_occ string_dec l "s.file.Truncate" = 1%nat /\
  before "atomic.AddInt64" "s.readRootsScan" l = true.
Proof. repeat split; vm_compute; reflexivity. Qed.

(* CopyTo: one SetCollection per source collection with the source's comparator, a closing Flush guarded only by
   flushEvery > 0 *)
Theorem copyto_structure :
  In (GBin ">" (GVar "flushEvery") (GInt 0)) (conds 400 (body "Store.CopyTo")) /\
  before "dstStore.SetCollection" "srcColl.VisitItemsAscendEx" (call_list "Store.CopyTo") = true /\
  before "srcColl.VisitItemsAscendEx" "dstStore.Flush" (call_list "Store.CopyTo") = true /\
  In (SAssign [GVar "dstColl"] ":=" [GCall "dstStore.SetCollection" [GVar "name"; GVar "srcColl.compare"]])
     (match nth_error (body "Store.CopyTo") 4 with Some (SRange _ _ _ b) => b | _ => [] end).
Proof. repeat split; vm_compute; auto 10. Qed.

(* 20. Flush pins the collections in NAME order (C05: a later-named collection is never persisted in an older state
   than it had when an earlier-named one was captured): both loops of Flush range over cnames = collNames(coll), and
   collNames sorts *)
Definition ranges (ss : list gstmt) : list (gexpr * list gstmt) :=
  flat_map (fun s => match s with SRange _ _ x b => [(x, b)] | _ => [] end) ss.

Theorem flush_pins_in_name_order :
  In (SAssign [GVar "cnames"] ":=" [GCall "collNames" [GVar "coll"]]) (body "Store.Flush") /\
  (exists b1 b2, ranges (body "Store.Flush") = [(GVar "cnames", b1); (GVar "cnames", b2)] /\
                 In "c.rootAddRef" (calls 50 b1) /\ In "coll[name].write" (calls 50 b2)) /\
  (exists pre, body "collNames" = pre ++ [SExpr (GCall "sort.Strings" [GVar "res"]); SReturn [GVar "res"]]).
Proof.
  split; [vm_compute; auto 10|]. split.
  - do 2 eexists. split; [vm_compute; reflexivity|]. split; vm_compute; auto.
  - eexists [_; _]. vm_compute. reflexivity.
Qed.

(* 21. the aggregates of every node built by union / split / join (Treap.mk): numNodes = left + right + 1 and
   numBytes = left + right + the bytes of THE item the node is built with, the children's aggregates being read
   (numInfo) from exactly the two children the node is built with; the node SetItem builds is Treap.single *)
Definition agg_calls (f : string) : list (string * list gexpr) :=
  filter (fun c => String.eqb (fst c) "t.mkNode" || String.eqb (fst c) "numInfo") (calls_a 400 (body f)).

Fixpoint aggs_ok (last : option (gexpr * gexpr)) (cs : list (string * list gexpr)) : bool :=
  match cs with
  | [] => true
  | ("numInfo", [_; l; r]) :: rest => aggs_ok (Some (l, r)) rest
  | ("t.mkNode", [GVar it; l; r; n; b]) :: rest =>
    match last with
    | Some (l0, r0) =>
      (String.eqb (gshow l) (gshow l0)) && (String.eqb (gshow r) (gshow r0)) &&
      (String.eqb (gshow n) (gshow (GBin "+" (GBin "+" (GVar "leftNum") (GVar "rightNum")) (GInt 1)))) &&
      (String.eqb (gshow b) (gshow (GBin "+" (GBin "+" (GVar "leftBytes") (GVar "rightBytes"))
                                      (GCall "uint64" [GCall (it ++ ".NumBytes") [GVar "t"]])))) &&
      aggs_ok last rest
    | None => false
    end
  | _ => false
  end.

Theorem node_aggregates_are_mk :
  aggs_ok None (agg_calls "Store.union") = true /\ aggs_ok None (agg_calls "Store.split") = true /\
  aggs_ok None (agg_calls "Store.join") = true /\
  List.length (filter (fun c => String.eqb (fst c) "t.mkNode") (agg_calls "Store.union")) = 3%nat /\
  List.length (filter (fun c => String.eqb (fst c) "t.mkNode") (agg_calls "Store.split")) = 2%nat /\
  List.length (filter (fun c => String.eqb (fst c) "t.mkNode") (agg_calls "Store.join")) = 2%nat /\
  (forall ln rn lb rb ib : Z,
     let rho := upd (upd (upd (upd (upd env0 "leftNum" ln) "rightNum" rn) "leftBytes" lb) "rightBytes" rb) "x.NumBytes(t)" ib in
     geval rho (GBin "+" (GBin "+" (GVar "leftNum") (GVar "rightNum")) (GInt 1)) = Some (ln + rn + 1) /\
     geval rho (GBin "+" (GBin "+" (GVar "leftBytes") (GVar "rightBytes")) (GCall "uint64" [GCall "x.NumBytes" [GVar "t"]])) = Some (lb + rb + ib)).
Proof.
  repeat split; try (vm_compute; reflexivity); intros; cbn; reflexivity.
Qed.

Theorem new_node_is_single :
  agg_calls "Collection.SetItem" =
  [("t.mkNode", [GNil; GNil; GNil; GInt 1;
                 GBin "+" (GCall "uint64" [GCall "len" [GVar "item.Key"]]) (GCall "uint64" [GCall "item.NumValBytes" [GVar "t"]])])].
Proof. vm_compute. reflexivity. Qed.

(* ------------------------------------------------------------------------------------------- *)
(* 22. the StoreCallbacks wrappers (C17): when a callback is installed its result is used verbatim, with the arguments
   the wrapper was given; otherwise the default is one WriteAt of Item.Val / a fresh buffer of valLength bytes filled by
   one ReadAt / len(Item.Val) / a fresh Item with a key buffer; the reference hooks do nothing unless installed *)
Theorem callback_wrappers :
  body "Store.ItemValWrite" =
    [SIf [] (GBin "!=" (GVar "s.callbacks.ItemValWrite") GNil)
       [SReturn [GCall "s.callbacks.ItemValWrite" [GVar "c"; GVar "i"; GVar "w"; GVar "offset"]]] [];
     SAssign [GVar "_"; GVar "err"] ":=" [GCall "w.WriteAt" [GVar "i.Val"; GVar "offset"]];
     SReturn [GVar "err"]] /\
  body "Store.ItemValRead" =
    [SIf [] (GBin "!=" (GVar "s.callbacks.ItemValRead") GNil)
       [SReturn [GCall "s.callbacks.ItemValRead" [GVar "c"; GVar "i"; GVar "r"; GVar "offset"; GVar "valLength"]]] [];
     SAssign [GVar "i.Val"] "=" [GCall "make" [GOther "[]byte"; GVar "valLength"]];
     SAssign [GVar "_"; GVar "err"] ":=" [GCall "r.ReadAt" [GVar "i.Val"; GVar "offset"]];
     SReturn [GVar "err"]] /\
  body "Item.NumValBytes" =
    [SIf [] (GBin "!=" (GVar "c.store.callbacks.ItemValLength") GNil)
       [SReturn [GCall "c.store.callbacks.ItemValLength" [GVar "c"; GVar "i"]]] [];
     SReturn [GCall "len" [GVar "i.Val"]]] /\
  body "Store.ItemAlloc" =
    [SIf [] (GBin "!=" (GVar "s.callbacks.ItemAlloc") GNil)
       [SReturn [GCall "s.callbacks.ItemAlloc" [GVar "c"; GVar "keyLength"]]] [];
     SReturn [GUn "&" (GOther "Item{Key: make([]byte, keyLength)}")]] /\
  body "Store.ItemAddRef" =
    [SIf [] (GBin "!=" (GVar "s.callbacks.ItemAddRef") GNil) [SExpr (GCall "s.callbacks.ItemAddRef" [GVar "c"; GVar "i"])] []] /\
  body "Store.ItemDecRef" =
    [SIf [] (GBin "!=" (GVar "s.callbacks.ItemDecRef") GNil) [SExpr (GCall "s.callbacks.ItemDecRef" [GVar "c"; GVar "i"])] []].
Proof. repeat split; vm_compute; reflexivity. Qed.

Ltac in_tac := vm_compute; repeat (first [left; reflexivity | right]).

(* before-write / after-read hooks: used only when installed, on the item about to be written / just read *)
Theorem item_hooks_guarded :
  In (GBin "!=" (GVar "c.store.callbacks.BeforeItemWrite") GNil) (conds 400 (body "itemLoc.write")) /\
  In (GBin "!=" (GVar "c.store.callbacks.AfterItemRead") GNil) (conds 400 (body "itemLoc.read")) /\
  In ("c.store.callbacks.BeforeItemWrite", [GVar "c"; GVar "iItem"]) (calls_a 400 (body "itemLoc.write")) /\
  In ("c.store.callbacks.AfterItemRead", [GVar "c"; GVar "i"]) (calls_a 400 (body "itemLoc.read")).
Proof. repeat split; in_tac. Qed.

(* 23. item references (C15, Refcount.v: one event per place where the code touches a reference) *)
Definition has_sub (sub s : string) : bool := match index 0 sub s with Some _ => true | None => false end.

Theorem reference_sites :
  (* Exist gives back the reference GetItem took *)
  body "Collection.Exist" =
    [SAssign [GVar "val"; GVar "_"] ":=" [GCall "t.GetItem" [GVar "key"; GVar "false"]];
     SIf [] (GBin "!=" (GVar "val") GNil)
       [SExpr (GCall "t.store.ItemDecRef" [GVar "t"; GVar "val"]); SReturn [GVar "true"]] [];
     SReturn [GVar "false"]] /\
  (* Len and CopyTo give back the reference MinItem took, CopyTo once per collection (inside its loop) *)
  In (SDefer (GCall "t.store.ItemDecRef" [GVar "t"; GVar "si"])) (body "Collection.Len") /\
  In (SDefer (GCall "s.ItemDecRef" [GVar "srcColl"; GVar "minItem"]))
     (match nth_error (body "Store.CopyTo") 4 with Some (SRange _ _ _ b) => b | _ => [] end) /\
  (* GetItem takes exactly one reference for the caller, as its last call; SetItem one for the tree, before union *)
  count_occ string_dec (call_list "Collection.GetItem") "t.store.ItemAddRef" = 1%nat /\
  last (call_list "Collection.GetItem") "" = "t.store.ItemAddRef" /\
  count_occ string_dec (call_list "Collection.SetItem") "t.store.ItemAddRef" = 1%nat /\
  before "t.store.ItemAddRef" "t.store.union" (call_list "Collection.SetItem") = true /\
  (* a freed node releases its item; an item evicted during a visit is released *)
  In "t.store.ItemDecRef" (call_list "Collection.freeNodeUnlocked") /\
  existsb (has_sub "o.ItemDecRef(t, i)") (call_list "Store.visitNodes") = true.
Proof. repeat split; try (vm_compute; reflexivity); in_tac. Qed.

(* 24. visitNodes reads the item key-only on the way down and re-reads it with exactly the caller's withValue before
   delivering it (C19, C06) *)
Theorem visit_item_reads :
  filter (fun c => String.eqb (fst c) "nItemLoc.read") (calls_a 400 (body "Store.visitNodes")) =
  [("nItemLoc.read", [GVar "t"; GVar "false"]); ("nItemLoc.read", [GVar "t"; GVar "withValue"])].
Proof. vm_compute. reflexivity. Qed.

(* ------------------------------------------------------------------------------------------- *)
(* 25. the version protocol (Proto.v) in the source, statement by statement.
   rootCAS = Proto's mcas: under rootLock; fails unless the handle still shows prev; publishes next; marks prev superseded;
   chains next behind prev (one extra reference, owned by prev) iff prev has more than two references.
   rootDecRef = decref under rootLock and freeNodeLock (in that order).
   closeCollection = Proto's close: detaches the handle's version under rootLock, then drops the handle's reference. *)
Theorem protocol_functions :
  body "Collection.rootCAS" =
    [SExpr (GCall "t.rootLock.Lock" []);
     SDefer (GCall "t.rootLock.Unlock" []);
     SIf [] (GBin "!=" (GVar "t.root") (GVar "prev")) [SReturn [GVar "false"]] [];
     SAssign [GVar "t.root"] "=" [GVar "next"];
     SIf [] (GBin "!=" (GVar "prev") GNil) [SAssign [GVar "prev.superseded"] "=" [GVar "true"]] [];
     SIf [] (GBin "&&" (GBin "!=" (GVar "prev") GNil) (GBin ">" (GVar "prev.refs") (GInt 2)))
       [SIf [] (GBin "||" (GBin "!=" (GVar "prev.chainedCollection") GNil) (GBin "!=" (GVar "prev.chainedRootNodeLoc") GNil))
          [SExpr (GCall "panic" [GCall "fmt.Sprintf" [GLit """chain already taken, coll: %v"""; GCall "t.Name" []]])] [];
        SAssign [GVar "prev.chainedCollection"] "=" [GVar "t"];
        SAssign [GVar "prev.chainedRootNodeLoc"] "=" [GVar "t.root"];
        SIncDec (GVar "t.root.refs") true] [];
     SReturn [GVar "true"]] /\
  body "Collection.rootDecRef" =
    [SExpr (GCall "t.rootLock.Lock" []);
     SExpr (GCall "freeNodeLock.Lock" []);
     SExpr (GCall "t.rootDecRefUnlocked" [GVar "r"]);
     SExpr (GCall "freeNodeLock.Unlock" []);
     SExpr (GCall "t.rootLock.Unlock" [])] /\
  body "Collection.closeCollection" =
    [SIf [] (GBin "==" (GVar "t") GNil) [SReturn []] [];
     SExpr (GCall "t.rootLock.Lock" []);
     SAssign [GVar "r"] ":=" [GVar "t.root"];
     SAssign [GVar "t.root"] "=" [GNil];
     SExpr (GCall "t.rootLock.Unlock" []);
     SIf [] (GBin "!=" (GVar "r") GNil) [SExpr (GCall "t.rootDecRef" [GVar "r"])] []].
Proof. repeat split; vm_compute; reflexivity. Qed.

(* Snapshot = Proto's snapshot: a read-only store with the SAME callbacks, file and lock objects, holding for every
   collection (in name order) one more reference on its current version *)
Theorem snapshot_function :
  body "Store.Snapshot" =
    [SAssign [GVar "coll"] ":=" [GCall "copyColl" [GUn "*" (GCall "s.getColl" [])]];
     SAssign [GVar "res"] ":="
       [GUn "&" (GOther "Store{  coll:  &coll,  file:  s.file,  size:  atomic.LoadInt64(&s.size),  readOnly: true,  callbacks: s.callbacks, }")];
     SRange (GVar "_") (GVar "name") (GCall "collNames" [GVar "coll"])
       [SAssign [GVar "collOrig"] ":=" [GCall "[]" [GVar "coll"; GVar "name"]];
        SAssign [GCall "[]" [GVar "coll"; GVar "name"]] "="
          [GUn "&" (GOther "Collection{  store:  res,  compare: collOrig.compare,  rootLock: collOrig.rootLock,  root:  collOrig.rootAddRef(), }")]];
     SReturn [GVar "res"]].
Proof. vm_compute. reflexivity. Qed.
