package main

import (
	"fmt"
	"sync"
	"sync/atomic"
	"time"

	"github.com/cbehopkins/gkvlite"
)

// concurrentKeyOnly: several goroutines run ONLY key-only operations on a re-opened store whose
// items are constantly evicted and re-loaded (visits evict what they leave); since no call asks for
// values, no ReadAt at all may touch the value bytes of any item -- also not on the paths taken when
// two goroutines race to load the same item.
func concurrentKeyOnly(seed uint64, millis int) (string, int) {
	r := NewRng(seed)
	mf := NewMemFile()
	s, err := gkvlite.NewStore(mf)
	if err != nil {
		return "open: " + err.Error(), 0
	}
	c := s.SetCollection("k", nil)
	n := 20 + r.Intn(60)
	for i := 0; i < n; i++ {
		v := make([]byte, 20+r.Intn(100))
		for j := range v {
			v[j] = byte(r.Intn(256))
		}
		c.SetItem(&gkvlite.Item{Key: []byte(fmt.Sprintf("key%04d", i)), Val: v, Priority: int32(r.U64() & 0x7fffffff)})
	}
	var st IOState
	l0 := mf.LogLen()
	mf.SetLabel("flush")
	if err := s.Flush(); err != nil {
		return "flush: " + err.Error(), 0
	}
	if m := st.checkIO(Op{K: "flush"}, "ok", mf.LogFrom(l0), true); m != nil {
		return "flush io: " + m.Observed, 0
	}
	s2, err := gkvlite.NewStore(mf)
	if err != nil {
		return "reopen: " + err.Error(), 0
	}
	c2 := s2.GetCollection("k")
	l1 := mf.LogLen()
	var stop int32
	var wg sync.WaitGroup
	var bad atomic.Value
	for g := 0; g < 4; g++ {
		wg.Add(1)
		g := g
		go func() {
			defer wg.Done()
			defer func() {
				if rc := recover(); rc != nil {
					bad.Store(fmt.Sprint("PANIC: ", rc))
				}
			}()
			rr := NewRng(seed + uint64(g)*31)
			for atomic.LoadInt32(&stop) == 0 {
				switch rr.Intn(5) {
				case 0:
					c2.VisitItemsAscend([]byte{}, false, func(*gkvlite.Item) bool { return true })
				case 1:
					c2.VisitItemsDescend([]byte("z"), false, func(*gkvlite.Item) bool { return true })
				case 2:
					c2.GetItem([]byte(fmt.Sprintf("key%04d", rr.Intn(n))), false)
				case 3:
					c2.Exist([]byte(fmt.Sprintf("key%04d", rr.Intn(n))))
				case 4:
					c2.MinItem(false)
					c2.MaxItem(false)
				}
			}
		}()
	}
	time.Sleep(time.Duration(millis) * time.Millisecond)
	atomic.StoreInt32(&stop, 1)
	wg.Wait()
	if b := bad.Load(); b != nil {
		return b.(string), 0
	}
	reads := 0
	for _, e := range mf.LogFrom(l1) {
		if e.Kind != 'R' {
			return fmt.Sprintf("a key-only workload issued %c(off=%d,len=%d)", e.Kind, e.Off, e.Len), reads
		}
		reads++
		for _, vr := range st.ValRanges {
			if e.Len > 0 && e.Off < vr[1] && e.Off+int64(e.Len) > vr[0] {
				return fmt.Sprintf("ReadAt(off=%d,len=%d) overlaps the value bytes [%d,%d) although only key-only operations were running (4 goroutines)", e.Off, e.Len, vr[0], vr[1]), reads
			}
		}
	}
	return "", reads
}
