package main

import (
	"os"
	"io"
	"crypto/md5"
	"bytes"
	"encoding/binary"
	"fmt"
	"runtime"
	"strconv"
	"strings"
	"time"

	"github.com/cbehopkins/gkvlite"
)

// Op is one step of a history.  H selects the handle it is applied to:
// 0 is the writable store, i>0 the i-th snapshot taken so far.
type Op struct {
	K    string // kind
	H    int
	Name string // collection name
	Key  []byte // key / target
	Val  []byte // value (nil = nil value)
	Prio int32
	WV   bool // withValue
	N    int  // stop position / comparator id / flushEvery / misc
}

func (o Op) String() string {
	b := "f"
	if o.WV {
		b = "t"
	}
	return fmt.Sprintf("%s %d %s %s %s %d %s %d", o.K, o.H, hx([]byte(o.Name)), hx(o.Key), hx(o.Val), o.Prio, b, o.N)
}

func ParseOp(s string) Op {
	f := strings.Fields(s)
	if len(f) != 8 {
		panic("bad op: " + s)
	}
	h, _ := strconv.Atoi(f[1])
	p, _ := strconv.Atoi(f[5])
	n, _ := strconv.Atoi(f[7])
	return Op{K: f[0], H: h, Name: string(unhx(f[2])), Key: unhx(f[3]), Val: unhx(f[4]), Prio: int32(p), WV: f[6] == "t", N: n}
}

func opsString(ops []Op) []string {
	r := make([]string, len(ops))
	for i, o := range ops {
		r[i] = o.String()
	}
	return r
}

// Handle is a store (writable or snapshot) with its collection handles
// and the reference contents it must show.
type Handle struct {
	Store  *gkvlite.Store
	Ref    *RefStore
	Closed bool
	RO     bool
}

// World is the implementation under test plus the reference oracle.
type World struct {
	File       *MemFile // nil: memory-only
	CB         gkvlite.StoreCallbacks
	H          []*Handle   // H[0] writable store, others snapshots
	Flushed    []*RefStore // reference states of the successful flushes, oldest first
	Hang       bool
	Panic      string
	Timeout    time.Duration
	IO         IOState
	ChunkMem   bool            // values are held in memory as chunks (neutral callback configuration of C17)
	CmpOf      map[string]int  // comparator id per collection name (what the application supplies at load time)
	collCalls  int             // SetCollection calls so far (every second one for bytes.Compare passes nil)
	Digests    []string        // per step: "<len> <md5>" of the file (when RunCfg.Digests)
	Roots      [][]byte        // root records written by the successful flushes so far
	PreImage   []byte          // file image before the Flush in progress
	LastEvents []IOEvent       // file calls of the last API call
	HeapOK     map[string]bool // per collection: no key has been overwritten with a lower priority so far
	RC         *RefCounter     // non-nil when the ref-count callbacks are installed (C15)
	// counts of item references (C15) are kept by the callbacks in CB when installed
}

var memOnlyTypedNil bool // memory-only stores are opened on a typed nil file (set per configuration: deterministic replays)

func NewWorld(fileBacked bool, cb gkvlite.StoreCallbacks) (*World, error) {
	w := &World{CB: cb, Timeout: 10 * time.Second}
	var sf gkvlite.StoreFile
	if fileBacked {
		w.File = NewMemFile()
		sf = w.File
	}
	var s *gkvlite.Store
	var err error
	if fileBacked {
		s, err = gkvlite.NewStoreEx(sf, cb)
	} else if memOnlyTypedNil {
		// a memory-only store is also what NewStore makes of a nil pointer of a file type
		var typedNil *MemFile
		s, err = gkvlite.NewStoreEx(typedNil, cb)
	} else {
		s, err = gkvlite.NewStoreEx(nil, cb)
	}
	if err != nil {
		return nil, err
	}
	w.H = []*Handle{{Store: s, Ref: NewRefStore()}}
	return w, nil
}

// guard runs f with panic recovery and a watchdog.
func (w *World) guard(f func() string) (res string) {
	done := make(chan string, 1)
	go func() {
		defer func() {
			if r := recover(); r != nil {
				msg := fmt.Sprint(r)
				if len(msg) > 200 {
					msg = msg[:200]
				}
				w.Panic = msg
				done <- "PANIC"
			}
		}()
		done <- f()
	}()
	select {
	case r := <-done:
		return r
	case <-time.After(w.Timeout):
	}
	// the watchdog fired: on a loaded machine a slow call is not a hang; a call that is really stuck stays stuck, so it
	// is given four more periods before it is declared one
	select {
	case r := <-done:
		watchdogGrace++
		return r
	case <-time.After(4 * w.Timeout):
		w.Hang = true
		hangsSeen++
		return "HANG"
	}
}

var watchdogGrace int // calls that finished only within the grace period
var hangsSeen int     // calls declared hung (a stuck goroutine may hold a package-wide lock: shrinkers stop when this grows)

func errs(err error) string {
	if err != nil {
		return "err"
	}
	return "ok"
}

// memChunk is the in-memory representation used by the "chunked in memory" neutral
// callback configuration (the tools/slab pattern): Item.Val holds the first chunk, the
// rest hangs off Item.Transient.
type memChunk struct{ rest [][]byte }

const memChunkLen = 4

// fullVal reassembles the value of an item (identity without chunking).
func fullVal(i *gkvlite.Item) []byte {
	if i.Val == nil {
		return nil
	}
	mc, ok := i.Transient.(*memChunk)
	if !ok || mc == nil {
		return i.Val
	}
	v := append([]byte{}, i.Val...)
	for _, c := range mc.rest {
		v = append(v, c...)
	}
	return v
}

// chunkItem builds the chunked representation of (key, val, prio).
func chunkItem(key, val []byte, prio int32) *gkvlite.Item {
	it := &gkvlite.Item{Key: key, Priority: prio}
	if val == nil {
		return it
	}
	if len(val) <= memChunkLen {
		it.Val = val
		it.Transient = &memChunk{}
		return it
	}
	it.Val = val[:memChunkLen:memChunkLen]
	mc := &memChunk{}
	for p := memChunkLen; p < len(val); p += memChunkLen {
		e := p + memChunkLen
		if e > len(val) {
			e = len(val)
		}
		mc.rest = append(mc.rest, val[p:e:e])
	}
	it.Transient = mc
	return it
}

func itemObs(i *gkvlite.Item, err error, wv bool) string {
	if err != nil {
		return "err"
	}
	if i == nil {
		return "nil"
	}
	v := "*"
	if wv {
		v = hx(fullVal(i))
	}
	return fmt.Sprintf("i:%s:%s:%d", hx(i.Key), v, i.Priority)
}

func refItemObs(it *RefItem, wv bool) string {
	if it == nil {
		return "nil"
	}
	v := "*"
	if wv {
		v = hx(it.Val)
	}
	return fmt.Sprintf("i:%s:%s:%d", hx(it.Key), v, it.Prio)
}

// Do applies op to the implementation and returns the canonical
// observation.  The reference is NOT updated here; see Expect/Apply.
func (w *World) Do(op Op) string {
	if w.File != nil {
		w.File.SetLabel(op.K)
	}
	return w.guard(func() string { return w.do(op) })
}

func (w *World) coll(op Op) *gkvlite.Collection {
	return w.H[op.H].Store.GetCollection(op.Name)
}

type visited struct {
	Key, Val []byte
	Prio     int32
	Depth    uint64
}

func visObs(vs []visited, wv, withDepth bool, err error) string {
	var sb strings.Builder
	sb.WriteString("vs")
	for _, v := range vs {
		val := "*"
		if wv {
			val = hx(v.Val)
		}
		if withDepth {
			fmt.Fprintf(&sb, " %s/%s/%d/%d", hx(v.Key), val, v.Prio, v.Depth)
		} else {
			fmt.Fprintf(&sb, " %s/%s/%d", hx(v.Key), val, v.Prio)
		}
	}
	if err != nil {
		sb.WriteString(" err")
	}
	return sb.String()
}

func copyItem(i *gkvlite.Item, depth uint64) visited {
	v := visited{Key: append([]byte{}, i.Key...), Prio: i.Priority, Depth: depth}
	if i.Val != nil {
		v.Val = append([]byte{}, fullVal(i)...)
	}
	return v
}

func (w *World) do(op Op) string {
	h := w.H[op.H]
	s := h.Store
	switch op.K {
	case "coll":
		// method values of one method on different receivers: distinct comparators that share a code pointer
		w.collCalls++
		replacesCustom := false
		if h.Ref != nil {
			if rc, ok := h.Ref.Colls[op.Name]; ok && rc.Cmp != 0 {
				replacesCustom = true // an existing name ordered by a custom comparator goes back to the default
			}
		}
		if op.N == 0 && (w.collCalls%2 == 0 || replacesCustom) {
			s.SetCollection(op.Name, nil) // nil is documented to mean bytes.Compare, on new and on existing names
			return "ok"
		}
		s.SetCollection(op.Name, cmpObj{op.N}.Compare)
		return "ok"
	case "rmcoll":
		s.RemoveCollection(op.Name)
		return "ok"
	case "names":
		ns := s.GetCollectionNames()
		hs := make([]string, len(ns))
		for i, n := range ns {
			hs[i] = hx([]byte(n))
		}
		return "n:" + strings.Join(hs, ",")
	case "flush":
		return errs(s.Flush())
	case "revert":
		return errs(s.FlushRevert())
	case "reopen":
		return w.reopen()
	case "junk":
		// crash debris: bytes that are not a root record appear after the end of the file
		// (as after a torn write), then the file is opened again
		if w.File == nil {
			return "nofile"
		}
		r := NewRng(uint64(op.Prio) + 99)
		n := op.N
		j := make([]byte, n)
		for i := range j {
			j[i] = byte(r.Intn(256))
		}
		switch op.Prio % 3 {
		case 1:
			if n >= 12 {
				copy(j[n-12:], "3e4a5p3e4a5p") // looks like the end of a root record, but is not one
			}
		case 2:
			for i := range j {
				j[i] = 0 // a file extended by a crash but never written
			}
		}
		w.File.mu.Lock()
		w.File.data = append(w.File.data, j...)
		w.File.mu.Unlock()
		return w.reopen()
	case "snap":
		sn := s.Snapshot()
		var ref *RefStore
		if h.Ref != nil {
			ref = h.Ref.clone()
		}
		w.H = append(w.H, &Handle{Store: sn, Ref: ref, RO: true})
		return "ok"
	case "close":
		s.Close()
		h.Closed = true
		return "ok"
	case "copyto":
		if w.RC != nil {
			w.RC.suspend()
			defer w.RC.resume()
		}
		return w.copyTo(op, h)
	case "copyfail":
		// CopyTo onto a destination whose writes fail: must return an error and leave the source as it was
		res, err := h.Store.CopyTo(&failingWrites{MemFile: NewMemFile()}, 1)
		if err == nil {
			if res != nil {
				res.Close()
			}
			if h.Ref != nil && len(h.Ref.Colls) > 0 {
				n := 0
				for _, c := range h.Ref.Colls {
					n += len(c.Items)
				}
				if n > 0 {
					return "ok-although-destination-writes-fail"
				}
			}
			return "err"
		}
		return "err"
	}
	c := w.coll(op)
	if c == nil {
		return "nocoll"
	}
	switch op.K {
	case "set":
		if w.ChunkMem {
			return errs(c.SetItem(chunkItem(op.Key, op.Val, op.Prio)))
		}
		return errs(c.SetItem(&gkvlite.Item{Key: op.Key, Val: op.Val, Priority: op.Prio}))
	case "del":
		ok, err := c.Delete(op.Key)
		if err != nil {
			return "err"
		}
		return strconv.FormatBool(ok)
	case "get":
		if w.ChunkMem {
			// Get returns Item.Val only; with values chunked in memory the application reads through GetItem
			i, err := c.GetItem(op.Key, true)
			defer w.release(s, c, i)
			if err != nil {
				return "err"
			}
			if i == nil {
				return "nil"
			}
			return "v:" + hx(fullVal(i))
		}
		v, err := c.Get(op.Key)
		if err != nil {
			return "err"
		}
		if v == nil {
			return "nil"
		}
		return "v:" + hx(v)
	case "geti":
		i, err := c.GetItem(op.Key, op.WV)
		defer w.release(s, c, i)
		return itemObs(i, err, op.WV)
	case "exist":
		return strconv.FormatBool(c.Exist(op.Key))
	case "min":
		i, err := c.MinItem(op.WV)
		defer w.release(s, c, i)
		return itemObs(i, err, op.WV)
	case "max":
		i, err := c.MaxItem(op.WV)
		defer w.release(s, c, i)
		return itemObs(i, err, op.WV)
	case "tot":
		n, b, err := c.GetTotals()
		if err != nil {
			return "err"
		}
		return fmt.Sprintf("t:%d:%d", n, b)
	case "evict":
		c.EvictSomeItems()
		return "ok"
	case "cwrite":
		return errs(c.Write())
	case "asc", "desc":
		var vs []visited
		vis := func(i *gkvlite.Item) bool {
			vs = append(vs, copyItem(i, 0))
			return op.N < 0 || len(vs) <= op.N
		}
		var err error
		if op.K == "asc" {
			err = c.VisitItemsAscend(op.Key, op.WV, vis)
		} else {
			err = c.VisitItemsDescend(op.Key, op.WV, vis)
		}
		return visObs(vs, op.WV, false, err)
	case "ascx", "descx":
		var vs []visited
		vis := func(i *gkvlite.Item, d uint64) bool {
			vs = append(vs, copyItem(i, d))
			return op.N < 0 || len(vs) <= op.N
		}
		var err error
		if op.K == "ascx" {
			err = c.VisitItemsAscendEx(op.Key, op.WV, vis)
		} else {
			err = c.VisitItemsDescendEx(op.Key, op.WV, vis)
		}
		return visObs(vs, op.WV, true, err)
	case "nasc", "ndesc":
		// a visit whose visitor, at its first delivery, runs further read operations on the
		// same collection (a key-only visit over everything and a lookup): re-entrant reads
		var vs []visited
		nested := false
		var nestedErr error
		vis := func(i *gkvlite.Item, d uint64) bool {
			vs = append(vs, copyItem(i, d))
			if !nested {
				nested = true
				if e := c.VisitItemsAscend([]byte{}, false, func(j *gkvlite.Item) bool { return true }); e != nil {
					nestedErr = e
				}
				if e := c.VisitItemsDescend([]byte{0xff, 0xff, 0xff, 0xff}, false, func(j *gkvlite.Item) bool { return true }); e != nil {
					nestedErr = e
				}
				it, e := c.GetItem(i.Key, false)
				if e != nil {
					nestedErr = e
				}
				if it != nil {
					w.release(s, c, it)
				}
			}
			return op.N < 0 || len(vs) <= op.N
		}
		var err error
		if op.K == "nasc" {
			err = c.VisitItemsAscendEx(op.Key, op.WV, vis)
		} else {
			err = c.VisitItemsDescendEx(op.Key, op.WV, vis)
		}
		if err == nil {
			err = nestedErr
		}
		return visObs(vs, op.WV, false, err)
	case "nit":
		// an iterator with another (key-only) visit running while it is open
		it := c.IterateAscend(op.Key, op.WV)
		before := runtime.NumGoroutine()
		var vs []visited
		var nitErr error
		first := true
		for (op.N < 0 || len(vs) <= op.N) && it.Next() {
			vs = append(vs, copyItem(it.Result(), 0))
			if first {
				first = false
				nitErr = c.VisitItemsAscend([]byte{}, false, func(j *gkvlite.Item) bool { return true })
			}
		}
		it.Close()
		deadline := time.Now().Add(3 * time.Second)
		for runtime.NumGoroutine() >= before && before > 0 {
			if time.Now().After(deadline) {
				return visObs(vs, op.WV, false, it.Err()) + " producer-goroutine-still-running"
			}
			runtime.Gosched()
			time.Sleep(20 * time.Microsecond)
		}
		if e := it.Err(); e != nil {
			nitErr = e
		}
		return visObs(vs, op.WV, false, nitErr)
	case "itx":
		// an iterator driven by a script of N(ext) / C(lose) commands (op.Val)
		before := runtime.NumGoroutine()
		it := c.IterateAscend(op.Key, op.WV)
		var sb strings.Builder
		sb.WriteString("it")
		for _, cmd := range op.Val {
			switch cmd {
			case 'N':
				if it.Next() {
					r := it.Result()
					v := "*"
					if op.WV {
						v = hx(fullVal(r))
					}
					fmt.Fprintf(&sb, " %s/%s/%d", hx(r.Key), v, r.Priority)
				} else {
					sb.WriteString(" F")
				}
			case 'C':
				it.Close()
			}
		}
		it.Close() // an iterator is abandoned by closing it
		if it.Next() {
			sb.WriteString(" next-after-close-returned-true")
		}
		if it.Err() != nil {
			sb.WriteString(" err")
		}
		deadline := time.Now().Add(3 * time.Second)
		for runtime.NumGoroutine() > before {
			if time.Now().After(deadline) {
				sb.WriteString(" producer-goroutine-still-running")
				break
			}
			runtime.Gosched()
			time.Sleep(20 * time.Microsecond)
		}
		return sb.String()
	case "vmut", "vmutd":
		// a visit whose visitor mutates the store it is visiting (the mutating goroutine may do that):
		// the visit must keep delivering the version it started on
		var vs []visited
		other := s.GetCollection(op.Name + "-other")
		var nerr error
		visitFn := c.VisitItemsAscendEx
		if op.K == "vmutd" {
			visitFn = c.VisitItemsDescendEx
		}
		err := visitFn(op.Key, true, func(i *gkvlite.Item, d uint64) bool {
			vs = append(vs, copyItem(i, d))
			j := len(vs)
			switch j % 3 {
			case 0:
				if _, e := c.Delete(i.Key); e != nil {
					nerr = e
				}
			case 1:
				if len(i.Key)+5 <= 0xffff {
					if e := c.SetItem(&gkvlite.Item{Key: append([]byte("nest-"), i.Key...), Val: []byte{byte(j)}, Priority: int32(1000 + j)}); e != nil {
						nerr = e
					}
				}
			case 2:
				if other != nil {
					if e := other.SetItem(&gkvlite.Item{Key: append([]byte{}, i.Key...), Val: []byte("o"), Priority: int32(j)}); e != nil {
						nerr = e
					}
				}
			}
			return op.N < 0 || len(vs) <= op.N
		})
		if err == nil {
			err = nerr
		}
		return visObs(vs, true, false, err)
	case "vrev":
		// FlushRevert called from inside a visitor callback (on the mutating goroutine), which then stops the
		// visit: must neither deadlock nor panic, and the store then shows the previous Flush
		var vs []visited
		var rerr error
		called := false
		err := c.VisitItemsAscendEx(op.Key, true, func(i *gkvlite.Item, d uint64) bool {
			vs = append(vs, copyItem(i, d))
			called = true
			rerr = s.FlushRevert()
			return false
		})
		o := visObs(vs, true, false, err)
		if called {
			o += " revert:" + errs(rerr)
		}
		return o
	case "vall":
		// a visit whose visitor calls every kind of read operation on the same store
		var vs []visited
		var nerr error
		before := runtime.NumGoroutine()
		note := func(e error) {
			if e != nil {
				nerr = e
			}
		}
		err := c.VisitItemsDescendEx(op.Key, op.WV, func(i *gkvlite.Item, d uint64) bool {
			vs = append(vs, copyItem(i, d))
			if len(vs) <= 2 {
				gi, e := c.GetItem(i.Key, true)
				note(e)
				w.release(s, c, gi)
				_, e = c.Get(i.Key)
				if w.RC == nil {
					note(e)
				}
				c.Exist(i.Key)
				mi, e := c.MinItem(false)
				note(e)
				w.release(s, c, mi)
				ma, e := c.MaxItem(true)
				note(e)
				w.release(s, c, ma)
				_, _, e = c.GetTotals()
				note(e)
				_, e = c.Len()
				note(e)
				s.GetCollectionNames()
				it := c.IterateAscend([]byte{}, false)
				for k := 0; k < 2 && it.Next(); k++ {
				}
				it.Close()
				sn := s.Snapshot()
				if sc := sn.GetCollection(op.Name); sc != nil {
					note(sc.VisitItemsAscend([]byte{}, true, func(*gkvlite.Item) bool { return true }))
				}
				sn.Close()
			}
			return op.N < 0 || len(vs) <= op.N
		})
		if err == nil {
			err = nerr
		}
		// the nested iterators' producers must exit too
		deadline := time.Now().Add(3 * time.Second)
		for runtime.NumGoroutine() > before {
			if time.Now().After(deadline) {
				return visObs(vs, op.WV, false, err) + " producer-goroutine-still-running"
			}
			runtime.Gosched()
			time.Sleep(20 * time.Microsecond)
		}
		return visObs(vs, op.WV, false, err)
	case "itasc", "itdesc":
		var it gkvlite.ItemIterator
		before := runtime.NumGoroutine()
		if op.K == "itasc" {
			it = c.IterateAscend(op.Key, op.WV)
		} else {
			it = c.IterateDescend(op.Key, op.WV)
		}
		var vs []visited
		for (op.N < 0 || len(vs) <= op.N) && it.Next() {
			vs = append(vs, copyItem(it.Result(), 0))
		}
		it.Close()
		// the producer goroutine must exit (and release its pin) once the
		// iterator is closed or exhausted
		deadline := time.Now().Add(3 * time.Second)
		for runtime.NumGoroutine() > before {
			if time.Now().After(deadline) {
				return visObs(vs, op.WV, false, it.Err()) + " producer-goroutine-still-running"
			}
			runtime.Gosched()
			time.Sleep(20 * time.Microsecond)
		}
		return visObs(vs, op.WV, false, it.Err())
	case "len":
		n, err := c.Len()
		if err != nil {
			if os.Getenv("VERIF_DEBUG") != "" {
				fmt.Fprintln(os.Stderr, "len error:", err)
			}
			return "err"
		}
		return fmt.Sprintf("l:%d", n)
	case "cjson":
		// an application may marshal a collection handle at any time (json.Marshal(coll)): a read-only call
		if _, err := c.MarshalJSON(); err != nil {
			return "err"
		}
		return "ok"
	case "setnil":
		// Collection.Set (the convenience wrapper, random priority) with a nil value: rejected, nothing changes
		return errs(c.Set(op.Key, nil))
	}
	panic("unknown op " + op.K)
}

func (w *World) reopen() string {
	if w.File == nil {
		return "nofile"
	}
	s, err := gkvlite.NewStoreEx(w.File, w.CB)
	if err != nil {
		return "err"
	}
	w.H[0].Store.Close()
	w.H[0].Store = s
	return "ok"
}

// release returns a reference handed out by GetItem/MinItem/MaxItem.
func (w *World) release(s *gkvlite.Store, c *gkvlite.Collection, i *gkvlite.Item) {
	if w.RC != nil && i != nil {
		w.RC.handedOut(i)
		s.ItemDecRef(c, i)
	}
}

// Expect computes, from the reference only, the observation the
// property demands for op, and applies op's effect to the reference.
// ok=false means the reference has no opinion (e.g. evict count).
func (w *World) Expect(op Op) string {
	h := w.H[op.H]
	r := h.Ref
	if r == nil {
		return "?"
	}
	switch op.K {
	case "coll":
		if h.RO {
			// Snapshots are not expected to be handed collection management.
			return "ok"
		}
		if c, ok := r.Colls[op.Name]; ok {
			c.Cmp = op.N
		} else {
			r.Colls[op.Name] = &RefColl{Cmp: op.N}
		}
		return "ok"
	case "rmcoll":
		delete(r.Colls, op.Name)
		return "ok"
	case "names":
		ns := r.names()
		hs := make([]string, len(ns))
		for i, n := range ns {
			hs[i] = hx([]byte(n))
		}
		return "n:" + strings.Join(hs, ",")
	case "flush":
		if h.RO || w.File == nil {
			return "err"
		}
		w.Flushed = append(w.Flushed, r.clone())
		return "ok"
	case "revert":
		if w.File == nil {
			return "err"
		}
		if h.RO {
			h.Ref = nil // what a reverted snapshot shows is not specified here; only that nothing else changes
			return "ok"
		}
		if len(w.Flushed) > 0 {
			w.Flushed = w.Flushed[:len(w.Flushed)-1]
		}
		if len(w.Flushed) > 0 {
			h.Ref = w.Flushed[len(w.Flushed)-1].clone()
		} else {
			h.Ref = NewRefStore()
		}
		w.loadTimeComparators(h.Ref)
		return "ok"
	case "reopen", "junk":
		if w.File == nil {
			return "nofile"
		}
		if len(w.Flushed) > 0 {
			h.Ref = w.Flushed[len(w.Flushed)-1].clone()
		} else {
			h.Ref = NewRefStore()
		}
		w.loadTimeComparators(h.Ref)
		return "ok"
	case "snap", "close", "copyto":
		return "ok"
	case "copyfail":
		return "err"
	}
	c, ok := r.Colls[op.Name]
	if !ok {
		return "nocoll"
	}
	cmp := comparators[c.Cmp]
	switch op.K {
	case "set":
		if h.RO || !itemValid(op.Key, op.Val, op.Prio) {
			return "err"
		}
		if w.HeapOK == nil {
			w.HeapOK = map[string]bool{}
		}
		if _, seen := w.HeapOK[op.Name]; !seen {
			w.HeapOK[op.Name] = true
		}
		if j, ok := c.find(op.Key); ok && c.Items[j].Prio > op.Prio {
			w.HeapOK[op.Name] = false
		}
		c.set(RefItem{Key: op.Key, Val: op.Val, Prio: op.Prio})
		return "ok"
	case "del":
		if h.RO {
			return "err"
		}
		return strconv.FormatBool(c.del(op.Key))
	case "get":
		if i, ok := c.find(op.Key); ok {
			return "v:" + hx(c.Items[i].Val)
		}
		return "nil"
	case "geti":
		if i, ok := c.find(op.Key); ok {
			return refItemObs(&c.Items[i], op.WV)
		}
		return "nil"
	case "exist":
		_, ok := c.find(op.Key)
		return strconv.FormatBool(ok)
	case "min":
		if len(c.Items) == 0 {
			return "nil"
		}
		return refItemObs(&c.Items[0], op.WV)
	case "max":
		if len(c.Items) == 0 {
			return "nil"
		}
		return refItemObs(&c.Items[len(c.Items)-1], op.WV)
	case "tot":
		n, b := c.totals()
		return fmt.Sprintf("t:%d:%d", n, b)
	case "evict":
		return "ok"
	case "cwrite":
		if h.RO || w.File == nil {
			return "err"
		}
		return "ok"
	case "asc", "itasc", "ascx", "nasc", "nit":
		var vs []visited
		for _, it := range c.Items {
			if cmp(op.Key, it.Key) <= 0 {
				vs = append(vs, visited{Key: it.Key, Val: it.Val, Prio: it.Prio})
				if op.N >= 0 && len(vs) > op.N {
					break
				}
			}
		}
		return visObs(vs, op.WV, false, nil)
	case "desc", "itdesc", "descx", "ndesc":
		var vs []visited
		for j := len(c.Items) - 1; j >= 0; j-- {
			it := c.Items[j]
			if cmp(op.Key, it.Key) > 0 {
				vs = append(vs, visited{Key: it.Key, Val: it.Val, Prio: it.Prio})
				if op.N >= 0 && len(vs) > op.N {
					break
				}
			}
		}
		return visObs(vs, op.WV, false, nil)
	case "len":
		return fmt.Sprintf("l:%d", len(c.Items))
	case "cjson":
		return "ok"
	case "setnil":
		return "err"
	case "itx":
		var seq []RefItem
		for _, it := range c.Items {
			if cmp(op.Key, it.Key) <= 0 {
				seq = append(seq, it)
			}
		}
		var sb strings.Builder
		sb.WriteString("it")
		pos, closed := 0, false
		for _, cmdc := range op.Val {
			switch cmdc {
			case 'N':
				if !closed && pos < len(seq) {
					v := "*"
					if op.WV {
						v = hx(seq[pos].Val)
					}
					fmt.Fprintf(&sb, " %s/%s/%d", hx(seq[pos].Key), v, seq[pos].Prio)
					pos++
				} else {
					sb.WriteString(" F")
					closed = true
				}
			case 'C':
				closed = true
			}
		}
		return sb.String()
	case "vall":
		var vs []visited
		for j := len(c.Items) - 1; j >= 0; j-- {
			it := c.Items[j]
			if cmp(op.Key, it.Key) > 0 {
				vs = append(vs, visited{Key: it.Key, Val: it.Val, Prio: it.Prio})
				if op.N >= 0 && len(vs) > op.N {
					break
				}
			}
		}
		return visObs(vs, op.WV, false, nil)
	case "vrev":
		if h.RO || w.File == nil {
			return "?"
		}
		var one []visited
		for _, it := range c.Items {
			if cmp(op.Key, it.Key) <= 0 {
				one = append(one, visited{Key: it.Key, Val: it.Val, Prio: it.Prio})
				break
			}
		}
		o := visObs(one, true, false, nil)
		if len(one) > 0 {
			o += " revert:" + w.Expect(Op{K: "revert", H: op.H})
		}
		return o
	case "vmut", "vmutd":
		if h.RO {
			return "?"
		}
		var vs []visited
		var seq []RefItem
		if op.K == "vmut" {
			for _, it := range c.Items {
				if cmp(op.Key, it.Key) <= 0 {
					seq = append(seq, it)
				}
			}
		} else {
			for j := len(c.Items) - 1; j >= 0; j-- {
				if cmp(op.Key, c.Items[j].Key) > 0 {
					seq = append(seq, c.Items[j])
				}
			}
		}
		other := r.Colls[op.Name+"-other"]
		for _, it := range seq {
			vs = append(vs, visited{Key: it.Key, Val: it.Val, Prio: it.Prio})
			j := len(vs)
			switch j % 3 {
			case 0:
				c.del(it.Key)
			case 1:
				nk := append([]byte("nest-"), it.Key...)
				if len(nk) <= 0xffff {
					if w.HeapOK != nil {
						if q, ok := c.find(nk); ok && c.Items[q].Prio > int32(1000+j) {
							w.HeapOK[op.Name] = false
						}
					}
					c.set(RefItem{Key: nk, Val: []byte{byte(j)}, Prio: int32(1000 + j)})
				}
			case 2:
				if other != nil {
					other.set(RefItem{Key: it.Key, Val: []byte("o"), Prio: int32(j)})
				}
			}
			if op.N >= 0 && len(vs) > op.N {
				break
			}
		}
		return visObs(vs, true, false, nil)
	}
	panic("unknown op (expect) " + op.K)
}

// stripDepth turns an "ascx"/"descx" observation into the plain form.
func stripDepth(obs string) string {
	f := strings.Fields(obs)
	for i, t := range f {
		if i == 0 || t == "err" {
			continue
		}
		if j := strings.LastIndex(t, "/"); j >= 0 {
			f[i] = t[:j]
		}
	}
	return strings.Join(f, " ")
}

// DumpImpl reads the full contents of a handle through the public API.
func (w *World) DumpImpl(hi int) string {
	return w.guard(func() string { return dumpStore(w.H[hi].Store) })
}

func dumpStore(s *gkvlite.Store) string {
	var sb strings.Builder
	for _, n := range s.GetCollectionNames() {
		c := s.GetCollection(n)
		cnt, b, err := c.GetTotals()
		if err != nil {
			return "err:totals"
		}
		if bytesUnspecified {
			b = 0
		}
		fmt.Fprintf(&sb, "[%s n=%d b=%d", hx([]byte(n)), cnt, b)
		mi, err := c.MinItem(false)
		if err != nil {
			return "err:min"
		}
		if mi != nil {
			err = c.VisitItemsAscend(mi.Key, true, func(i *gkvlite.Item) bool {
				fmt.Fprintf(&sb, " %s/%s/%d", hx(i.Key), hx(fullVal(i)), i.Priority)
				return true
			})
			s.ItemDecRef(c, mi) // give back the reference MinItem handed out (counted when the store has callbacks)
			if err != nil {
				return "err:visit:" + err.Error()
			}
		}
		sb.WriteString("]")
	}
	return sb.String()
}

// copyTo runs Store.CopyTo(dst, flushEvery=op.N) on handle h and checks the
// destination: same collections/keys/values/priorities as the source's
// reference; with flushEvery > 0 the destination file re-opens to that state,
// the Coq decoder reconstructs it, and every item record occurs exactly once
// in the destination file (only live data).
func (w *World) copyTo(op Op, h *Handle) string {
	if h.Ref == nil {
		return "ok"
	}
	dst := NewMemFile()
	if op.Prio > 0 {
		// ONE transient fault on the destination: its Prio-th file call fails (a write stores WV?1:0 bytes);
		// CopyTo must then return an error, or -- when the position is never reached -- a complete copy
		torn := 0
		if op.WV {
			torn = 1
		}
		dst.Arm(int(op.Prio), torn, false)
	}
	res, err := h.Store.CopyTo(dst, op.N)
	if err != nil {
		if op.Prio > 0 && dst.Failed() > 0 {
			return "ok" // the injected destination fault was reported
		}
		return "err:" + err.Error()
	}
	if op.Prio > 0 && dst.Failed() > 0 {
		if res != nil {
			res.Close()
		}
		return "copyto-swallowed-destination-fault: CopyTo returned no error although a destination file call failed"
	}
	dst.Arm(0, 0, false)
	exp := h.Ref.dump()
	if got := dumpStore(res); got != exp {
		return "copy-differs: " + got
	}
	if op.N > 0 {
		img := dst.Bytes()
		cb2 := w.CB
		if cb2.KeyCompareForCollection == nil {
			cb2.KeyCompareForCollection = func(name string) gkvlite.KeyCompare { return comparators[w.CmpOf[name]] }
		}
		s2, err := gkvlite.NewStoreEx(NewMemFileFrom(img), cb2)
		if err != nil {
			if len(h.Ref.Colls) == 0 && len(img) == 0 {
				return "ok"
			}
			return "dst-reopen-err:" + err.Error()
		}
		got2 := dumpStore(s2)
		s2.Close()
		if got2 != exp {
			return "dst-reopen-differs: " + got2
		}
		if d := DecodeModel(img); d != "timeout" && !(strings.HasPrefix(d, "ok ") && strings.SplitN(d, " ", 3)[2] == exp) && !(exp == "" && (d == "empty" || strings.HasPrefix(d, "ok "))) {
			return "dst-decode-differs: " + trunc(d, 200)
		}
		// the destination file, byte for byte, vs CopyRun.copy_result (CopyTo as a history of the destination store)
		if m := copyRunMismatch(w, h, op.N, img); m != "" {
			return m
		}
		// only live data: each item record exactly once
		want := map[string]int{}
		for _, c := range h.Ref.Colls {
			for _, it := range c.Items {
				want[string(encItemRecord(it))]++
			}
		}
		for rec, k := range want {
			if n := bytes.Count(img, []byte(rec)); n != k {
				return fmt.Sprintf("dst-item-record-count: an item record that is live %d time(s) occurs %d times in the destination file (key %x)", k, n, rec[16:16+int(binary.BigEndian.Uint32([]byte(rec[4:8])))])
			}
		}
		// no item records beyond the live ones: total bytes of item records = sum over live items
		// (checked through the decoder's conformance: every record reachable; superseded items would be unreachable
		// and are found by counting the 16-byte headers of all keys, done above)
	}
	res.Close()
	return "ok"
}

func encItemRecord(it RefItem) []byte {
	b := make([]byte, 16, 16+len(it.Key)+len(it.Val))
	binary.BigEndian.PutUint32(b[0:], uint32(16+len(it.Key)+len(it.Val)))
	binary.BigEndian.PutUint32(b[4:], uint32(len(it.Key)))
	binary.BigEndian.PutUint32(b[8:], uint32(len(it.Val)))
	binary.BigEndian.PutUint32(b[12:], uint32(it.Prio))
	b = append(b, it.Key...)
	return append(b, it.Val...)
}

type cmpObj struct{ id int }

func (c cmpObj) Compare(a, b []byte) int { return comparators[c.id](a, b) }

// failingWrites is a StoreFile whose WriteAt always fails (reads and Stat work).
type failingWrites struct{ *MemFile }

func (f *failingWrites) WriteAt(p []byte, off int64) (int, error) { return 0, errInjected }

// loadTimeComparators: collections loaded from the file (re-open, FlushRevert) get the comparator the
// application supplies through KeyCompareForCollection (the one last installed for that name), or
// bytes.Compare when no such callback is installed.
func (w *World) loadTimeComparators(r *RefStore) {
	for name, c := range r.Colls {
		if w.CB.KeyCompareForCollection != nil {
			c.Cmp = w.CmpOf[name]
		} else {
			c.Cmp = 0
		}
	}
}

var copyRunCompared int

// copyRunMismatch asks the model for the destination file CopyTo must leave (CopyRun.copy_result: SetCollection per
// source collection in name order, SetItem in ascending key order, a Flush after every flushEvery-th item and a closing
// Flush) and compares length and MD5.  Sources with callbacks that change the stored bytes are skipped.
func copyRunMismatch(w *World, h *Handle, fe int, img []byte) string {
	if fe <= 0 || h.Ref == nil || w.ChunkMem || valOverhead != 0 || bytesUnspecified {
		return ""
	}
	var lines []string
	total := 0
	for _, n := range h.Ref.names() {
		c := h.Ref.Colls[n]
		lines = append(lines, fmt.Sprintf("coll %s %d", hx([]byte(n)), c.Cmp))
		for _, it := range c.Items {
			if len(it.Key) > 1500 || len(it.Val) > 6000 {
				return ""
			}
			total += len(it.Key) + len(it.Val)
			lines = append(lines, fmt.Sprintf("item %s %s %d", hx(it.Key), hx(it.Val), it.Prio))
		}
	}
	if total > 20000 {
		return ""
	}
	m := getModel()
	req := fmt.Sprintf("copyrun %d %d\n", fe, len(lines))
	if len(lines) > 0 {
		req += strings.Join(lines, "\n") + "\n"
	}
	if _, err := io.WriteString(m.in, req); err != nil {
		return ""
	}
	line, err := m.out.ReadString('\n')
	if err != nil {
		return ""
	}
	line = strings.TrimRight(line, "\n")
	copyRunCompared++
	got := fmt.Sprintf("ok %d %x", len(img), md5.Sum(img))
	if line != got {
		return "dst-file-differs-from-model: CopyRun.copy_result predicts " + line + ", the destination file is " + got
	}
	return ""
}
