package main

import (
	"bufio"
	"encoding/json"
	"fmt"
	"os"
	"path/filepath"
	"sort"
	"strings"
	"time"
)

// Report accumulates what one harness run covered and found; it is
// written to --out and merged into evidence/<id>.json by ./check.
type Report struct {
	Property    string
	Tier        string
	Seed        uint64
	Start       time.Time
	Evaluations int
	distinct    map[string]struct{}
	Rule        string
	Samples     []interface{}
	OpMix       map[string]int
	Extra       map[string]interface{}
	Violations  []string // replay paths
	NoInput     []bool
	Known       []string
	knownKeys   map[string]string
	replayDir   string
	out         string
	nrep        int
}

func NewReport(prop, tier string, seed uint64, out, replayDir, knownFile string) *Report {
	r := &Report{Property: prop, Tier: tier, Seed: seed, Start: time.Now(),
		distinct: map[string]struct{}{}, OpMix: map[string]int{}, Extra: map[string]interface{}{},
		knownKeys: map[string]string{}, replayDir: replayDir, out: out}
	if f, err := os.Open(knownFile); err == nil {
		sc := bufio.NewScanner(f)
		for sc.Scan() {
			line := strings.TrimSpace(sc.Text())
			if !strings.HasPrefix(line, "finding:") {
				continue
			}
			var prop, key string
			rest := strings.Fields(strings.TrimPrefix(line, "finding:"))
			var desc []string
			for _, t := range rest {
				if strings.HasPrefix(t, "property=") {
					prop = strings.TrimPrefix(t, "property=")
				} else if strings.HasPrefix(t, "key=") {
					key = strings.TrimPrefix(t, "key=")
				} else {
					desc = append(desc, t)
				}
			}
			r.knownKeys[prop+"/"+key] = strings.Join(desc, " ")
		}
		f.Close()
	}
	return r
}

func (r *Report) Distinct(sig string) { r.distinct[sig] = struct{}{} }

func (r *Report) CountOps(ops []Op) {
	for _, o := range ops {
		r.OpMix[o.K]++
	}
}

func (r *Report) Sample(s interface{}) {
	if len(r.Samples) < 3 {
		r.Samples = append(r.Samples, s)
	}
}

// Violation records a violation whose classified cause is key.  When
// the known-findings file lists (property,key) it is printed as a
// KNOWN-FINDING and does not count.  Returns true if it counted.
func (r *Report) Violation(key string, noInput bool, replay map[string]interface{}) bool {
	if desc, ok := r.knownKeys[r.Property+"/"+key]; ok && key != "" {
		msg := fmt.Sprintf("KNOWN-FINDING: property=%s key=%s %s", r.Property, key, desc)
		for _, k := range r.Known {
			if k == msg {
				return false
			}
		}
		r.Known = append(r.Known, msg)
		fmt.Println(msg)
		return false
	}
	os.MkdirAll(r.replayDir, 0o755)
	r.ClearPending()
	r.nrep++
	path := filepath.Join(r.replayDir, fmt.Sprintf("%s-%d-%d.json", r.Property, r.Seed, r.nrep))
	replay["property"] = r.Property
	replay["seed"] = r.Seed
	replay["tier"] = r.Tier
	replay["cause_key"] = key
	b, _ := json.MarshalIndent(replay, "", " ")
	os.WriteFile(path, b, 0o644)
	suffix := ""
	if noInput {
		suffix = " no-failing-input-found"
	}
	fmt.Printf("VIOLATION property=%s replay=%s%s\n", r.Property, path, suffix)
	r.Violations = append(r.Violations, path)
	r.NoInput = append(r.NoInput, noInput)
	return true
}

// Pending records a failing case before it is shrunk, so that it
// survives if the process dies during shrinking (corrupted trees can
// provoke unrecoverable runtime errors such as a stack overflow).
func (r *Report) Pending(replay map[string]interface{}) {
	os.MkdirAll(r.replayDir, 0o755)
	b, _ := json.MarshalIndent(replay, "", " ")
	os.WriteFile(filepath.Join(r.replayDir, fmt.Sprintf("%s-%d-pending.json", r.Property, r.Seed)), b, 0o644)
}

func (r *Report) ClearPending() {
	os.Remove(filepath.Join(r.replayDir, fmt.Sprintf("%s-%d-pending.json", r.Property, r.Seed)))
}

func (r *Report) Finish() int {
	keys := make([]string, 0, len(r.OpMix))
	for k := range r.OpMix {
		keys = append(keys, k)
	}
	sort.Strings(keys)
	if r.Extra != nil {
		r.Extra["watchdog_calls_finished_in_grace_period"] = watchdogGrace
	}
	res := map[string]interface{}{
		"property_id":              r.Property,
		"tier":                     r.Tier,
		"seed":                     r.Seed,
		"evaluations":              r.Evaluations,
		"distinct_nontrivial":      len(r.distinct),
		"rule":                     r.Rule,
		"samples":                  r.Samples,
		"op_mix":                   r.OpMix,
		"extra":                    r.Extra,
		"model_requests_timed_out": modelTimeouts,
		"violations":               r.Violations,
		"known_findings":           r.Known,
		"wall_s":                   time.Since(r.Start).Seconds(),
	}
	b, _ := json.MarshalIndent(res, "", " ")
	if r.out != "" {
		os.WriteFile(r.out, b, 0o644)
	}
	if len(r.Violations) > 0 {
		return 1
	}
	return 0
}
