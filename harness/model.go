package main

import (
	"bufio"
	"fmt"
	"io"
	"os"
	"os/exec"
	"strings"
	"time"
)

// ModelClient talks to the extracted Coq model (runner/model).
type ModelClient struct {
	cmd *exec.Cmd
	in  io.WriteCloser
	out *bufio.Reader
}

var theModel *ModelClient

func getModel() *ModelClient {
	if theModel != nil {
		return theModel
	}
	cmd := exec.Command(flagRunner)
	in, _ := cmd.StdinPipe()
	out, _ := cmd.StdoutPipe()
	if err := cmd.Start(); err != nil {
		panic("cannot start model runner " + flagRunner + ": " + err.Error())
	}
	theModel = &ModelClient{cmd: cmd, in: in, out: bufio.NewReaderSize(out, 1<<20)}
	return theModel
}

// Run evaluates Store.run on the history and returns the model's observations.
func (m *ModelClient) Run(fileBacked bool, ops []Op) ([]string, error) {
	var sb strings.Builder
	fb := 0
	if fileBacked {
		fb = 1
	}
	fmt.Fprintf(&sb, "run %d %d\n", fb, len(ops))
	for _, o := range ops {
		sb.WriteString(o.String())
		sb.WriteByte('\n')
	}
	if _, err := io.WriteString(m.in, sb.String()); err != nil {
		return nil, err
	}
	var res []string
	for {
		line, err := m.out.ReadString('\n')
		if err != nil {
			return nil, fmt.Errorf("model runner died: %v", err)
		}
		line = strings.TrimRight(line, "\n")
		if line == "END" {
			break
		}
		if strings.HasPrefix(line, "ERR") {
			return nil, fmt.Errorf("%s", line)
		}
		res = append(res, line)
	}
	return res, nil
}

var modelKinds = map[string]bool{"coll": true, "rmcoll": true, "names": true, "set": true, "del": true, "get": true, "geti": true,
	"exist": true, "min": true, "max": true, "tot": true, "flush": true, "evict": true, "reopen": true, "revert": true,
	"asc": true, "ascx": true, "itasc": true, "desc": true, "descx": true, "itdesc": true, "len": true, "nasc": true, "ndesc": true, "nit": true, "junk": true}

// canonicalShape reports whether C13 makes the tree shape a function of
// the contents for this history: pairwise distinct priorities and no key
// overwritten with a lower priority than it had.
func canonicalShape(ops []Op) bool {
	seen := map[int32]bool{}
	cur := map[string]int32{}
	for _, o := range ops {
		if o.K != "set" || !itemValid(o.Key, o.Val, o.Prio) {
			continue
		}
		if seen[o.Prio] {
			return false
		}
		seen[o.Prio] = true
		k := o.Name + "\x00" + string(o.Key)
		if p, ok := cur[k]; ok && o.Prio < p {
			return false
		}
		cur[k] = o.Prio
	}
	return true
}


// noModelOp: calls that are no-ops for the models (they neither change nor observe the modelled state): the models
// run on the history without them
func noModelOp(k string) bool { return k == "cjson" || k == "setnil" }

func filterNoModel(ops []Op, obs []string, digests []string) ([]Op, []string, []string, []int) {
	any := false
	for _, o := range ops {
		if noModelOp(o.K) {
			any = true
		}
	}
	if !any {
		return ops, obs, digests, nil
	}
	var fo []Op
	var fb, fd []string
	var idx []int
	for i, o := range ops {
		if noModelOp(o.K) {
			continue
		}
		fo = append(fo, o)
		idx = append(idx, i)
		if i < len(obs) {
			fb = append(fb, obs[i])
		}
		if i < len(digests) {
			fd = append(fd, digests[i])
		}
	}
	return fo, fb, fd, idx
}

func remapStep(m *Mismatch, idx []int) *Mismatch {
	if m != nil && idx != nil && m.Step >= 0 && m.Step < len(idx) {
		m.Step = idx[m.Step]
	}
	return m
}

// ModelMismatch compares the implementation's observations with the
// model's on one history.  Returns nil when they agree.
func ModelMismatch(fileBacked bool, ops []Op, obs []string) (*Mismatch, int) {
	if fo, fb, _, idx := filterNoModel(ops, obs, nil); idx != nil {
		m, n := ModelMismatch(fileBacked, fo, fb)
		return remapStep(m, idx), n
	}
	multi := false
	for _, o := range ops {
		if o.K == "snap" || o.K == "close" || o.H != 0 {
			multi = true
			continue
		}
		if !modelKinds[o.K] {
			return nil, 0
		}
	}
	if multi {
		return multiModelMismatch(fileBacked, ops, obs)
	}
	if len(obs) < len(ops) {
		ops = ops[:len(obs)]
	}
	mo, err := getModel().Run(fileBacked, ops)
	if err != nil {
		return &Mismatch{Kind: "model-runner", Expected: "model evaluation", Observed: err.Error()}, 0
	}
	canon := canonicalShape(ops)
	for i := range ops {
		got, exp := obs[i], mo[i]
		switch ops[i].K {
		case "asc", "desc", "itasc", "itdesc", "nasc", "ndesc", "nit":
			exp = stripDepth(exp)
		case "ascx", "descx":
			if !canon {
				exp, got = stripDepth(exp), stripDepth(got)
			}
		}
		if got != exp {
			return &Mismatch{Step: i, Op: ops[i].String(), Kind: "model", Expected: exp, Observed: got,
				Note: "implementation vs the Coq model (Store.run); the sorted-map reference agreed with the implementation on this step"}, i
		}
	}
	return nil, len(ops)
}

// request sends one request line and returns one response line.
func (m *ModelClient) request(line string) (string, error) {
	if os.Getenv("VERIF_DEBUG_MODEL") != "" {
		fmt.Fprintf(os.Stderr, "model request: %s (%d bytes)\n", trunc(line, 60), len(line))
	}
	type resp struct {
		s   string
		err error
	}
	ch := make(chan resp, 1)
	go func() {
		if _, err := io.WriteString(m.in, line+"\n"); err != nil {
			ch <- resp{"", err}
			return
		}
		r, err := m.out.ReadString('\n')
		if err != nil {
			ch <- resp{"", fmt.Errorf("model runner died: %v", err)}
			return
		}
		ch <- resp{strings.TrimRight(r, "\n"), nil}
	}()
	select {
	case r := <-ch:
		return r.s, r.err
	case <-time.After(90 * time.Second):
		// the list-based model can be very slow on large images: give up on this request, restart the runner
		m.cmd.Process.Kill()
		theModel = nil
		modelTimeouts++
		return "", errModelTimeout
	}
}

var errModelTimeout = fmt.Errorf("model request timed out")
var modelTimeouts int

func hexFile(b []byte) string {
	if len(b) == 0 {
		return "e"
	}
	return fmt.Sprintf("%x", b)
}

// DecodeModel runs the Coq decoder (Disk.decode_store) on a file image:
// "empty" | "noroots" | "bad" | "ok <size> <dump>".
func DecodeModel(img []byte) string {
	r, err := getModel().request("decode " + hexFile(img))
	if err == errModelTimeout {
		return "timeout"
	}
	if err != nil {
		return "model-error: " + err.Error()
	}
	return r
}

// ConformsModel runs Disk.conforms_v4 on a file image.
func ConformsModel(img []byte, cmpOf map[string]int) string {
	var parts []string
	for n, id := range cmpOf {
		parts = append(parts, fmt.Sprintf("%s:%d", hx([]byte(n)), id))
	}
	c := "-"
	if len(parts) > 0 {
		c = strings.Join(parts, ",")
	}
	r, err := getModel().request("conforms " + c + " " + hexFile(img))
	if err == errModelTimeout {
		return "true"
	}
	if err != nil {
		return "model-error: " + err.Error()
	}
	return r
}

var dmodelHistOK, dmodelHistNotOK int

var dmodelKinds = map[string]bool{"coll": true, "rmcoll": true, "names": true, "set": true, "del": true, "get": true, "geti": true,
	"exist": true, "min": true, "max": true, "tot": true, "flush": true, "evict": true, "reopen": true, "revert": true,
	"asc": true, "ascx": true, "itasc": true, "desc": true, "descx": true, "itdesc": true, "len": true, "nasc": true, "ndesc": true, "nit": true}

// DModelMismatch runs the byte-level store model DStore.drun on the history and compares, step by step, the
// observations and (after Flush / FlushRevert / re-open) length and MD5 of the predicted file with the implementation's.
func DModelMismatch(ops []Op, obs []string, digests []string) *Mismatch {
	if fo, fb, fd, idx := filterNoModel(ops, obs, digests); idx != nil {
		return remapStep(DModelMismatch(fo, fb, fd), idx)
	}
	total := 0
	for _, o := range ops {
		if o.H != 0 || !dmodelKinds[o.K] {
			return nil
		}
		// the extracted byte-level model works on lists of N: keep it to files of moderate size
		if len(o.Key) > 1500 || len(o.Val) > 6000 {
			return nil
		}
		total += len(o.Key) + len(o.Val)
	}
	if total > 60000 {
		return nil
	}
	if len(obs) < len(ops) || len(digests) < len(ops) {
		return nil
	}
	m := getModel()
	var sb strings.Builder
	fmt.Fprintf(&sb, "drun %d\n", len(ops))
	for _, o := range ops {
		sb.WriteString(o.String())
		sb.WriteByte('\n')
	}
	if _, err := io.WriteString(m.in, sb.String()); err != nil {
		return &Mismatch{Kind: "model-runner", Observed: err.Error()}
	}
	var lines []string
	for {
		line, err := m.out.ReadString('\n')
		if err != nil {
			return &Mismatch{Kind: "model-runner", Observed: "model runner died: " + err.Error()}
		}
		line = strings.TrimRight(line, "\n")
		if line == "END" {
			break
		}
		if strings.HasPrefix(line, "history_ok ") {
			// the hypotheses of theorem c02_history / c08_walks_back, evaluated on this history
			if line == "history_ok true" {
				dmodelHistOK++
			} else {
				dmodelHistNotOK++
			}
			continue
		}
		lines = append(lines, line)
	}
	canon := canonicalShape(ops)
	for i := range ops {
		if i >= len(lines) {
			break
		}
		parts := strings.SplitN(lines[i], " | ", 2)
		exp, got := parts[0], obs[i]
		switch ops[i].K {
		case "asc", "desc", "itasc", "itdesc", "nasc", "ndesc", "nit":
			exp = stripDepth(exp)
		case "ascx", "descx":
			if !canon {
				exp, got = stripDepth(exp), stripDepth(got)
			}
		}
		if exp != got {
			return &Mismatch{Step: i, Op: ops[i].String(), Kind: "dmodel-obs", Expected: exp, Observed: got, Note: "implementation vs DStore.drun"}
		}
		switch ops[i].K {
		case "flush", "revert", "reopen":
			if len(parts) == 2 && parts[1] != digests[i] {
				return &Mismatch{Step: i, Op: ops[i].String(), Kind: "dmodel-file", Expected: "file (length md5) " + parts[1], Observed: digests[i],
					Note: "the bytes of the implementation's file after this step differ from the file predicted by DStore (flush_bytes / revert_bytes)"}
			}
		}
	}
	return nil
}

// multiModelMismatch: histories with snapshots go through MStore.mrun (several handles).
func multiModelMismatch(fileBacked bool, ops []Op, obs []string) (*Mismatch, int) {
	for _, o := range ops {
		if o.K == "snap" || o.K == "close" {
			continue
		}
		if !modelKinds[o.K] || (o.H != 0 && (o.K == "revert" || o.K == "reopen" || o.K == "junk" || o.K == "coll" || o.K == "rmcoll")) {
			return nil, 0 // what a reverted snapshot shows is not specified; snapshots get no collection management
		}
	}
	if len(obs) < len(ops) {
		ops = ops[:len(obs)]
	}
	m := getModel()
	var sb strings.Builder
	fb := 0
	if fileBacked {
		fb = 1
	}
	fmt.Fprintf(&sb, "mrun %d %d\n", fb, len(ops))
	for _, o := range ops {
		sb.WriteString(o.String())
		sb.WriteByte('\n')
	}
	if _, err := io.WriteString(m.in, sb.String()); err != nil {
		return &Mismatch{Kind: "model-runner", Observed: err.Error()}, 0
	}
	var mo []string
	for {
		line, err := m.out.ReadString('\n')
		if err != nil {
			return &Mismatch{Kind: "model-runner", Observed: "model runner died: " + err.Error()}, 0
		}
		line = strings.TrimRight(line, "\n")
		if line == "END" {
			break
		}
		if strings.HasPrefix(line, "ERR") {
			return &Mismatch{Kind: "model-runner", Observed: line}, 0
		}
		mo = append(mo, line)
	}
	canon := canonicalShape(ops)
	for i := range ops {
		if i >= len(mo) {
			break
		}
		got, exp := obs[i], mo[i]
		if exp == "skip" || got == "skip" {
			continue
		}
		switch ops[i].K {
		case "asc", "desc", "itasc", "itdesc", "nasc", "ndesc", "nit":
			exp = stripDepth(exp)
		case "ascx", "descx":
			if !canon {
				exp, got = stripDepth(exp), stripDepth(got)
			}
		}
		if got != exp {
			return &Mismatch{Step: i, Op: ops[i].String(), Kind: "model", Expected: exp, Observed: got,
				Note: "implementation vs the Coq model MStore.mrun (several handles); the sorted-map reference agreed with the implementation on this step"}, i
		}
	}
	return nil, len(ops)
}

// fault-run records (C07): the calls made on handle 0 in order; a failed Flush is the line
// "flushfail <k> <torn>" (k-th WriteAt call of that Flush, from 0, stored torn bytes and failed).
type frec struct {
	Line   string
	Op     Op
	Fail   bool
	Obs    string
	Digest string
}

var dfaultCompared, dfaultFlushFails, readFaultsCompared, dfaultHistOK, dfaultHistNotOK int

// DFModelMismatch runs DFaultRun.dfrun (DStore with failing Flush calls, DiskFault.flush_fault) on the
// recorded calls and compares every observation and, after every failed or completed Flush, FlushRevert and
// re-open, length and MD5 of the predicted file with the implementation's.
func DFModelMismatch(recs []frec) *Mismatch {
	{
		var keep []frec
		for _, r := range recs {
			if r.Fail || !noModelOp(r.Op.K) {
				keep = append(keep, r)
			}
		}
		recs = keep
	}
	total := 0
	for _, r := range recs {
		if r.Fail {
			continue
		}
		o := r.Op
		if o.H != 0 || !dmodelKinds[o.K] || len(o.Key) > 1500 || len(o.Val) > 6000 {
			return nil
		}
		total += len(o.Key) + len(o.Val)
	}
	if total > 40000 {
		return nil
	}
	m := getModel()
	var sb strings.Builder
	fmt.Fprintf(&sb, "dfrun %d\n", len(recs))
	for _, r := range recs {
		sb.WriteString(r.Line)
		sb.WriteByte('\n')
	}
	if _, err := io.WriteString(m.in, sb.String()); err != nil {
		return &Mismatch{Kind: "model-runner", Observed: err.Error()}
	}
	var lines []string
	for {
		line, err := m.out.ReadString('\n')
		if err != nil {
			return &Mismatch{Kind: "model-runner", Observed: "model runner died: " + err.Error()}
		}
		line = strings.TrimRight(line, "\n")
		if line == "END" {
			break
		}
		if strings.HasPrefix(line, "ERR") {
			return &Mismatch{Kind: "model-runner", Observed: line}
		}
		if strings.HasPrefix(line, "fhistory_ok ") {
			// the hypotheses of theorem c07_failed_flush_invisible_anywhere, evaluated on this faulted history
			if line == "fhistory_ok true" {
				dfaultHistOK++
			} else {
				dfaultHistNotOK++
			}
			continue
		}
		lines = append(lines, line)
	}
	dfaultCompared++
	for i, r := range recs {
		if i >= len(lines) {
			break
		}
		parts := strings.SplitN(lines[i], " | ", 2)
		exp, got := parts[0], r.Obs
		if !r.Fail {
			switch r.Op.K {
			case "asc", "desc", "itasc", "itdesc", "nasc", "ndesc", "nit":
				exp = stripDepth(exp)
			case "ascx", "descx":
				exp, got = stripDepth(exp), stripDepth(got)
			}
		} else {
			dfaultFlushFails++
		}
		if exp != got {
			return &Mismatch{Step: i, Op: r.Line, Kind: "dfault-obs", Expected: exp, Observed: got, Note: "implementation under fault injection vs DFaultRun.dfrun"}
		}
		if r.Fail || r.Op.K == "flush" || r.Op.K == "revert" || r.Op.K == "reopen" {
			if len(parts) == 2 && parts[1] != r.Digest {
				return &Mismatch{Step: i, Op: r.Line, Kind: "dfault-file", Expected: "file (length md5) " + parts[1], Observed: r.Digest,
					Note: "the bytes of the implementation's file after this (failed or completed) call differ from the file predicted by DiskFault.flush_fault / DStore"}
			}
		}
	}
	return nil
}
