package main

import (
	"encoding/json"
	"fmt"
	"os"
)

// CfgDesc is the serialisable description of a RunCfg (stored in replays).
type CfgDesc struct {
	Check      string `json:"check"`
	FileBacked bool   `json:"file_backed"`
	CmpCB      bool   `json:"cmp_cb"`
	DumpEvery  bool   `json:"dump_every"`
	ReopenDump bool   `json:"reopen_dump"`
	CBSet      int    `json:"cb_set"` // bit set of neutral callbacks installed (C17)
	Post       string `json:"post"`   // name of the post-step oracle
	NoHeap     bool   `json:"no_heap_check,omitempty"`
	Digests    bool   `json:"file_digests,omitempty"`
}

func (d CfgDesc) RunCfg() RunCfg {
	cfg := RunCfg{FileBacked: d.FileBacked, CmpCB: d.CmpCB, DumpEvery: d.DumpEvery, ReopenDump: d.ReopenDump}
	cfg.CBSet = d.CBSet
	cfg.NoHeapCheck = d.NoHeap
	cfg.Digests = d.Digests
	if f, ok := postOracles[d.Post]; ok {
		f(&cfg)
	}
	return cfg
}

func (d CfgDesc) String() string {
	b, _ := json.Marshal(d)
	return string(b)
}

// postOracles are named extra oracles attached to a RunCfg.
var postOracles = map[string]func(cfg *RunCfg){}

func replayFile(path string) int {
	b, err := os.ReadFile(path)
	if err != nil {
		fmt.Println(err)
		return 2
	}
	var rp struct {
		Property string   `json:"property"`
		Config   string   `json:"config"`
		Ops      []string `json:"ops"`
	}
	if err := json.Unmarshal(b, &rp); err != nil {
		fmt.Println(err)
		return 2
	}
	if fn, ok := replayFns[rp.Property]; ok {
		return fn(path)
	}
	var d CfgDesc
	if err := json.Unmarshal([]byte(rp.Config), &d); err != nil {
		fmt.Println("replay has no runnable config:", err)
		return 2
	}
	var ops []Op
	for _, s := range rp.Ops {
		ops = append(ops, ParseOp(s))
	}
	_, obs, m := RunOps(d.RunCfg(), ops)
	for i, o := range obs {
		fmt.Printf("%3d %-60s -> %s\n", i, ops[i].String(), trunc(o, 100))
	}
	if m != nil {
		mb, _ := json.MarshalIndent(m, "", " ")
		fmt.Printf("REPRODUCED property=%s\n%s\n", rp.Property, mb)
		return 1
	}
	fmt.Println("not reproduced (property holds on this history)")
	return 0
}

func trunc(s string, n int) string {
	if len(s) > n {
		return s[:n] + "..."
	}
	return s
}

// ---------------------------------------------------------------- C01

func init() { checks["C01"] = checkC01 }

func checkC01(rep *Report, rng *Rng, tier string) {
	n := 400
	if tier == "thorough" {
		n = 4000
	}
	modelOn = true
	rep.Rule = "seeded random histories (Set/SetItem incl. invalid items, Delete, Get/GetItem, Exist, Min/Max, GetTotals over 1-3 collections and 4 comparators, interleaved with Flush/EvictSomeItems/re-open, file-backed and memory-only); every return value compared with a sorted-map reference and with the Coq model; non-trivial = at least 8 ops, distinct = different (op kind,key) sequence"
	HistoryLoop(rep, rng, n, func(r *Rng, i int) (RunCfg, []Op, string) {
		d, ops := genC01(r, i)
		return d.RunCfg(), ops, d.String()
	}, nil)
	modelCompare(rep, "C01")
}

func genC01(r *Rng, i int) (CfgDesc, []Op) {
	g := GenCfg{FileBacked: r.Chance(2, 3), NColls: 1 + r.Intn(3), NOps: 40 + r.Intn(80), CmpMode: r.Intn(2), Invalid: true,
		Structural: true, PrioMode: r.Intn(4), BigVals: r.Chance(1, 4)}
	if i%16 == 15 {
		g.NOps = 400
	}
	d := CfgDesc{Check: "C01", FileBacked: g.FileBacked, CmpCB: g.CmpMode == 1, DumpEvery: i%4 == 0}
	return d, GenHistory(r, g)
}
