package main

import (
	"unsafe"

	"github.com/cbehopkins/gkvlite"
)

func itemPtr(i *gkvlite.Item) uintptr { return uintptr(unsafe.Pointer(i)) }

func modelCompare(rep *Report, prop string) {
	rep.Extra["model_steps_compared"] = modelSteps
}
