package main

import (
	"bytes"
	"encoding/json"
	"fmt"
	"os"
	"sort"
	"strings"

	"github.com/cbehopkins/gkvlite"
)

func init() {
	checks["C16"] = checkC16
	replayFns["C16"] = replayC16
}

type c16Case struct {
	N       int    `json:"n"`
	KeySeed uint64 `json:"key_seed"`
	KeyMode int    `json:"key_mode"` // 0 decimal padded, 1 random bytes, 2 long keys sharing a 300-byte prefix
	Nested  bool   `json:"nested"`   // the visitor of the outer enumeration runs a whole inner enumeration (block and random) at its third delivery
	File    bool   `json:"file_backed_flushed_evicted"`
	Mode    string `json:"mode"`    // len | block | random
	Mangler int    `json:"mangler"` // 0 nil, 1 identity, 2 reverse, 3 shuffle, 4 rotate
	WV      bool   `json:"with_value"`
	Prio    int    `json:"prio"`    // 0 random priorities; 1 growing with the key (the tree is one long left spine); 2 falling (right spine); 3 all equal
	Recycle bool   `json:"recycle"` // file-backed: counting ItemAlloc/ItemAddRef/ItemDecRef callbacks that overwrite the buffers of released items
	Cmp     int    `json:"cmp"` // key order of the collection: 0 bytes.Compare (nil), 1 reversed, 2 length then bytes
}

func c16Keys(c c16Case) [][]byte {
	r := NewRng(c.KeySeed)
	seen := map[string]bool{}
	var keys [][]byte
	for len(keys) < c.N {
		var k []byte
		if c.KeyMode == 0 {
			k = []byte(fmt.Sprintf("%06d", len(keys)*3+1))
		} else if c.KeyMode == 2 {
			// long keys that agree on their first 300 bytes (URL / path style)
			k = append(bytes.Repeat([]byte("/very/long/common/prefix"), 13), []byte(fmt.Sprintf("/page-%05d", len(keys)*7+3))...)
		} else {
			l := 1 + r.Intn(5)
			k = make([]byte, l)
			for i := range k {
				k[i] = byte(r.Intn(256))
			}
		}
		if !seen[string(k)] {
			seen[string(k)] = true
			keys = append(keys, k)
		}
	}
	return keys
}

func c16Mangler(id int, seed uint64) gkvlite.BlockMangler {
	switch id {
	case 0:
		return nil
	case 1:
		return func(b [][]byte) [][]byte { return b }
	case 2:
		return func(b [][]byte) [][]byte {
			for i, j := 0, len(b)-1; i < j; i, j = i+1, j-1 {
				b[i], b[j] = b[j], b[i]
			}
			return b
		}
	case 3:
		return func(b [][]byte) [][]byte {
			r := NewRng(seed)
			for i := range b {
				j := r.Intn(i + 1)
				b[i], b[j] = b[j], b[i]
			}
			return b
		}
	default:
		return func(b [][]byte) [][]byte {
			if len(b) < 2 {
				return b
			}
			return append(append([][]byte{}, b[1:]...), b[0])
		}
	}
}

// runC16 returns "" when the property holds on the case.
var c16ModelCompared int

func runC16(c c16Case) (res string) {
	w := &World{Timeout: 60e9}
	return w.guard(func() string {
		var mf *MemFile
		var s *gkvlite.Store
		var err error
		var cmp gkvlite.KeyCompare // nil = bytes.Compare
		cb := gkvlite.StoreCallbacks{}
		if c.Cmp != 0 {
			cmp = comparators[c.Cmp]
			cb.KeyCompareForCollection = func(string) gkvlite.KeyCompare { return cmp }
		}
		if c.File && c.Recycle {
			cb = NewRefCounter().callbacks(cb)
		}
		if c.File {
			mf = NewMemFile()
			s, err = gkvlite.NewStoreEx(mf, cb)
		} else {
			s, err = gkvlite.NewStoreEx(nil, cb)
		}
		if err != nil {
			return "open: " + err.Error()
		}
		col := s.SetCollection("c", cmp)
		keys := c16Keys(c)
		r := NewRng(c.KeySeed + 7)
		if c.Prio != 0 {
			sort.Slice(keys, func(i, j int) bool { return bytes.Compare(keys[i], keys[j]) < 0 })
		}
		for ki, k := range keys {
			prio := int32(r.U64() & 0x7fffffff)
			switch c.Prio {
			case 1:
				prio = int32(ki + 1)
			case 2:
				prio = int32(len(keys) - ki)
			case 3:
				prio = 7
			}
			if err := col.SetItem(&gkvlite.Item{Key: k, Val: append([]byte("v"), k...), Priority: prio}); err != nil {
				return "set: " + err.Error()
			}
		}
		if c.File {
			if err := s.Flush(); err != nil {
				return "flush: " + err.Error()
			}
			s, err = gkvlite.NewStoreEx(mf, cb)
			if err != nil {
				return "reopen: " + err.Error()
			}
			col = s.GetCollection("c")
		}
		switch c.Mode {
		case "len":
			l, err := col.Len()
			if err != nil {
				return "Len error: " + err.Error()
			}
			if int(l) != c.N {
				return fmt.Sprintf("Len()=%d want %d", l, c.N)
			}
			// Len after groups of 2, 1, 2, 3, 4 further mutations (sets of new keys, then deletes of them)
			want := c.N
			present, adding := 0, true
			for _, group := range []int{2, 1, 2, 3, 4, 2} {
				for m := 0; m < group; m++ {
					if present == 0 {
						adding = true
					} else if present == 6 {
						adding = false
					}
					if adding {
						k := []byte(fmt.Sprintf("~extra%d", present))
						if err := col.SetItem(&gkvlite.Item{Key: k, Val: []byte("x"), Priority: int32(present + 1)}); err != nil {
							return "set: " + err.Error()
						}
						present++
						want++
					} else {
						present--
						k := []byte(fmt.Sprintf("~extra%d", present))
						if ok, err := col.Delete(k); err != nil || !ok {
							return fmt.Sprintf("delete: %v %v", ok, err)
						}
						want--
					}
				}
				l, err := col.Len()
				if err != nil {
					return "Len error: " + err.Error()
				}
				if int(l) != want {
					return fmt.Sprintf("after a group of %d further mutation(s): Len()=%d want %d", group, l, want)
				}
			}
			return ""
		}
		count := map[string]int{}
		total := 0
		var order []string
		nestedDone := false
		var nestedErr string
		vis := func(i *gkvlite.Item, depth uint64) bool {
			count[string(i.Key)]++
			total++
			order = append(order, string(i.Key))
			if c.Nested && total == 3 && !nestedDone {
				// a whole inner enumeration of the same collection (block order reversed, then random): it must
				// itself be complete and must not disturb the outer one
				nestedDone = true
				for _, inner := range []string{"block", "random"} {
					in := map[string]int{}
					iv := func(j *gkvlite.Item, d uint64) bool { in[string(j.Key)]++; return true }
					var e error
					if inner == "block" {
						e = col.VisitItemsAscendBlockEx(false, c16Mangler(2, c.KeySeed), iv)
					} else {
						e = col.VisitItemsRandom(iv)
					}
					if e != nil {
						nestedErr = "nested " + inner + " enumeration: " + e.Error()
					}
					for _, k := range keys {
						if in[string(k)] != 1 && nestedErr == "" {
							nestedErr = fmt.Sprintf("nested %s enumeration delivered %x %d times", inner, k, in[string(k)])
						}
					}
				}
			}
			if c.WV && c.Mode == "block" && string(i.Val) != "v"+string(i.Key) {
				count["<bad value for "+string(i.Key)+">"]++
			}
			return true
		}
		if c.Mode == "block" {
			err = col.VisitItemsAscendBlockEx(c.WV, c16Mangler(c.Mangler, c.KeySeed), vis)
		} else {
			err = col.VisitItemsRandom(vis)
		}
		if err != nil && c.N > 0 {
			return "visit error: " + err.Error()
		}
		if nestedErr != "" {
			return nestedErr
		}
		var bad []string
		for _, k := range keys {
			if count[string(k)] != 1 {
				bad = append(bad, fmt.Sprintf("%x visited %d times", k, count[string(k)]))
			}
			delete(count, string(k))
		}
		for k, n := range count {
			bad = append(bad, fmt.Sprintf("unexpected %x visited %d times", k, n))
		}
		sort.Strings(bad)
		if len(bad) > 0 {
			if len(bad) > 4 {
				bad = append(bad[:4], fmt.Sprintf("... %d more", len(bad)-4))
			}
			return fmt.Sprintf("n=%d deliveries=%d: %v", c.N, total, bad)
		}
		// the exact delivery order predicted by the Coq model Blocks.block_visit (deterministic manglers)
		if c.Mode == "block" && c.N > 0 && (c.Mangler == 0 || c.Mangler == 1 || c.Mangler == 2 || c.Mangler == 4) {
			mg := map[int]string{0: "id", 1: "id", 2: "reverse", 4: "rotate"}[c.Mangler]
			resp, err := getModel().request(fmt.Sprintf("blockvisit %s %d", mg, c.N))
			if err == nil {
				sorted := make([]string, len(keys))
				for i, k := range keys {
					sorted[i] = string(k)
				}
				sort.Slice(sorted, func(a, b int) bool { return comparators[c.Cmp]([]byte(sorted[a]), []byte(sorted[b])) < 0 })
				pos := map[string]int{}
				for i, k := range sorted {
					pos[k] = i
				}
				var got []string
				for _, k := range order {
					got = append(got, fmt.Sprint(pos[k]))
				}
				g := "b " + strings.Join(got, " ")
				c16ModelCompared++
				if g != resp {
					return "MODEL-ORDER: delivery order differs from Blocks.block_visit: got " + trunc(g, 120) + " want " + trunc(resp, 120)
				}
			}
		}
		return ""
	})
}

func checkC16(rep *Report, rng *Rng, tier string) {
	var sizes []int
	small, around, maxk := 70, 2, 3
	if tier == "thorough" {
		small, around, maxk = 300, 3, 5
	}
	for n := 0; n <= small; n++ {
		sizes = append(sizes, n)
	}
	spine := map[int]bool{}
	for _, n := range []int{127, 128, 129, 130, 200, 513} {
		spine[n] = true // also as degenerate shapes: one spine of n nodes
		if n > small {
			sizes = append(sizes, n)
		}
	}
	for k := 1; k <= maxk; k++ {
		for d := -around; d <= around; d++ {
			sizes = append(sizes, k*1024+d)
		}
	}
	rep.Rule = fmt.Sprintf("every collection size n in 0..%d and k*1024-%d..k*1024+%d for k<=%d; per size: Len(), VisitItemsAscendBlockEx under nil/identity/reverse/shuffle/rotate block manglers (both value modes) and VisitItemsRandom; three key sets (padded decimal, random bytes, long keys sharing a 300-byte prefix), enumerations nested inside the visitor of another one, three key orders (bytes.Compare, reversed, length-then-bytes), memory-only and flushed+re-opened (nothing cached); oracle: every key delivered exactly once and nothing else; non-trivial = n>=1, distinct = (n, mode, mangler, key set, backing)", small, around, around, maxk)
	hist := map[string]int{}
	for _, n := range sizes {
		var cases []c16Case
		ks := rng.U64()
		km := rng.Intn(2)
		if n >= 2 && n <= 40 && n%5 == 3 {
			km = 2
		}
		fb := rng.Chance(1, 3)
		if n > 1500 && tier != "thorough" {
			fb = false
		}
		cases = append(cases, c16Case{N: n, KeySeed: ks, KeyMode: km, File: fb, Mode: "len"})
		cases = append(cases, c16Case{N: n, KeySeed: ks, KeyMode: km, File: fb, Mode: "random"})
		if n <= 300 || tier == "thorough" {
			for m := 0; m < 5; m++ {
				cases = append(cases, c16Case{N: n, KeySeed: ks, KeyMode: km, File: fb, Mode: "block", Mangler: m, WV: m%2 == 0})
			}
		} else {
			m := rng.Intn(5)
			cases = append(cases, c16Case{N: n, KeySeed: ks, KeyMode: km, File: fb, Mode: "block", Mangler: m, WV: true})
			cases = append(cases, c16Case{N: n, KeySeed: ks, KeyMode: km, File: fb, Mode: "block", Mangler: 3, WV: false})
		}
		if n >= 3 && n <= 64 {
			cases = append(cases, c16Case{N: n, KeySeed: ks, KeyMode: km, File: fb, Mode: "block", Mangler: 0, WV: true, Nested: true})
			cases = append(cases, c16Case{N: n, KeySeed: ks, KeyMode: km, File: fb, Mode: "random", Nested: true})
		}
		if spine[n] {
			// degenerate shapes: a spine of n nodes
			for pm := 1; pm <= 3; pm++ {
				cases = append(cases, c16Case{N: n, KeySeed: ks, KeyMode: km, File: fb, Mode: "len", Prio: pm})
				cases = append(cases, c16Case{N: n, KeySeed: ks, KeyMode: km, File: fb, Mode: "random", Prio: pm})
				cases = append(cases, c16Case{N: n, KeySeed: ks, KeyMode: km, File: fb, Mode: "block", Mangler: pm, WV: pm%2 == 0, Prio: pm})
			}
		}
		cm := rng.Intn(3) // the key order of this size's collection
		rcy := fb && n%2 == 0
		for _, c := range cases {
			c.Cmp = cm
			c.Recycle = rcy
			rep.Evaluations++
			hist[c.Mode]++
			if c.N >= 1 {
				rep.Distinct(fmt.Sprintf("%+v", c))
			}
			if c.N == 5 {
				rep.Sample(c)
			}
			if r := runC16(c); r != "" {
				key := ""
				if c.N == 0 {
					key = "empty-collection"
				}
				rep.Violation(key, strings.HasPrefix(r, "MODEL-ORDER"), map[string]interface{}{"case": c, "observed": r, "expected": "Len()==n / every item delivered exactly once (MODEL-ORDER: order predicted by the Coq model Blocks.block_visit, an auxiliary correspondence)"})
				if len(rep.Violations) >= 4 {
					rep.Extra["modes"] = hist
					return
				}
			}
		}
	}
	rep.Extra["modes"] = hist
	rep.Extra["sizes"] = len(sizes)
	rep.Extra["delivery_orders_compared_with_model"] = c16ModelCompared
}

func replayC16(path string) int {
	b, _ := os.ReadFile(path)
	var rp struct {
		Case c16Case `json:"case"`
	}
	if err := json.Unmarshal(b, &rp); err != nil {
		fmt.Println(err)
		return 2
	}
	r := runC16(rp.Case)
	if r != "" {
		fmt.Printf("REPRODUCED property=C16 case=%+v: %s\n", rp.Case, r)
		return 1
	}
	fmt.Println("not reproduced")
	return 0
}
