package main

import (
	"fmt"
	"os"
)

func init() { checks["C18"] = checkC18 }

func checkC18(rep *Report, rng *Rng, tier string) {
	rep.Rule = "iterators: collection sizes n = 0..12 x every script of Next/Close commands up to length n+3 drawn from {stop after k Nexts then Close, exhaust, Close first, double Close, Next after Close} (thorough: all scripts over {N,C} up to length 7 for n <= 4), both value modes, memory-only and flushed+re-opened; after each script: results as expected, Next after Close/exhaustion false, the producer goroutine has exited (goroutine count back to its baseline within 3 s), the pinned version is released (refs accounting on the heap dump) and a following mutation proceeds; re-entrant callbacks: visitors that call every read operation (GetItem, Get, Exist, Min/Max, GetTotals, Len, names, a nested iterator, Snapshot+visit+Close) and, on the mutating goroutine, Set/Delete on the same and on another collection and FlushRevert, with a watchdog for deadlocks, results compared with the version the visit started on; non-trivial = n >= 1"
	evals := 0
	run := func(ops []Op, file bool, what string) bool {
		d := CfgDesc{Check: "C18", FileBacked: file, DumpEvery: true}
		_, obs, m := RunOps(d.RunCfg(), ops)
		if os.Getenv("DBG18") != "" {
			fmt.Println(what, len(ops), len(obs), m)
		}
		evals++
		rep.Evaluations++
		rep.CountOps(ops)
		rep.Distinct(sigOf(ops) + what)
		if evals <= 2 {
			rep.Sample(map[string]interface{}{"what": what, "ops_tail": opsString(ops[max(0, len(ops)-3):]), "observations_tail": obs[max(0, len(obs)-3):]})
		}
		if m != nil {
			if m.Kind == "hang" {
				rep.Violation("", false, map[string]interface{}{"config": d.String(), "ops": opsString(ops), "mismatch": m})
				return true
			}
			small := Shrink(ops[:min(len(ops), m.Step+1)], func(c []Op) bool {
				_, _, m2 := RunOps(d.RunCfg(), c)
				return m2 != nil && m2.Kind == m.Kind && m2.Kind != "hang"
			})
			_, _, m3 := RunOps(d.RunCfg(), small)
			if m3 == nil {
				m3, small = m, ops
			}
			rep.Violation("", false, map[string]interface{}{"config": d.String(), "ops": opsString(small), "mismatch": m3})
			return len(rep.Violations) >= 3
		}
		return false
	}
	build := func(n int, r *Rng) []Op {
		ops := []Op{{K: "coll", Name: "c"}, {K: "coll", Name: "c-other"}}
		for i := 0; i < n; i++ {
			ops = append(ops, Op{K: "set", Name: "c", Key: []byte(fmt.Sprintf("k%02d", i)), Val: []byte(fmt.Sprintf("v%d", i)), Prio: int32(r.U64() & 0xffffff)})
		}
		return ops
	}
	maxn := 12
	for n := 0; n <= maxn; n++ {
		var scripts []string
		for k := 0; k <= n+1; k++ {
			s := ""
			for j := 0; j < k; j++ {
				s += "N"
			}
			scripts = append(scripts, s+"C", s+"CC", s+"CN", s+"CNN", s)
		}
		scripts = append(scripts, "C", "CC", "", "CN")
		all := ""
		for j := 0; j < n+3; j++ {
			all += "N"
		}
		scripts = append(scripts, all, all+"C", all+"N")
		if tier == "thorough" && n <= 4 {
			for l := 1; l <= 7; l++ {
				for b := 0; b < 1<<l; b++ {
					s := ""
					for j := 0; j < l; j++ {
						if b>>j&1 == 1 {
							s += "N"
						} else {
							s += "C"
						}
					}
					scripts = append(scripts, s)
				}
			}
		}
		for fi, file := range []bool{false, true} {
			ops := build(n, rng)
			if file {
				ops = append(ops, Op{K: "flush"}, Op{K: "reopen"})
			}
			for si, sc := range scripts {
				tgt := []byte{}
				if si%5 == 4 && n > 2 {
					tgt = []byte(fmt.Sprintf("k%02d", n/2))
				}
				ops = append(ops, Op{K: "itx", Name: "c", Key: tgt, Val: []byte(sc), WV: (si+fi)%2 == 0})
				if si%4 == 3 {
					// a following mutation must proceed (and reclaim)
					ops = append(ops, Op{K: "set", Name: "c", Key: []byte("zz-after"), Val: []byte{byte(si)}, Prio: int32(si)},
						Op{K: "del", Name: "c", Key: []byte("zz-after")})
				}
			}
			if run(ops, file, fmt.Sprintf("iterator scripts n=%d file=%v", n, file)) {
				return
			}
		}
	}
	// re-entrant callbacks
	nre := 60
	if tier == "thorough" {
		nre = 600
	}
	for i := 0; i < nre; i++ {
		r := rng.Fork()
		n := 1 + r.Intn(14)
		file := r.Chance(1, 2)
		ops := build(n, r)
		if file && r.Chance(1, 2) {
			ops = append(ops, Op{K: "flush"})
			if r.Chance(1, 2) {
				ops = append(ops, Op{K: "reopen"})
			}
		}
		for j := 0; j < 6; j++ {
			k := []string{"vall", "vmut", "nasc", "ndesc", "nit", "vmutd"}[r.Intn(6)]
			stop := -1
			if r.Chance(1, 2) {
				stop = r.Intn(n + 1)
			}
			tgt := []byte{}
			if k == "vall" || k == "ndesc" || k == "vmutd" {
				tgt = []byte{0xff}
			}
			ops = append(ops, Op{K: k, Name: "c", Key: tgt, WV: r.Chance(1, 2), N: stop})
			if r.Chance(1, 3) {
				ops = append(ops, Op{K: "flush"})
			}
			if file && r.Chance(1, 4) {
				// FlushRevert from inside a visitor callback, then keep going on the reverted store
				ops = append(ops, Op{K: "vrev", Name: "c", Key: []byte{}},
					Op{K: "coll", Name: "c"}, Op{K: "coll", Name: "c-other"},
					Op{K: "set", Name: "c", Key: []byte(fmt.Sprintf("k%02d", r.Intn(n+1))), Val: []byte("after-revert"), Prio: int32(r.Intn(1000))})
			}
		}
		if run(ops, file, "re-entrant visitors") {
			return
		}
	}
	rep.Extra["histories"] = evals
}

func max(a, b int) int {
	if a > b {
		return a
	}
	return b
}
