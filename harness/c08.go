package main

import (
	"fmt"

	"github.com/cbehopkins/gkvlite"
)

func init() {
	checks["C08"] = checkC08
	checks["C12"] = checkC12
	postOracles["revert-size"] = func(cfg *RunCfg) {
		cfg.PostStep = func(w *World, i int, op Op, obs string) *Mismatch {
			if op.K != "revert" || op.H != 0 || w.File == nil || obs != "ok" {
				return nil
			}
			sz := gkvlite.VerifStoreSize(w.H[0].Store)
			if int64(w.File.Len()) != sz {
				return &Mismatch{Kind: "revert-size", Expected: fmt.Sprintf("file length == store size %d", sz), Observed: fmt.Sprintf("file length %d", w.File.Len())}
			}
			if len(w.Flushed) == 0 && w.File.Len() != 0 {
				return &Mismatch{Kind: "revert-size", Expected: "file length 0 after reverting past the first flush", Observed: fmt.Sprintf("file length %d", w.File.Len())}
			}
			return nil
		}
	}
}

func checkC08(rep *Report, rng *Rng, tier string) {
	n := 250
	if tier == "thorough" {
		n = 5000
	}
	probeValueIsRootRecord(rep)
	probeBigRootRecord(rep, "C08")
	dmodelOn = true
	rep.Rule = "seeded histories over a file-backed store with 0..many Flush calls, re-opens, pending unflushed changes and runs of 1..8 consecutive FlushRevert calls (also past the first flush); after every step the contents of the store, the collection names, the file length and a fresh Store opened on a copy of the file image are compared with the stack of flushed reference states; a watchdog detects non-termination; memory-only stores must reject FlushRevert; non-trivial = contains at least one revert and 8 ops"
	HistoryLoop(rep, rng, n, func(r *Rng, i int) (RunCfg, []Op, string) {
		d, ops := genC08(r, i)
		return d.RunCfg(), ops, d.String()
	}, nil)
	rep.Extra["steps_compared_with_byte_level_model_DStore"] = dmodelSteps
	rep.Extra["histories_satisfying_history_ok_of_c02_history"] = dmodelHistOK
	rep.Extra["histories_outside_history_ok"] = dmodelHistNotOK
}

func checkC12(rep *Report, rng *Rng, tier string) {
	n := 400
	if tier == "thorough" {
		n = 5000
	}
	probeNonUTF8Name(rep)
	probeBigRootRecord(rep, "C12")
	rep.Rule = "seeded histories interleaving SetCollection (new and existing names), RemoveCollection (present and absent), GetCollection/GetCollectionNames and item mutations through the current handles with flushes and re-opens; names and the full contents of every collection are compared with the reference after every step, and a fresh Store opened on a copy of the file image must show the state at the last Flush; non-trivial = at least 8 ops incl. one collection-management op"
	HistoryLoop(rep, rng, n, func(r *Rng, i int) (RunCfg, []Op, string) {
		g := GenCfg{FileBacked: r.Chance(3, 4), NColls: 2 + r.Intn(3), NOps: 30 + r.Intn(60), Structural: true, CollMgmt: true, PrioMode: r.Intn(4), CmpMode: r.Intn(2)}
		ops := GenHistory(r, g)
		// more collection management
		var out []Op
		for _, o := range ops {
			out = append(out, o)
			if r.Chance(1, 8) {
				nm := collNamePool[r.Intn(len(collNamePool))]
				if r.Chance(1, 2) {
					out = append(out, Op{K: "rmcoll", Name: nm}, Op{K: "names"})
				}
			}
		}
		d := CfgDesc{Check: "C12", FileBacked: g.FileBacked, CmpCB: g.CmpMode == 1, DumpEvery: true, ReopenDump: true}
		return d.RunCfg(), out, d.String()
	}, classifyC12)
}

func classifyC12(m *Mismatch, ops []Op) string { return "" }

func genC08(r *Rng, i int) (CfgDesc, []Op) {
	g := GenCfg{FileBacked: i%10 != 9, NColls: 1 + r.Intn(3), NOps: 25 + r.Intn(50), Structural: true, CollMgmt: r.Chance(1, 2), PrioMode: r.Intn(4), CmpMode: r.Intn(2)}
	base := GenHistory(r, g)
	// weave reverts in
	var ops []Op
	for _, o := range base {
		ops = append(ops, o)
		if g.FileBacked && o.K == "flush" && r.Chance(1, 5) {
			// crash debris after the last root record (random bytes, a magic-like tail, zeros), then re-open
			ops = append(ops, Op{K: "junk", N: 1 + r.Intn(70), Prio: int32(r.Intn(3000))})
		}
		if r.Chance(1, 9) {
			k := 1
			if r.Chance(1, 3) {
				k = 1 + r.Intn(8)
			}
			for j := 0; j < k; j++ {
				ops = append(ops, Op{K: "revert"})
				if r.Chance(1, 4) {
					ops = append(ops, Op{K: "names"})
				}
			}
		}
	}
	if i%7 == 0 {
		// the smallest cases: revert with zero or one flush
		ops = []Op{{K: "coll", Name: "a"}, {K: "set", Name: "a", Key: []byte("k"), Val: []byte("v"), Prio: 1}}
		for j := 0; j < i/7%3; j++ {
			ops = append(ops, Op{K: "flush"})
		}
		ops = append(ops, Op{K: "revert"}, Op{K: "names"}, Op{K: "revert"})
	}
	d := CfgDesc{Check: "C08", FileBacked: g.FileBacked, CmpCB: g.CmpMode == 1, DumpEvery: true, ReopenDump: true, Post: "revert-size", Digests: true}
	return d, ops
}
