package main

import (
	"fmt"
	"unicode/utf8"

	"github.com/cbehopkins/gkvlite"
)

// probeNonUTF8Name: a collection whose name is not valid UTF-8 must survive Flush + re-open under the
// same name with the same items (C02, C12, C14).  encoding/json rewrites such names: known finding.
func probeNonUTF8Name(rep *Report) {
	name := "bad\xff\xfename"
	if utf8.ValidString(name) {
		return
	}
	w := &World{Timeout: 10e9}
	res := w.guard(func() string {
		mf := NewMemFile()
		s, err := gkvlite.NewStore(mf)
		if err != nil {
			return "open: " + err.Error()
		}
		c := s.SetCollection(name, nil)
		c.SetItem(&gkvlite.Item{Key: []byte("k"), Val: []byte("v"), Priority: 1})
		if err := s.Flush(); err != nil {
			return "flush: " + err.Error()
		}
		s2, err := gkvlite.NewStore(NewMemFileFrom(mf.Bytes()))
		if err != nil {
			return "reopen: " + err.Error()
		}
		names := s2.GetCollectionNames()
		if len(names) != 1 || names[0] != name {
			return fmt.Sprintf("names after re-open: %q, flushed: %q", names, []string{name})
		}
		if v, _ := s2.GetCollection(name).Get([]byte("k")); string(v) != "v" {
			return "item lost"
		}
		return ""
	})
	rep.Evaluations++
	if res != "" {
		rep.Violation("name-not-utf8", false, map[string]interface{}{"collection_name_hex": hx([]byte(name)), "observed": res,
			"expected": "the same collection name and items after Flush and re-open"})
	}
}

// probeGetReference: Get takes a reference on the item (through GetItem) that the caller cannot return (C15).
func probeGetReference(rep *Report) {
	rc := NewRefCounter()
	w := &World{Timeout: 10e9}
	res := w.guard(func() string {
		s, _ := gkvlite.NewStoreEx(nil, rc.callbacks(gkvlite.StoreCallbacks{}))
		c := s.SetCollection("c", nil)
		c.SetItem(&gkvlite.Item{Key: []byte("k"), Val: []byte("v"), Priority: 1})
		if v, err := c.Get([]byte("k")); err != nil || string(v) != "v" {
			return "get failed"
		}
		c.GetAny("k")
		s.Close()
		if out := rc.outstanding(); len(out) > 0 {
			return fmt.Sprintf("after Get, GetAny and Close: %v", out)
		}
		return ""
	})
	rep.Evaluations++
	if res != "" {
		rep.Violation("get-keeps-item-reference", false, map[string]interface{}{"observed": res, "expected": "every count zero once the store is closed",
			"history": []string{"SetItem(k)", "Get(k)", "GetAny(k)", "Close()"}})
	}
}
