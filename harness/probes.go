package main

import (
	"encoding/binary"
	"fmt"
	"unicode/utf8"

	"github.com/cbehopkins/gkvlite"
)

// probeNonUTF8Name: a collection whose name is not valid UTF-8 must survive Flush + re-open under the
// same name with the same items (C02, C12, C14).  encoding/json rewrites such names: known finding.
func probeNonUTF8Name(rep *Report) {
	name := "bad\xff\xfename"
	if utf8.ValidString(name) {
		return
	}
	w := &World{Timeout: 10e9}
	res := w.guard(func() string {
		mf := NewMemFile()
		s, err := gkvlite.NewStore(mf)
		if err != nil {
			return "open: " + err.Error()
		}
		c := s.SetCollection(name, nil)
		c.SetItem(&gkvlite.Item{Key: []byte("k"), Val: []byte("v"), Priority: 1})
		if err := s.Flush(); err != nil {
			return "flush: " + err.Error()
		}
		s2, err := gkvlite.NewStore(NewMemFileFrom(mf.Bytes()))
		if err != nil {
			return "reopen: " + err.Error()
		}
		names := s2.GetCollectionNames()
		if len(names) != 1 || names[0] != name {
			return fmt.Sprintf("names after re-open: %q, flushed: %q", names, []string{name})
		}
		if v, _ := s2.GetCollection(name).Get([]byte("k")); string(v) != "v" {
			return "item lost"
		}
		return ""
	})
	rep.Evaluations++
	if res != "" {
		rep.Violation("name-not-utf8", false, map[string]interface{}{"collection_name_hex": hx([]byte(name)), "observed": res,
			"expected": "the same collection name and items after Flush and re-open"})
	}
}

// probeGetReference: Get takes a reference on the item (through GetItem) that the caller cannot return (C15).
func probeGetReference(rep *Report) {
	rc := NewRefCounter()
	w := &World{Timeout: 10e9}
	res := w.guard(func() string {
		s, _ := gkvlite.NewStoreEx(nil, rc.callbacks(gkvlite.StoreCallbacks{}))
		c := s.SetCollection("c", nil)
		c.SetItem(&gkvlite.Item{Key: []byte("k"), Val: []byte("v"), Priority: 1})
		if v, err := c.Get([]byte("k")); err != nil || string(v) != "v" {
			return "get failed"
		}
		c.GetAny("k")
		s.Close()
		if out := rc.outstanding(); len(out) > 0 {
			return fmt.Sprintf("after Get, GetAny and Close: %v", out)
		}
		return ""
	})
	rep.Evaluations++
	if res != "" {
		rep.Violation("get-keeps-item-reference", false, map[string]interface{}{"observed": res, "expected": "every count zero once the store is closed",
			"history": []string{"SetItem(k)", "Get(k)", "GetAny(k)", "Close()"}})
	}
}

// probeValueIsRootRecord: a committed value that is itself a complete, self-consistent root record for the file
// position it lands at makes FlushRevert stop at it (C08): the store comes back empty instead of in the state of
// the previous Flush.  (C03 excludes such values explicitly; C08's statement does not.)  Witness found by proof:
// DStoreRefine.h4_needed.
func probeValueIsRootRecord(rep *Report) {
	w := &World{Timeout: 10e9}
	res := w.guard(func() string {
		mf := NewMemFile()
		s, err := gkvlite.NewStore(mf)
		if err != nil {
			return "open: " + err.Error()
		}
		c := s.SetCollection("a", nil)
		if err := s.Flush(); err != nil {
			return "flush: " + err.Error()
		}
		pos := gkvlite.VerifStoreSize(s) + 16 + 1
		v := []byte("0g1t2r0g1t2r")
		v = binary.BigEndian.AppendUint32(v, 4)
		v = binary.BigEndian.AppendUint32(v, 46)
		v = append(v, "{}"...)
		v = binary.BigEndian.AppendUint64(v, uint64(pos))
		v = binary.BigEndian.AppendUint32(v, 46)
		v = append(v, "3e4a5p3e4a5p"...)
		if err := c.SetItem(&gkvlite.Item{Key: []byte("k"), Val: v, Priority: 1}); err != nil {
			return "set: " + err.Error()
		}
		if err := s.Flush(); err != nil {
			return "flush: " + err.Error()
		}
		if err := s.FlushRevert(); err != nil {
			return "revert: " + err.Error()
		}
		names := s.GetCollectionNames()
		if len(names) != 1 || names[0] != "a" {
			return fmt.Sprintf("after FlushRevert the collections are %q; the previous Flush held [\"a\"] (empty)", names)
		}
		return ""
	})
	rep.Evaluations++
	if res != "" {
		rep.Violation("value-is-valid-root-record", false, map[string]interface{}{"observed": res,
			"history":  []string{"SetCollection(a)", "Flush", "SetItem(a, k, <bytes of a root record with an empty map, offset = its own file position>)", "Flush", "FlushRevert", "GetCollectionNames"},
			"expected": "the state of the first Flush: collection a, empty"})
	}
}
