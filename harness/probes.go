package main

import (
	"encoding/binary"
	"fmt"
	"unicode/utf8"

	"github.com/cbehopkins/gkvlite"
)

// probeNonUTF8Name: a collection whose name is not valid UTF-8 must survive Flush + re-open under the
// same name with the same items (C02, C12, C14).  encoding/json rewrites such names: known finding.
func probeNonUTF8Name(rep *Report) {
	name := "bad\xff\xfename"
	if utf8.ValidString(name) {
		return
	}
	w := &World{Timeout: 10e9}
	res := w.guard(func() string {
		mf := NewMemFile()
		s, err := gkvlite.NewStore(mf)
		if err != nil {
			return "open: " + err.Error()
		}
		c := s.SetCollection(name, nil)
		c.SetItem(&gkvlite.Item{Key: []byte("k"), Val: []byte("v"), Priority: 1})
		if err := s.Flush(); err != nil {
			return "flush: " + err.Error()
		}
		s2, err := gkvlite.NewStore(NewMemFileFrom(mf.Bytes()))
		if err != nil {
			return "reopen: " + err.Error()
		}
		names := s2.GetCollectionNames()
		if len(names) != 1 || names[0] != name {
			return fmt.Sprintf("names after re-open: %q, flushed: %q", names, []string{name})
		}
		if v, _ := s2.GetCollection(name).Get([]byte("k")); string(v) != "v" {
			return "item lost"
		}
		return ""
	})
	rep.Evaluations++
	if res != "" {
		rep.Violation("name-not-utf8", false, map[string]interface{}{"collection_name_hex": hx([]byte(name)), "observed": res,
			"expected": "the same collection name and items after Flush and re-open"})
	}
}

// probeGetReference: Get takes a reference on the item (through GetItem) that the caller cannot return (C15).
func probeGetReference(rep *Report) {
	rc := NewRefCounter()
	w := &World{Timeout: 10e9}
	res := w.guard(func() string {
		s, _ := gkvlite.NewStoreEx(nil, rc.callbacks(gkvlite.StoreCallbacks{}))
		c := s.SetCollection("c", nil)
		c.SetItem(&gkvlite.Item{Key: []byte("k"), Val: []byte("v"), Priority: 1})
		if v, err := c.Get([]byte("k")); err != nil || string(v) != "v" {
			return "get failed"
		}
		c.GetAny("k")
		s.Close()
		if out := rc.outstanding(); len(out) > 0 {
			return fmt.Sprintf("after Get, GetAny and Close: %v", out)
		}
		return ""
	})
	rep.Evaluations++
	if res != "" {
		rep.Violation("get-keeps-item-reference", false, map[string]interface{}{"observed": res, "expected": "every count zero once the store is closed",
			"history": []string{"SetItem(k)", "Get(k)", "GetAny(k)", "Close()"}})
	}
}

// probeCopyToUncounted: the store CopyTo returns shares the source's Items but is created without the source's
// callbacks, so it holds them without a counted reference (C15): when the source lets go of an item (its visit leaves the
// node), the count reaches zero although the item is still reachable from the destination's open collection, and an
// allocator that recycles buffers at zero hands the destination's key and value to the next item.
func probeCopyToUncounted(rep *Report) {
	rc := NewRefCounter()
	w := &World{Timeout: 10e9}
	res := w.guard(func() string {
		mf := NewMemFile()
		cb := rc.callbacks(gkvlite.StoreCallbacks{})
		s, _ := gkvlite.NewStoreEx(mf, cb)
		c := s.SetCollection("c", nil)
		c.SetItem(&gkvlite.Item{Key: []byte("key"), Val: []byte("value"), Priority: 1})
		if err := s.Flush(); err != nil {
			return "flush: " + err.Error()
		}
		s.Close()
		s, err := gkvlite.NewStoreEx(mf, cb)
		if err != nil {
			return "reopen: " + err.Error()
		}
		dst, err := s.CopyTo(NewMemFile(), 0)
		if err != nil {
			return "copyto: " + err.Error()
		}
		var got string
		dst.GetCollection("c").VisitItemsAscend(nil, true, func(i *gkvlite.Item) bool {
			rc.mu.Lock()
			n := rc.cnt[i]
			rc.mu.Unlock()
			if n <= 0 || string(i.Key) != "key" || string(i.Val) != "value" {
				got = fmt.Sprintf("the destination's collection reaches an item with count %d (key %q, value %q after recycling)", n, i.Key, i.Val)
			}
			return true
		})
		return got
	})
	rep.Evaluations++
	if res != "" {
		rep.Violation("copyto-destination-uncounted", false, map[string]interface{}{"observed": res,
			"expected": "every item reachable from the open destination store has a positive count (and its key \"key\", value \"value\")",
			"history": []string{"SetItem(key)", "Flush()", "re-open with counting callbacks", "CopyTo(dst, 0)", "visit dst"}})
	}
}

// probeBigRootRecord: a store with so many collections (long names) that its root record exceeds 64 KiB: Flush and
// re-open must show every name and item (C02, C12); then most collections are removed again (a small root record after a
// large one) and the state must again be durable.
func probeBigRootRecord(rep *Report, prop string) {
	w := &World{Timeout: 60e9}
	res := w.guard(func() string {
		mf := NewMemFile()
		s, err := gkvlite.NewStore(mf)
		if err != nil {
			return "open: " + err.Error()
		}
		var names []string
		for i := 0; i < 1300; i++ {
			names = append(names, fmt.Sprintf("collection-with-a-rather-long-name-%05d-%s", i, "xxxxxxxxxx"))
		}
		for i, n := range names {
			c := s.SetCollection(n, nil)
			if i%100 == 0 {
				c.SetItem(&gkvlite.Item{Key: []byte("k"), Val: []byte(n), Priority: int32(i)})
			}
		}
		check := func(img []byte, want []string) string {
			s2, err := gkvlite.NewStore(NewMemFileFrom(img))
			if err != nil {
				return "re-open: " + err.Error()
			}
			got := s2.GetCollectionNames()
			if len(got) != len(want) {
				return fmt.Sprintf("%d collection names after re-open, %d flushed (file of %d bytes)", len(got), len(want), len(img))
			}
			for i := range got {
				if got[i] != want[i] {
					return fmt.Sprintf("name %d after re-open: %q, flushed: %q", i, got[i], want[i])
				}
			}
			for i := 0; i < len(want); i += 100 {
				if v, err := s2.GetCollection(want[i]).Get([]byte("k")); err != nil || (v != nil && string(v) != want[i]) {
					return fmt.Sprintf("item of collection %q after re-open: %q %v", want[i], v, err)
				}
			}
			return ""
		}
		if err := s.Flush(); err != nil {
			return "flush: " + err.Error()
		}
		if r := check(mf.Bytes(), names); r != "" {
			return "after a Flush of 1300 collections: " + r
		}
		for _, n := range names[3:] {
			s.RemoveCollection(n)
		}
		if err := s.Flush(); err != nil {
			return "flush: " + err.Error()
		}
		if r := check(mf.Bytes(), names[:3]); r != "" {
			return "after removing all but 3 collections and a Flush: " + r
		}
		if err := s.FlushRevert(); err != nil {
			return "revert: " + err.Error()
		}
		if got := s.GetCollectionNames(); len(got) != len(names) {
			return fmt.Sprintf("after FlushRevert to the Flush of 1300 collections: %d names", len(got))
		}
		if r := check(mf.Bytes(), names); r != "" {
			return "after FlushRevert to the Flush of 1300 collections: " + r
		}
		return ""
	})
	rep.Evaluations++
	if res != "" {
		rep.Violation("", false, map[string]interface{}{"observed": res, "property_checked": prop,
			"expected":  "the names and items of the last Flush after re-opening, whatever the size of the root record",
			"history":   []string{"SetCollection x1300 (names of 52 bytes)", "Flush", "re-open a copy", "RemoveCollection x1297", "Flush", "re-open a copy", "FlushRevert", "re-open a copy"}})
	}
}

// probeLongKeys: keys at and just below the longest length the format allows (65535 bytes) must come back from the file
// byte for byte (C02, C14); a key of 65536 bytes must be refused.
func probeLongKeys(rep *Report, prop string) {
	w := &World{Timeout: 60e9}
	res := w.guard(func() string {
		mf := NewMemFile()
		s, err := gkvlite.NewStore(mf)
		if err != nil {
			return "open: " + err.Error()
		}
		c := s.SetCollection("long", nil)
		lens := []int{65535, 65534, 65521, 65520, 65519, 65504, 40000}
		mk := func(n int) []byte {
			k := make([]byte, n)
			for i := range k {
				k[i] = byte('a' + (i*7+n)%26)
			}
			k[0] = byte('A' + n%7) // distinct first bytes: distinct keys
			return k
		}
		want := map[string]string{}
		for _, n := range lens {
			k := mk(n)
			v := fmt.Sprintf("value-of-%d", n)
			if err := c.SetItem(&gkvlite.Item{Key: k, Val: []byte(v), Priority: int32(n)}); err != nil {
				return fmt.Sprintf("SetItem with a key of %d bytes: %v", n, err)
			}
			want[string(k)] = v
		}
		if err := c.SetItem(&gkvlite.Item{Key: mk(65536), Val: []byte("x"), Priority: 1}); err == nil {
			return "SetItem with a key of 65536 bytes was accepted"
		}
		if err := s.Flush(); err != nil {
			return "flush: " + err.Error()
		}
		s2, err := gkvlite.NewStore(NewMemFileFrom(mf.Bytes()))
		if err != nil {
			return "re-open: " + err.Error()
		}
		c2 := s2.GetCollection("long")
		if c2 == nil {
			return "collection missing after re-open"
		}
		got := 0
		var bad string
		err = c2.VisitItemsAscend(nil, true, func(i *gkvlite.Item) bool {
			v, ok := want[string(i.Key)]
			if !ok {
				bad = fmt.Sprintf("after re-open a key of %d bytes comes back that was never set (its last bytes: %x)", len(i.Key), i.Key[len(i.Key)-16:])
				return false
			}
			if v != string(i.Val) {
				bad = fmt.Sprintf("after re-open the key of %d bytes has value %q, flushed %q", len(i.Key), i.Val, v)
				return false
			}
			got++
			return true
		})
		if err != nil {
			return "visit after re-open: " + err.Error()
		}
		if bad != "" {
			return bad
		}
		if got != len(lens) {
			return fmt.Sprintf("%d of %d items after re-open", got, len(lens))
		}
		for _, n := range lens {
			if v, err := c2.Get(mk(n)); err != nil || string(v) != want[string(mk(n))] {
				return fmt.Sprintf("Get of the key of %d bytes after re-open: %q %v", n, v, err)
			}
		}
		return ""
	})
	rep.Evaluations++
	if res != "" {
		rep.Violation("", false, map[string]interface{}{"observed": res, "property_checked": prop,
			"expected": "keys of 40000..65535 bytes come back from the file byte for byte; 65536 bytes are refused",
			"history":  []string{"SetItem with keys of 65535, 65534, 65521, 65520, 65519, 65504, 40000 bytes", "SetItem with a key of 65536 bytes", "Flush", "re-open a copy", "visit, Get"}})
	}
}

// probeValueIsRootRecord: a committed value that is itself a complete, self-consistent root record for the file
// position it lands at makes FlushRevert stop at it (C08): the store comes back empty instead of in the state of
// the previous Flush.  (C03 excludes such values explicitly; C08's statement does not.)  Witness found by proof:
// DStoreRefine.h4_needed.
func probeValueIsRootRecord(rep *Report) {
	w := &World{Timeout: 10e9}
	res := w.guard(func() string {
		mf := NewMemFile()
		s, err := gkvlite.NewStore(mf)
		if err != nil {
			return "open: " + err.Error()
		}
		c := s.SetCollection("a", nil)
		if err := s.Flush(); err != nil {
			return "flush: " + err.Error()
		}
		pos := gkvlite.VerifStoreSize(s) + 16 + 1
		v := []byte("0g1t2r0g1t2r")
		v = binary.BigEndian.AppendUint32(v, 4)
		v = binary.BigEndian.AppendUint32(v, 46)
		v = append(v, "{}"...)
		v = binary.BigEndian.AppendUint64(v, uint64(pos))
		v = binary.BigEndian.AppendUint32(v, 46)
		v = append(v, "3e4a5p3e4a5p"...)
		if err := c.SetItem(&gkvlite.Item{Key: []byte("k"), Val: v, Priority: 1}); err != nil {
			return "set: " + err.Error()
		}
		if err := s.Flush(); err != nil {
			return "flush: " + err.Error()
		}
		if err := s.FlushRevert(); err != nil {
			return "revert: " + err.Error()
		}
		names := s.GetCollectionNames()
		if len(names) != 1 || names[0] != "a" {
			return fmt.Sprintf("after FlushRevert the collections are %q; the previous Flush held [\"a\"] (empty)", names)
		}
		return ""
	})
	rep.Evaluations++
	if res != "" {
		rep.Violation("value-is-valid-root-record", false, map[string]interface{}{"observed": res,
			"history":  []string{"SetCollection(a)", "Flush", "SetItem(a, k, <bytes of a root record with an empty map, offset = its own file position>)", "Flush", "FlushRevert", "GetCollectionNames"},
			"expected": "the state of the first Flush: collection a, empty"})
	}
}
