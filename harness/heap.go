package main

import (
	"fmt"

	"github.com/cbehopkins/gkvlite"
)

// checkHeap evaluates the model-free recycling invariants on the
// implementation (verif-tag dump):
//   - no node reachable from the cached tree of any open handle is on the
//     process-wide free list (C10), and
//   - no node reachable from the writable store's *current* version carries a
//     reclaim mark (a mark there means a later mutation will recycle a node
//     that is still part of the tree: the side condition of the Proto model's
//     Build/Cas action; violated by stale marks of a failed mutation, C07).
func checkHeap(w *World) *Mismatch {
	free := map[uintptr]bool{}
	for _, a := range gkvlite.VerifFreeNodes() {
		free[a] = true
	}
	for hi, h := range w.H {
		if h.Closed {
			continue
		}
		for _, name := range h.Store.GetCollectionNames() {
			c := h.Store.GetCollection(name)
			if c == nil {
				continue
			}
			d := gkvlite.VerifDump(c)
			var bad *Mismatch
			seen := 0
			walkDump(d.Root, func(n *gkvlite.VerifNode) {
				seen++
				if bad != nil || seen > 1<<20 {
					return
				}
				if free[n.Addr] {
					bad = &Mismatch{Kind: "freed-node-reachable", Expected: "no node reachable from an open handle is on the free list",
						Observed: fmt.Sprintf("handle %d collection %q: node %#x (key %x) is on the free list", hi, name, n.Addr, n.Key)}
					return
				}
				if hi == 0 && n.MarkAddr != 0 {
					bad = &Mismatch{Kind: "marked-node-in-current-tree", Expected: "no node of the current version's tree carries a reclaim mark",
						Observed: fmt.Sprintf("collection %q: node %#x (key %x) has mark %#x (version mark %#x)", name, n.Addr, n.Key, n.MarkAddr, d.MarkAddr)}
				}
			})
			if bad != nil {
				return bad
			}
		}
	}
	return nil
}

// checkRefs evaluates the reference-count accounting of the version
// protocol (Proto.v refs_accounting) at a quiescent point: every live
// version record has refs = (number of open handles on it) + (number of
// live versions chained to it); and every live superseded version is
// chained to a successor (superseded_chained).
func checkRefs(w *World) *Mismatch {
	type vinfo struct {
		root    gkvlite.VerifRoot
		handles int
		chained int
		where   string
	}
	vs := map[uintptr]*vinfo{}
	var add func(r gkvlite.VerifRoot, handle bool, where string)
	add = func(r gkvlite.VerifRoot, handle bool, where string) {
		if r.Nil {
			return
		}
		v, ok := vs[r.Addr]
		if !ok {
			v = &vinfo{root: r, where: where}
			vs[r.Addr] = v
			if r.Chain != nil {
				add(*r.Chain, false, where+" (via chain)")
				vs[r.Chain.Addr].chained++
			}
		}
		if handle {
			v.handles++
		}
	}
	for hi, h := range w.H {
		if h.Closed {
			continue
		}
		for _, name := range h.Store.GetCollectionNames() {
			c := h.Store.GetCollection(name)
			if c != nil {
				add(gkvlite.VerifDump(c), true, fmt.Sprintf("handle %d collection %q", hi, name))
			}
		}
	}
	freeRoots := map[uintptr]bool{}
	for _, a := range gkvlite.VerifFreeRootNodeLocs() {
		freeRoots[a] = true
	}
	for a, v := range vs {
		if freeRoots[a] {
			return &Mismatch{Kind: "freed-version-reachable", Expected: "no version record reachable from an open handle is on the free list", Observed: fmt.Sprintf("%s: version %#x", v.where, a)}
		}
		if int(v.root.Refs) != v.handles+v.chained {
			return &Mismatch{Kind: "refs-accounting", Expected: fmt.Sprintf("refs = %d open handle(s) + %d chained predecessor(s)", v.handles, v.chained),
				Observed: fmt.Sprintf("%s: version %#x has refs=%d", v.where, a, v.root.Refs)}
		}
		if v.root.Superseded && v.root.ChainAddr == 0 {
			return &Mismatch{Kind: "superseded-not-chained", Expected: "a live superseded version holds a reference on its successor", Observed: fmt.Sprintf("%s: version %#x", v.where, a)}
		}
	}
	return nil
}
