package main

import (
	"fmt"

	"github.com/cbehopkins/gkvlite"
)

// checkHeap evaluates the model-free recycling invariants on the
// implementation (verif-tag dump):
//   - no node reachable from the cached tree of any open handle is on the
//     process-wide free list (C10), and
//   - no node reachable from the writable store's *current* version carries a
//     reclaim mark (a mark there means a later mutation will recycle a node
//     that is still part of the tree: the side condition of the Proto model's
//     Build/Cas action; violated by stale marks of a failed mutation, C07).
func checkHeap(w *World) *Mismatch {
	free := map[uintptr]bool{}
	for _, a := range gkvlite.VerifFreeNodes() {
		free[a] = true
	}
	for hi, h := range w.H {
		if h.Closed {
			continue
		}
		for _, name := range h.Store.GetCollectionNames() {
			c := h.Store.GetCollection(name)
			if c == nil {
				continue
			}
			d := gkvlite.VerifDump(c)
			var bad *Mismatch
			seen := 0
			walkDump(d.Root, func(n *gkvlite.VerifNode) {
				seen++
				if bad != nil || seen > 1<<20 {
					return
				}
				if free[n.Addr] {
					bad = &Mismatch{Kind: "freed-node-reachable", Expected: "no node reachable from an open handle is on the free list",
						Observed: fmt.Sprintf("handle %d collection %q: node %#x (key %x) is on the free list", hi, name, n.Addr, n.Key)}
					return
				}
				if hi == 0 && n.MarkAddr != 0 {
					bad = &Mismatch{Kind: "marked-node-in-current-tree", Expected: "no node of the current version's tree carries a reclaim mark",
						Observed: fmt.Sprintf("collection %q: node %#x (key %x) has mark %#x (version mark %#x)", name, n.Addr, n.Key, n.MarkAddr, d.MarkAddr)}
				}
			})
			if bad != nil {
				return bad
			}
		}
	}
	return nil
}
