package main

import (
	"bytes"
	"encoding/hex"
	"fmt"
	"sort"
	"strings"
)

// ---------------------------------------------------------------- PRNG

// Rng is splitmix64; every random choice of a run derives from one seed.
type Rng struct{ s uint64 }

func NewRng(seed uint64) *Rng { return &Rng{s: seed*0x9E3779B97F4A7C15 + 0x1234567} }

func (r *Rng) U64() uint64 {
	r.s += 0x9E3779B97F4A7C15
	z := r.s
	z = (z ^ (z >> 30)) * 0xBF58476D1CE4E5B9
	z = (z ^ (z >> 27)) * 0x94D049BB133111EB
	return z ^ (z >> 31)
}
func (r *Rng) Intn(n int) int {
	if n <= 0 {
		return 0
	}
	return int(r.U64() % uint64(n))
}
func (r *Rng) Chance(num, den int) bool { return r.Intn(den) < num }
func (r *Rng) Fork() *Rng               { return NewRng(r.U64()) }

// ---------------------------------------------------------------- helpers

func hx(b []byte) string {
	if b == nil {
		return "-"
	}
	if len(b) == 0 {
		return "e"
	}
	return hex.EncodeToString(b)
}

func unhx(s string) []byte {
	if s == "-" {
		return nil
	}
	if s == "e" {
		return []byte{}
	}
	b, err := hex.DecodeString(s)
	if err != nil {
		panic("bad hex " + s)
	}
	return b
}

// ---------------------------------------------------------------- comparators

func lower(c byte) byte {
	if c >= 'A' && c <= 'Z' {
		return c + 32
	}
	return c
}

func cmpFold(a, b []byte) int {
	n := len(a)
	if len(b) < n {
		n = len(b)
	}
	for i := 0; i < n; i++ {
		x, y := lower(a[i]), lower(b[i])
		if x < y {
			return -1
		}
		if x > y {
			return 1
		}
	}
	if len(a) < len(b) {
		return -1
	}
	if len(a) > len(b) {
		return 1
	}
	return 0
}

// Comparator ids shared with the Coq model (Order.v): 0 bytes.Compare,
// 1 reversed, 2 length-then-bytes, 3 ASCII case-insensitive.
var comparators = []func(a, b []byte) int{
	bytes.Compare,
	func(a, b []byte) int { return bytes.Compare(b, a) },
	func(a, b []byte) int {
		if len(a) != len(b) {
			if len(a) < len(b) {
				return -1
			}
			return 1
		}
		return bytes.Compare(a, b)
	},
	cmpFold,
}

// ---------------------------------------------------------------- reference model (model-free oracle)

type RefItem struct {
	Key, Val []byte
	Prio     int32
}

type RefColl struct {
	Cmp   int
	Items []RefItem // sorted by comparators[Cmp]
}

func (c *RefColl) clone() *RefColl {
	n := &RefColl{Cmp: c.Cmp, Items: make([]RefItem, len(c.Items))}
	copy(n.Items, c.Items)
	return n
}

func (c *RefColl) find(key []byte) (int, bool) {
	cmp := comparators[c.Cmp]
	i := sort.Search(len(c.Items), func(i int) bool { return cmp(c.Items[i].Key, key) >= 0 })
	if i < len(c.Items) && cmp(c.Items[i].Key, key) == 0 {
		return i, true
	}
	return i, false
}

func (c *RefColl) set(it RefItem) {
	i, ok := c.find(it.Key)
	if ok {
		c.Items[i] = it
		return
	}
	c.Items = append(c.Items, RefItem{})
	copy(c.Items[i+1:], c.Items[i:])
	c.Items[i] = it
}

func (c *RefColl) del(key []byte) bool {
	i, ok := c.find(key)
	if !ok {
		return false
	}
	c.Items = append(c.Items[:i:i], c.Items[i+1:]...)
	return true
}

func (c *RefColl) totals() (uint64, uint64) {
	var b uint64
	for _, it := range c.Items {
		b += uint64(len(it.Key) + len(it.Val) + valOverhead)
	}
	return uint64(len(c.Items)), b
}

// resort is used when SetCollection installs another comparator: the
// tree keeps its structure, so the reference only stays meaningful if
// the items are also sorted under the new comparator (the generator
// only switches between comparators for which that is the case, or on
// empty collections).
func (c *RefColl) sortedUnder(cmpID int) bool {
	cmp := comparators[cmpID]
	for i := 1; i < len(c.Items); i++ {
		if cmp(c.Items[i-1].Key, c.Items[i].Key) >= 0 {
			return false
		}
	}
	return true
}

type RefStore struct {
	Colls map[string]*RefColl
}

func NewRefStore() *RefStore { return &RefStore{Colls: map[string]*RefColl{}} }

func (s *RefStore) clone() *RefStore {
	n := NewRefStore()
	for k, c := range s.Colls {
		n.Colls[k] = c.clone()
	}
	return n
}

func (s *RefStore) names() []string {
	var ns []string
	for k := range s.Colls {
		ns = append(ns, k)
	}
	sort.Strings(ns)
	return ns
}

// canonical dump: name(hex) cmp? no: names + items (key,val,prio) + totals
func (s *RefStore) dump() string {
	var sb strings.Builder
	for _, n := range s.names() {
		c := s.Colls[n]
		cnt, b := c.totals()
		if bytesUnspecified {
			b = 0
		}
		fmt.Fprintf(&sb, "[%s n=%d b=%d", hx([]byte(n)), cnt, b)
		for _, it := range c.Items {
			fmt.Fprintf(&sb, " %s/%s/%d", hx(it.Key), hx(it.Val), it.Prio)
		}
		sb.WriteString("]")
	}
	return sb.String()
}

func itemValid(key, val []byte, prio int32) bool {
	return key != nil && len(key) > 0 && len(key) <= 0xffff && val != nil && prio >= 0
}
