package main

import (
	"errors"
	"io"

	"github.com/cbehopkins/gkvlite"
)

// Bits of CfgDesc.CBSet: which (behaviourally neutral) callbacks are installed.
const (
	cbBeforeWrite = 1 << iota
	cbAfterRead
	cbItemAlloc
	cbValLength
	cbValWrite
	cbValRead
	cbKeyCompare
	cbRefCount
	cbChunkMem // values chunked IN MEMORY (Val = first chunk, rest in Transient): the tools/slab pattern
	cbCodec    // an inverse pair: BeforeItemWrite stores the value encoded with a check byte, AfterItemRead decodes it
	cbCodecRaw // the same pair WITHOUT an ItemValLength callback: byte totals then depend on what is cached (not compared)
	cbNestedWrite // BeforeItemWrite returns the item unchanged but first persists ANOTHER collection (Collection.Write): a callback that appends to the store
)

// marks an item produced by the codec's BeforeItemWrite (already in its stored form)
var codecEncoded interface{} = &struct{ x int }{1}

// valOverhead: bytes the installed value codec adds to every stored value (enters GetTotals)
var valOverhead int

// bytesUnspecified: the byte totals depend on the cache state (cbCodecRaw) and are left out of dumps
var bytesUnspecified bool

const cbAllNeutral = cbBeforeWrite | cbAfterRead | cbItemAlloc | cbValLength | cbValWrite | cbValRead | cbKeyCompare

func neutralCallbacks(set int, cmpOf map[string]int) gkvlite.StoreCallbacks {
	var cb gkvlite.StoreCallbacks
	if set&cbBeforeWrite != 0 {
		cb.BeforeItemWrite = func(c *gkvlite.Collection, i *gkvlite.Item) (*gkvlite.Item, error) { return i, nil }
	}
	if set&cbAfterRead != 0 {
		cb.AfterItemRead = func(c *gkvlite.Collection, i *gkvlite.Item) (*gkvlite.Item, error) { return i, nil }
	}
	if set&cbNestedWrite != 0 {
		busy := false
		n := 0
		cb.BeforeItemWrite = func(c *gkvlite.Collection, i *gkvlite.Item) (*gkvlite.Item, error) {
			n++
			if busy || n%2 == 0 {
				return i, nil
			}
			busy = true
			defer func() { busy = false }()
			s := gkvlite.VerifStore(c)
			for _, name := range s.GetCollectionNames() {
				if name != c.Name() {
					if o := s.GetCollection(name); o != nil {
						if err := o.Write(); err != nil {
							return nil, err
						}
					}
					break
				}
			}
			return i, nil
		}
	}
	if set&(cbCodec|cbCodecRaw) != 0 {
		// what the application sees is unchanged; the bytes in the file are not the application's values (and one
		// byte longer: a check byte), so this configuration is used only by checks whose oracles are at the API
		cb.BeforeItemWrite = func(c *gkvlite.Collection, i *gkvlite.Item) (*gkvlite.Item, error) {
			if i.Val == nil {
				return i, nil
			}
			v := make([]byte, len(i.Val)+1)
			sum := byte(len(i.Val))
			for j, x := range i.Val {
				v[j] = x ^ 0x5a
				sum += x
			}
			v[len(i.Val)] = sum
			return &gkvlite.Item{Key: i.Key, Val: v, Priority: i.Priority, Transient: codecEncoded}, nil
		}
		cb.AfterItemRead = func(c *gkvlite.Collection, i *gkvlite.Item) (*gkvlite.Item, error) {
			if i.Val == nil {
				return i, nil
			}
			if len(i.Val) == 0 {
				return nil, errors.New("codec: stored value without its check byte")
			}
			n := len(i.Val) - 1
			sum := byte(n)
			for j := 0; j < n; j++ {
				i.Val[j] ^= 0x5a
				sum += i.Val[j]
			}
			if sum != i.Val[n] {
				return nil, errors.New("codec: check byte mismatch")
			}
			i.Val = i.Val[:n:n]
			return i, nil
		}
		if set&cbCodecRaw == 0 {
			cb.ItemValLength = func(c *gkvlite.Collection, i *gkvlite.Item) int {
				if i.Transient == codecEncoded {
					return len(i.Val)
				}
				return len(i.Val) + 1 // the length the value has in the file
			}
		}
	}
	if set&cbItemAlloc != 0 {
		cb.ItemAlloc = func(c *gkvlite.Collection, keyLength uint32) *gkvlite.Item {
			buf := make([]byte, keyLength, keyLength+8)
			return &gkvlite.Item{Key: buf, Transient: "allocated-by-callback"}
		}
	}
	if set&cbValLength != 0 {
		cb.ItemValLength = func(c *gkvlite.Collection, i *gkvlite.Item) int { return len(i.Val) }
	}
	if set&cbValWrite != 0 {
		cb.ItemValWrite = func(c *gkvlite.Collection, i *gkvlite.Item, w io.WriterAt, offset int64) error {
			// the same bytes, written in chunks of 3
			for p := 0; p < len(i.Val); p += 3 {
				e := p + 3
				if e > len(i.Val) {
					e = len(i.Val)
				}
				if _, err := w.WriteAt(i.Val[p:e], offset+int64(p)); err != nil {
					return err
				}
			}
			return nil
		}
	}
	if set&cbValRead != 0 {
		cb.ItemValRead = func(c *gkvlite.Collection, i *gkvlite.Item, r io.ReaderAt, offset int64, valLength uint32) error {
			v := make([]byte, valLength)
			for p := 0; p < len(v); p += 5 {
				e := p + 5
				if e > len(v) {
					e = len(v)
				}
				if _, err := r.ReadAt(v[p:e], offset+int64(p)); err != nil {
					return err
				}
			}
			i.Val = v
			return nil
		}
	}
	if set&cbChunkMem != 0 {
		cb.ItemValLength = func(c *gkvlite.Collection, i *gkvlite.Item) int { return len(fullVal(i)) }
		cb.ItemValWrite = func(c *gkvlite.Collection, i *gkvlite.Item, w io.WriterAt, offset int64) error {
			if _, err := w.WriteAt(i.Val, offset); err != nil {
				return err
			}
			off := offset + int64(len(i.Val))
			if mc, ok := i.Transient.(*memChunk); ok && mc != nil {
				for _, ch := range mc.rest {
					if _, err := w.WriteAt(ch, off); err != nil {
						return err
					}
					off += int64(len(ch))
				}
			}
			return nil
		}
		cb.ItemValRead = func(c *gkvlite.Collection, i *gkvlite.Item, r io.ReaderAt, offset int64, valLength uint32) error {
			v := make([]byte, valLength)
			if _, err := r.ReadAt(v, offset); err != nil {
				return err
			}
			ci := chunkItem(nil, v, 0)
			i.Val, i.Transient = ci.Val, ci.Transient
			return nil
		}
	}
	if set&cbKeyCompare != 0 {
		cb.KeyCompareForCollection = func(name string) gkvlite.KeyCompare {
			if cmpOf[name] == 0 {
				return nil // "use the default" for collections ordered by bytes.Compare
			}
			return comparators[cmpOf[name]]
		}
	}
	return cb
}

// weaveSnapshots inserts k snapshots, reads through them, refused
// mutations, and their closes (or not) at random later positions.
func weaveSnapshots(r *Rng, ops []Op, k int) []Op {
	return weaveSnapshotsEx(r, ops, k, false)
}

func weaveSnapshotsEx(r *Rng, ops []Op, k int, allowRevert bool) []Op {
	if k == 0 || len(ops) < 4 {
		return ops
	}
	type ins struct {
		pos int
		op  Op
	}
	var names []string
	var keys [][]byte
	for _, o := range ops {
		if o.K == "coll" {
			names = append(names, o.Name)
		}
		if o.K == "set" && len(o.Key) > 0 && len(o.Key) < 1000 {
			keys = append(keys, o.Key)
		}
	}
	if len(names) == 0 {
		return ops
	}
	if len(keys) == 0 {
		keys = [][]byte{[]byte("a")}
	}
	var inserts []ins
	for s := 1; s <= k; s++ {
		at := 1 + r.Intn(len(ops)-1)
		// a snapshot of the store, or of an earlier snapshot
		src := 0
		if s > 1 && r.Chance(1, 3) {
			src = 1 + r.Intn(s-1)
		}
		inserts = append(inserts, ins{at, Op{K: "snap", H: src}})
		nreads := 2 + r.Intn(8)
		closed := false
		for j := 0; j < nreads; j++ {
			p := at + r.Intn(len(ops)-at+1)
			nm := names[r.Intn(len(names))]
			key := keys[r.Intn(len(keys))]
			var o Op
			switch r.Intn(12) {
			case 0, 1:
				o = Op{K: "get", Name: nm, Key: key}
			case 2:
				o = Op{K: "geti", Name: nm, Key: key, WV: r.Chance(1, 2)}
			case 3:
				o = Op{K: []string{"min", "max"}[r.Intn(2)], Name: nm, WV: true}
			case 4:
				o = Op{K: "tot", Name: nm}
			case 5, 6:
				o = Op{K: []string{"asc", "desc", "itasc", "ascx"}[r.Intn(4)], Name: nm, Key: key, WV: r.Chance(1, 2), N: -1 + r.Intn(4)}
			case 7:
				o = Op{K: "names"}
			case 8:
				o = Op{K: "set", Name: nm, Key: key, Val: []byte("refused"), Prio: 1}
			case 9:
				o = Op{K: "del", Name: nm, Key: key}
			case 10:
				o = Op{K: "flush"}
			case 11:
				o = Op{K: "exist", Name: nm, Key: key}
				if r.Chance(1, 2) {
					o = Op{K: "cwrite", Name: nm} // Collection.Write() on a snapshot must be refused and write nothing
				}
			}
			o.H = s
			inserts = append(inserts, ins{p, o})
		}
		if allowRevert && r.Chance(1, 5) {
			inserts = append(inserts, ins{at + r.Intn(len(ops)-at+1), Op{K: "revert", H: s}})
		}
		if r.Chance(3, 4) {
			closed = true
			inserts = append(inserts, ins{at + r.Intn(len(ops)-at+1), Op{K: "close", H: s}})
		}
		_ = closed
	}
	// stable merge by position
	out := make([]Op, 0, len(ops)+len(inserts))
	for i := 0; i <= len(ops); i++ {
		for _, in := range inserts {
			if in.pos == i {
				out = append(out, in.op)
			}
		}
		if i < len(ops) {
			out = append(out, ops[i])
		}
	}
	return out
}
