package main

import "fmt"

func init() { checks["C17"] = checkC17 }

func checkC17(rep *Report, rng *Rng, tier string) {
	per := 12
	sets := []int{0, cbAllNeutral, cbBeforeWrite, cbAfterRead, cbItemAlloc, cbValLength, cbValWrite, cbValRead, cbKeyCompare,
		cbValLength | cbValWrite | cbValRead, cbItemAlloc | cbAfterRead, cbChunkMem, cbChunkMem | cbItemAlloc | cbBeforeWrite | cbAfterRead,
		cbRefCount} // a counting, RECYCLING allocator: buffers of items whose count reached zero are overwritten at once
	if tier == "thorough" {
		per = 25
		sets = nil
		for s := 0; s < 128; s++ {
			sets = append(sets, s)
		}
		sets = append(sets, cbChunkMem, cbChunkMem|cbItemAlloc|cbBeforeWrite|cbAfterRead, cbChunkMem|cbKeyCompare, cbRefCount, cbRefCount|cbAfterRead|cbValRead)
	}
	modelOn = true
	rep.Rule = fmt.Sprintf("the correspondence checks of C01 (sorted map), C02 (durability, re-open of the image after every step), C06 (visits), C14 (Coq decoder + conforms_v4 on the file) and C08 (FlushRevert walk-back) re-run with %d callback configurations (none, all, each alone, value triple, alloc+after-read; thorough: all 128 subsets) of behaviourally neutral callbacks: BeforeItemWrite/AfterItemRead returning the item unchanged, custom ItemAlloc, ItemValLength=len, ItemValWrite in 3-byte chunks, ItemValRead in 5-byte chunks, KeyCompareForCollection returning the collection's comparator; plus the tools/slab pattern: values chunked IN MEMORY (Item.Val = first 4 bytes, the rest in Item.Transient) with matching ItemValLength/ItemValWrite/ItemValRead; expected observations are the same reference/model as without callbacks; the same seeds are used for every configuration; non-trivial = at least 8 ops", len(sets))
	gens := []func(*Rng, int) (CfgDesc, []Op){genC01, genC02, genC06, genC14, genC08}
	base := rng.U64()
	cfgCount := map[string]int{}
	for _, set := range sets {
		for gi, gen := range gens {
			// identical histories for every callback configuration
			rr := NewRng(base + uint64(gi)*7919)
			HistoryLoop(rep, rr, per, func(r *Rng, i int) (RunCfg, []Op, string) {
				d, ops := gen(r, i)
				d.CBSet = set
				if d.CmpCB {
					d.CBSet |= cbKeyCompare
				}
				d.Check = "C17/" + d.Check
				cfgCount[fmt.Sprintf("%#x", set)]++
				return d.RunCfg(), ops, d.String()
			}, nil)
			if len(rep.Violations) > 0 {
				rep.Extra["histories_per_callback_set"] = cfgCount
				return
			}
		}
	}
	rep.Extra["histories_per_callback_set"] = cfgCount
	modelCompare(rep, "C17")
}
