package main

import (
	"encoding/binary"
	"fmt"
)

// IOState is what the harness knows about the file from the write log
// alone: the end of the last durable root record and the byte ranges
// that hold item values.
type IOState struct {
	DurableEnd int64      // end of the last completely written root record (0: none)
	ValRanges  [][2]int64 // [start,end) of every item value written so far (below the current file end)
	Writes     int
	Truncs     int
	ReadsSeen  int
}

var readOnlyKinds = map[string]bool{"get": true, "geti": true, "exist": true, "min": true, "max": true, "tot": true,
	"evict": true, "reopen": true, "snap": true, "names": true, "asc": true, "desc": true, "ascx": true, "descx": true,
	"itasc": true, "itdesc": true, "nasc": true, "ndesc": true, "nit": true, "junk": true, "copyto": true, "copyfail": true, "itx": true, "vall": true, "len": true, "close": true, "blk": true, "rnd": true, "coll": true, "rmcoll": true}

// key-only calls: must never read a byte of any item's value (C19)
func keyOnly(op Op) bool {
	switch op.K {
	case "geti", "min", "max", "asc", "desc", "ascx", "descx", "itasc", "itdesc", "nit":
		return !op.WV
	case "exist", "len", "set", "del":
		return true
	}
	return false
}

func isRootRecord(b []byte) bool {
	n := len(b)
	if n < 12+4+4+8+4+12 {
		return false
	}
	if string(b[:6]) != "0g1t2r" || string(b[6:12]) != "0g1t2r" || string(b[n-6:]) != "3e4a5p" || string(b[n-12:n-6]) != "3e4a5p" {
		return false
	}
	return int(binary.BigEndian.Uint32(b[16:20])) == n
}

// checkIO inspects the file calls made by one API call (C09, C19).
func (st *IOState) checkIO(op Op, obs string, evs []IOEvent, writable bool) *Mismatch {
	if (op.K == "reopen" || op.K == "junk") && obs == "ok" && writable {
		// the store now ends at the last root record: whatever was written beyond it (Collection.Write,
		// a failed Flush) is dead and its space will be written again
		var keep [][2]int64
		for _, r := range st.ValRanges {
			if r[1] <= st.DurableEnd {
				keep = append(keep, r)
			}
		}
		st.ValRanges = keep
	}
	var pendingItem *IOEvent
	for idx := range evs {
		e := evs[idx]
		switch e.Kind {
		case 'W':
			st.Writes++
			if (e.Label != "flush" && e.Label != "cwrite") || !writable {
				return &Mismatch{Kind: "write-outside-flush", Expected: "only Flush on the writable store writes to the file", Observed: fmt.Sprintf("WriteAt(off=%d,len=%d) during %q", e.Off, e.Len, e.Label)}
			}
			if e.Off < st.DurableEnd {
				return &Mismatch{Kind: "write-below-durable-end", Expected: fmt.Sprintf("every write starts at or beyond the end of the last durable root record (%d)", st.DurableEnd), Observed: fmt.Sprintf("WriteAt(off=%d,len=%d)", e.Off, e.Len)}
			}
			if e.Fail {
				pendingItem = nil
				continue
			}
			// classify the record for the value ranges (item header+key, then the value)
			if pendingItem != nil && e.Off == pendingItem.Off+int64(pendingItem.Len) {
				vl := int64(binary.BigEndian.Uint32(pendingItem.Data[8:12]))
				total := int64(binary.BigEndian.Uint32(pendingItem.Data[0:4]))
				start := pendingItem.Off + int64(pendingItem.Len)
				if total == int64(pendingItem.Len)+vl {
					st.ValRanges = append(st.ValRanges, [2]int64{start, start + vl})
				}
			}
			pendingItem = nil
			if len(e.Data) >= 16 && !isRootRecord(e.Data) && e.Len != 52 {
				kl := int(binary.BigEndian.Uint32(e.Data[4:8]))
				if e.Len == 16+kl {
					ev := e
					pendingItem = &ev
					if binary.BigEndian.Uint32(e.Data[8:12]) == 0 {
						pendingItem = nil // empty value: nothing to protect
					}
				}
			} else if len(e.Data) == 52 {
				// a node record; could also be an item with 36-byte key: check header consistency
				kl := int(binary.BigEndian.Uint32(e.Data[4:8]))
				if e.Len == 16+kl && int(binary.BigEndian.Uint32(e.Data[0:4])) == 16+kl+int(binary.BigEndian.Uint32(e.Data[8:12])) {
					ev := e
					pendingItem = &ev
				}
			}
			if isRootRecord(e.Data) && obs == "ok" && e.Label == "flush" {
				st.DurableEnd = e.Off + int64(e.Len)
			}
		case 'T':
			st.Truncs++
			if (e.Label != "revert" && e.Label != "vrev") || !writable {
				return &Mismatch{Kind: "truncate-outside-revert", Expected: "only FlushRevert on the writable store truncates", Observed: fmt.Sprintf("Truncate(%d) during %q (writable=%v)", e.Off, e.Label, writable)}
			}
			if !e.Fail {
				st.DurableEnd = e.Off
				var keep [][2]int64
				for _, r := range st.ValRanges {
					if r[1] <= e.Off {
						keep = append(keep, r)
					}
				}
				st.ValRanges = keep
			}
		case 'R':
			st.ReadsSeen++
			if keyOnly(op) {
				for _, r := range st.ValRanges {
					if e.Off < r[1] && e.Off+int64(e.Len) > r[0] && e.Len > 0 {
						return &Mismatch{Kind: "value-read-by-key-only-call", Expected: "key-only operations never read a byte of any item's value", Observed: fmt.Sprintf("ReadAt(off=%d,len=%d) overlaps the value bytes [%d,%d) during %q", e.Off, e.Len, r[0], r[1], op.K)}
					}
				}
			}
		}
	}
	return nil
}
