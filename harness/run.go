package main

import (
	"bytes"
	"crypto/md5"
	"fmt"
	"os"
	"strings"
	"time"

	"github.com/cbehopkins/gkvlite"
)

// Mismatch is the first step of a history at which the implementation's
// observation differs from what the property demands.
type Mismatch struct {
	Step     int
	Op       string
	Expected string
	Observed string
	Kind     string // "obs", "dump", "panic", "hang", "reopen-dump", ...
	Note     string
}

// RunCfg describes how a history is executed and what is compared.
type RunCfg struct {
	FileBacked  bool
	CmpCB       bool // install KeyCompareForCollection so re-opened stores keep their comparators
	CBSet       int  // callbacks.go bit set
	Digests     bool // record length+MD5 of the file after every step (byte-exact comparison with DStore)
	NoHeapCheck bool
	DumpEvery   bool // compare the full contents of every handle after every step
	ReopenDump  bool // after every step following a flush, open a copy of the file image and compare with the last flushed reference (C02)
	PostStep    func(w *World, i int, op Op, obs string) *Mismatch
	PostRun     func(w *World) *Mismatch
	OnWorld     func(w *World)
}

func newWorldFor(cfg RunCfg) (*World, map[string]int) {
	cmpOf := map[string]int{}
	set := cfg.CBSet
	if cfg.CmpCB {
		set |= cbKeyCompare
	}
	cb := neutralCallbacks(set, cmpOf)
	valOverhead = 0
	if set&cbCodec != 0 {
		valOverhead = 1
	}
	bytesUnspecified = set&cbCodecRaw != 0
	var rc *RefCounter
	if set&cbRefCount != 0 {
		rc = NewRefCounter()
		cb = rc.callbacks(cb)
	}
	memOnlyTypedNil = cfg.CmpCB
	w, err := NewWorld(cfg.FileBacked, cb)
	if err != nil {
		panic(err)
	}
	w.RC = rc
	w.ChunkMem = set&cbChunkMem != 0
	w.CmpOf = cmpOf
	return w, cmpOf
}

// RunOps executes ops, comparing each observation with the reference.
// It returns the world (for post-mortem), the observations, and the
// first mismatch (nil when the property held on this history).
func RunOps(cfg RunCfg, ops []Op) (*World, []string, *Mismatch) {
	w, cmpOf := newWorldFor(cfg)
	if cfg.OnWorld != nil {
		cfg.OnWorld(w)
	}
	obs := make([]string, 0, len(ops))
	for i, op := range ops {
		if op.H >= len(w.H) || w.H[op.H].Closed {
			obs = append(obs, "skip")
			continue
		}
		if op.K == "coll" {
			if _, ok := cmpOf[op.Name]; !ok || true {
				cmpOf[op.Name] = op.N
			}
		}
		l0 := 0
		if w.File != nil {
			l0 = w.File.LogLen()
			if op.K == "flush" && op.H == 0 {
				w.PreImage = w.File.Bytes()
			}
		}
		got := w.Do(op)
		obs = append(obs, got)
		if w.File != nil && cfg.Digests {
			b := w.File.Bytes()
			w.Digests = append(w.Digests, fmt.Sprintf("%d %x", len(b), md5.Sum(b)))
		}
		if w.File != nil && !w.Hang {
			evs := w.File.LogFrom(l0)
			w.LastEvents = evs
			if m := w.IO.checkIO(op, got, evs, op.H == 0); m != nil {
				m.Step, m.Op = i, op.String()
				return w, obs, m
			}
			if op.K == "reopen" && got == "ok" && op.H == 0 && int64(w.File.Len()) == w.IO.DurableEnd {
				if m := checkOpenReads(evs); m != nil {
					m.Step, m.Op = i, op.String()
					return w, obs, m
				}
			}
		}
		if w.Hang {
			return w, obs, &Mismatch{Step: i, Op: op.String(), Expected: "(termination)", Observed: "HANG", Kind: "hang"}
		}
		if got == "PANIC" {
			return w, obs, &Mismatch{Step: i, Op: op.String(), Expected: "(no panic)", Observed: "PANIC: " + w.Panic, Kind: "panic"}
		}
		if op.K == "reopen" && op.H == 0 && got == "err" && len(w.Flushed) == 0 && w.File != nil && w.File.Len() > 0 {
			// bytes in the file (Collection.Write, a torn first Flush) but no Flush ever completed: the
			// documented "no roots" error is the right answer; the store in use stays as it is
			continue
		}
		exp := w.Expect(op)
		if exp == "?" {
			continue
		}
		cmpGot := got
		if op.K == "ascx" || op.K == "descx" {
			cmpGot = stripDepth(got)
		}
		if exp != cmpGot {
			return w, obs, &Mismatch{Step: i, Op: op.String(), Expected: exp, Observed: got, Kind: "obs"}
		}
		if !cfg.NoHeapCheck {
			if hm := checkHeap(w); hm != nil {
				hm.Step, hm.Op = i, op.String()
				return w, obs, hm
			}
			hm := checkRefs(w)
			// an iterator's producer goroutine releases its pin asynchronously after Close(): allow it a bounded delay
			for try := 0; hm != nil && try < 400; try++ {
				time.Sleep(5 * time.Millisecond)
				hm = checkRefs(w)
			}
			if hm != nil {
				hm.Step, hm.Op = i, op.String()
				hm.Note = "still so 2 s after the call returned"
				return w, obs, hm
			}
		}
		if cfg.DumpEvery {
			for hi, h := range w.H {
				if h.Closed || h.Ref == nil {
					continue
				}
				d := w.DumpImpl(hi)
				if w.Hang {
					return w, obs, &Mismatch{Step: i, Op: op.String(), Expected: "(termination)", Observed: "HANG in dump", Kind: "hang"}
				}
				if d == "PANIC" {
					return w, obs, &Mismatch{Step: i, Op: op.String(), Expected: h.Ref.dump(), Observed: "PANIC: " + w.Panic, Kind: "panic", Note: fmt.Sprintf("reading handle %d after the step", hi)}
				}
				if e := h.Ref.dump(); e != d {
					return w, obs, &Mismatch{Step: i, Op: op.String(), Expected: e, Observed: d, Kind: "dump", Note: fmt.Sprintf("contents of handle %d after the step", hi)}
				}
			}
		}
		if cfg.ReopenDump && w.File != nil {
			if m := checkReopenImage(w, cmpOf, i, op); m != nil {
				return w, obs, m
			}
		}
		if cfg.PostStep != nil {
			if m := cfg.PostStep(w, i, op, got); m != nil {
				if m.Op == "" {
					m.Op = op.String()
				}
				m.Step = i
				return w, obs, m
			}
		}
	}
	if cfg.PostRun != nil {
		if m := cfg.PostRun(w); m != nil {
			m.Step = len(ops)
			return w, obs, m
		}
	}
	return w, obs, nil
}

// checkReopenImage opens a fresh Store on a copy of the current file
// image and compares its contents with the last successful flush.
func checkReopenImage(w *World, cmpOf map[string]int, i int, op Op) *Mismatch {
	img := w.File.Bytes()
	exp := NewRefStore()
	if len(w.Flushed) > 0 {
		exp = w.Flushed[len(w.Flushed)-1]
	}
	got := w.guard(func() string {
		cb := w.CB
		s, err := gkvlite.NewStoreEx(NewMemFileFrom(img), cb)
		if err != nil {
			return "err:open:" + err.Error()
		}
		return dumpStore(s)
	})
	if w.Hang {
		return &Mismatch{Step: i, Op: op.String(), Expected: "(termination)", Observed: "HANG re-opening image", Kind: "hang"}
	}
	if got == "PANIC" {
		got = "PANIC: " + w.Panic
	}
	if len(img) == 0 && got == "" {
		return nil
	}
	if len(w.Flushed) == 0 && strings.HasPrefix(got, "err:open:couldn't find roots") {
		return nil // the documented answer when no Flush ever completed
	}
	if e := exp.dump(); e != got {
		return &Mismatch{Step: i, Op: op.String(), Expected: e, Observed: got, Kind: "reopen-dump",
			Note: "contents of a fresh Store opened on a copy of the file image after this step vs state at the last successful Flush"}
	}
	return nil
}

// checkOpenReads: opening a file that ends in a root record issues Stat,
// one read of the 24-byte trailer and one read of the root record (C19).
func checkOpenReads(evs []IOEvent) *Mismatch {
	if len(evs) == 0 || evs[0].Kind != 'S' {
		return &Mismatch{Kind: "open-io", Expected: "Stat first", Observed: fmt.Sprint(len(evs), " calls")}
	}
	size := evs[0].SizeB
	if size == 0 {
		if len(evs) != 1 {
			return &Mismatch{Kind: "open-io", Expected: "an empty file is opened with Stat only", Observed: fmt.Sprintf("%d file calls", len(evs))}
		}
		return nil
	}
	if len(evs) != 3 || evs[1].Kind != 'R' || evs[2].Kind != 'R' || evs[1].Len != 24 || evs[1].Off != size-24 ||
		evs[2].Off+int64(evs[2].Len) != size-24 {
		var d []string
		for _, e := range evs {
			d = append(d, fmt.Sprintf("%c(off=%d,len=%d)", e.Kind, e.Off, e.Len))
		}
		return &Mismatch{Kind: "open-io", Expected: fmt.Sprintf("Stat, ReadAt(24 bytes at %d), one ReadAt of the root record ending at %d", size-24, size-24), Observed: fmt.Sprint(d)}
	}
	return nil
}

// Shrink removes ops while the history still fails (with any mismatch
// of the same kind), returning a locally minimal failing history.
func Shrink(ops []Op, fails func([]Op) bool) []Op {
	cur := append([]Op{}, ops...)
	n := 2
	hangs0 := hangsSeen
	for len(cur) >= 2 {
		if hangsSeen > hangs0+1 {
			break // goroutines stuck on a lock the failure left held: further replays only wait for the watchdog
		}
		chunk := (len(cur) + n - 1) / n
		reduced := false
		for start := 0; start < len(cur); start += chunk {
			end := start + chunk
			if end > len(cur) {
				end = len(cur)
			}
			cand := append(append([]Op{}, cur[:start]...), cur[end:]...)
			if len(cand) > 0 && fails(cand) {
				cur = cand
				if n > 2 {
					n--
				}
				reduced = true
				break
			}
		}
		if !reduced {
			if chunk == 1 {
				break
			}
			n *= 2
			if n > len(cur) {
				n = len(cur)
			}
		}
	}
	return cur
}

// HistoryLoop is the common driver: generate, run, compare, shrink, report.
func HistoryLoop(rep *Report, rng *Rng, n int, gen func(r *Rng, i int) (RunCfg, []Op, string), classify func(m *Mismatch, ops []Op) string) {
	if flagDeep {
		n *= 4
	}
	for i := 0; i < n; i++ {
		r := rng.Fork()
		cfg, ops, desc := gen(r, i)
		w, obs, m := RunOps(cfg, ops)
		rep.Evaluations++
		rep.CountOps(ops)
		if len(ops) >= 8 {
			rep.Distinct(sigOf(ops))
		}
		if i < 2 {
			k := len(ops)
			if k > 12 {
				k = 12
			}
			rep.Sample(map[string]interface{}{"config": desc, "ops_head": opsString(ops[:k]), "observations_head": obs[:min(len(obs), k)], "n_ops": len(ops)})
		}
		if m == nil && dmodelOn && cfg.FileBacked && cfg.Digests {
			if dm := DModelMismatch(ops, obs, w.Digests); dm != nil {
				small := Shrink(ops, func(c []Op) bool {
					w2, o2, m2 := RunOps(cfg, c)
					return m2 == nil && DModelMismatch(c, o2, w2.Digests) != nil
				})
				w2, o2, m2 := RunOps(cfg, small)
				if m2 == nil {
					if d3 := DModelMismatch(small, o2, w2.Digests); d3 != nil {
						dm = d3
					} else {
						small = ops
					}
				} else {
					small = ops
				}
				rep.Violation("", true, map[string]interface{}{"config": desc, "ops": opsString(small), "mismatch": dm,
					"broken": "byte-exact correspondence between the implementation's file and the Coq model DStore (flush_bytes / decode_store / revert_bytes); the theorems of C02, C03, C08, C14 are about that model"})
				if len(rep.Violations) >= 3 {
					return
				}
			}
			dmodelSteps += len(ops)
		}
		if m == nil && modelOn {
			mm, n := ModelMismatch(cfg.FileBacked, ops, obs)
			modelSteps += n
			if mm != nil {
				// a correspondence break that the property-level oracle did not see:
				// shrink on the correspondence and report it as such
				small := Shrink(ops, func(c []Op) bool {
					_, o2, m2 := RunOps(cfg, c)
					if m2 != nil {
						return false
					}
					m3, _ := ModelMismatch(cfg.FileBacked, c, o2)
					return m3 != nil
				})
				_, o2, _ := RunOps(cfg, small)
				if m3, _ := ModelMismatch(cfg.FileBacked, small, o2); m3 != nil {
					mm = m3
				} else {
					small = ops
				}
				rep.Violation("", true, map[string]interface{}{"config": desc, "ops": opsString(small), "mismatch": mm,
					"broken": "correspondence between the implementation and the Coq model Store.run (the theorems of this property are about that model)"})
				if len(rep.Violations) >= 3 {
					return
				}
			}
		}
		if m == nil {
			continue
		}
		if m.Kind == "hang" {
			key := ""
			if classify != nil {
				key = classify(m, ops)
			}
			rep.Violation(key, false, map[string]interface{}{"config": desc, "ops": opsString(ops[:m.Step+1]), "mismatch": m})
			// a spinning goroutine cannot be stopped: finish now
			code := rep.Finish()
			if code == 0 {
				os.Exit(0)
			}
			os.Exit(code)
		}
		_ = w
		rep.Pending(map[string]interface{}{"config": desc, "ops": opsString(ops[:min(len(ops), m.Step+1)]), "mismatch": m})
		kind := m.Kind
		small := Shrink(ops[:min(len(ops), m.Step+1)], func(c []Op) bool {
			_, _, m2 := RunOps(cfg, c)
			return m2 != nil && m2.Kind == kind && m2.Kind != "hang"
		})
		_, _, m3 := RunOps(cfg, small)
		if m3 == nil {
			m3 = m
			small = ops[:m.Step+1]
		}
		key := ""
		if classify != nil {
			key = classify(m3, small)
		}
		rep.Violation(key, false, map[string]interface{}{"config": desc, "ops": opsString(small), "mismatch": m3, "original_len": len(ops)})
		if len(rep.Violations) >= 3 {
			return
		}
	}
}

var dmodelOn bool
var dmodelSteps int
var modelOn bool
var modelSteps int

func sigOf(ops []Op) string {
	var sb strings.Builder
	for _, o := range ops {
		sb.WriteString(o.K)
		sb.WriteByte(' ')
		sb.Write(o.Key)
		sb.WriteByte(0)
	}
	return fmt.Sprintf("%x", fnv64(sb.String()))
}

func fnv64(s string) uint64 {
	h := uint64(14695981039346656037)
	for i := 0; i < len(s); i++ {
		h ^= uint64(s[i])
		h *= 1099511628211
	}
	return h
}

func min(a, b int) int {
	if a < b {
		return a
	}
	return b
}

var _ = bytes.Equal
