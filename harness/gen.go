package main

import (
	"bytes"
)

// GenCfg steers the shared history generator.
type GenCfg struct {
	FileBacked bool
	NColls     int
	NOps       int
	CmpMode    int  // 0: all bytes.Compare; 1: per-collection random comparator
	Invalid    bool // include the malformed stream (invalid items)
	Structural bool // flush / evict / reopen
	CollMgmt   bool // SetCollection / RemoveCollection in the middle
	Visits     bool
	Revert     bool
	BigVals    bool
	PrioMode   int // 0 tiny range (ties), 1 increasing, 2 random int31, 3 distinct small
	NKeys      int // size of the key pool (0: 6..15)
}

var magicBeg = []byte("0g1t2r")
var magicEnd = []byte("3e4a5p")

type genState struct {
	r      *Rng
	cfg    GenCfg
	names  []string
	keys   [][]byte
	nextP  int32
	usedP  map[int32]bool
	colls  map[string]bool
	cmpOf  map[string]int
	shadow map[string]map[string]int32 // approximate contents: name -> key -> priority
	shadowV map[string]map[string][]byte // ... and the value last written
	// once a Flush may have persisted a collection under some comparator, the name keeps it (the application
	// must supply the comparator the data was built with when the file is loaded again)
	everFlushed bool
}

func (g *genState) track(o Op) {
	switch o.K {
	case "set":
		if itemValid(o.Key, o.Val, o.Prio) {
			if g.shadow[o.Name] == nil {
				g.shadow[o.Name] = map[string]int32{}
			}
			g.shadow[o.Name][string(o.Key)] = o.Prio
			if g.shadowV == nil {
				g.shadowV = map[string]map[string][]byte{}
			}
			if g.shadowV[o.Name] == nil {
				g.shadowV[o.Name] = map[string][]byte{}
			}
			g.shadowV[o.Name][string(o.Key)] = o.Val
		}
	case "del":
		delete(g.shadow[o.Name], string(o.Key))
	case "rmcoll":
		delete(g.shadow, o.Name)
	case "flush":
		g.everFlushed = true
	}
}

// rootKey guesses the key at the root of the treap (highest priority).
func (g *genState) rootKey(name string) []byte {
	var best []byte
	bp := int32(-1)
	for k, p := range g.shadow[name] {
		if p > bp || (p == bp && k > string(best)) {
			bp, best = p, []byte(k)
		}
	}
	return best
}

var collNamePool = []string{"a", "b", "c0", "x y", "q\"uote", "back\\slash", "<tag>&", "Zed", "", "name-with-long-text-0123456789",
	"idx\x00users\x00by-mail", "tab\tnl\nq\"<&>", "del\x7f"}

func genKeyPool(r *Rng, fold bool, nkeys int) [][]byte {
	var pool [][]byte
	n := 6 + r.Intn(10)
	if nkeys > 0 {
		n = nkeys
	}
	for len(pool) < n {
		var k []byte
		switch r.Intn(10) {
		case 0, 1, 2, 3:
			k = []byte{byte('a' + r.Intn(8))}
			if n > 12 {
				k = []byte{byte('a' + r.Intn(26)), byte('a' + r.Intn(26))}
			}
		case 4:
			k = []byte{byte('a' + r.Intn(4)), byte('a' + r.Intn(4))}
		case 5:
			if fold {
				k = []byte{byte('A' + r.Intn(8))}
			} else {
				k = []byte{byte(r.Intn(256))}
			}
		case 6:
			k = []byte{0x00, byte(r.Intn(3))}
		case 7:
			k = []byte{0xff, byte(0xfd + r.Intn(3))}
		case 8:
			l := 1 + r.Intn(6)
			k = make([]byte, l)
			for i := range k {
				k[i] = byte(r.Intn(256))
			}
		case 9:
			// a prefix / extension of an existing key
			if len(pool) > 0 {
				b := pool[r.Intn(len(pool))]
				if r.Chance(1, 2) && len(b) > 1 {
					k = append([]byte{}, b[:len(b)-1]...)
				} else {
					k = append(append([]byte{}, b...), byte(r.Intn(256)))
				}
			} else {
				k = []byte("k")
			}
		}
		dup := false
		for _, p := range pool {
			if bytes.Equal(p, k) {
				dup = true
			}
		}
		if !dup {
			pool = append(pool, k)
		}
	}
	if r.Chance(1, 6) {
		l := 200 + r.Intn(400)
		k := make([]byte, l)
		for i := range k {
			k[i] = byte('0' + r.Intn(10))
		}
		pool = append(pool, k)
	}
	if r.Chance(1, 40) {
		k := make([]byte, 65535)
		for i := range k {
			k[i] = byte(r.Intn(256))
		}
		pool = append(pool, k)
	}
	return pool
}

func genVal(r *Rng, big bool) []byte {
	switch r.Intn(12) {
	case 0:
		return []byte{}
	case 1:
		return append(append([]byte{}, magicEnd...), magicEnd...)
	case 2:
		return append(append([]byte("x"), magicBeg...), magicBeg...)
	case 3:
		if big {
			v := make([]byte, 1000+r.Intn(4000))
			for i := range v {
				v[i] = byte(r.Intn(256))
			}
			return v
		}
	}
	l := 1 + r.Intn(8)
	v := make([]byte, l)
	for i := range v {
		v[i] = byte(r.Intn(256))
	}
	return v
}

func (g *genState) prio() int32 {
	switch g.cfg.PrioMode {
	case 0:
		return int32(g.r.Intn(4))
	case 1:
		g.nextP++
		return g.nextP
	case 2:
		return int32(g.r.U64() & 0x7fffffff)
	default:
		for {
			p := int32(g.r.Intn(100000))
			if !g.usedP[p] {
				g.usedP[p] = true
				return p
			}
		}
	}
}

func (g *genState) key() []byte { return g.keys[g.r.Intn(len(g.keys))] }

func (g *genState) liveName() string {
	var ns []string
	for _, n := range g.names {
		if g.colls[n] {
			ns = append(ns, n)
		}
	}
	if len(ns) == 0 {
		return g.names[0]
	}
	return ns[g.r.Intn(len(ns))]
}

// GenHistory produces one history for the writable store (H=0).
func GenHistory(r *Rng, cfg GenCfg) []Op {
	g := &genState{r: r, cfg: cfg, usedP: map[int32]bool{}, colls: map[string]bool{}, cmpOf: map[string]int{}, shadow: map[string]map[string]int32{}}
	tracked := 0
	perm := make([]int, len(collNamePool))
	for i := range perm {
		perm[i] = i
	}
	for i := range perm {
		j := r.Intn(i + 1)
		perm[i], perm[j] = perm[j], perm[i]
	}
	for i := 0; i < cfg.NColls && i < len(perm); i++ {
		g.names = append(g.names, collNamePool[perm[i]])
	}
	fold := false
	var ops []Op
	for _, n := range g.names {
		cmp := 0
		if cfg.CmpMode == 1 {
			cmp = r.Intn(4)
		}
		if cmp == 3 {
			fold = true
		}
		g.cmpOf[n] = cmp
		g.colls[n] = true
		ops = append(ops, Op{K: "coll", Name: n, N: cmp})
	}
	g.keys = genKeyPool(r, fold, cfg.NKeys)
	for len(ops) < cfg.NOps {
		for ; tracked < len(ops); tracked++ {
			g.track(ops[tracked])
		}
		n := g.liveName()
		x := r.Intn(100)
		switch {
		case x < 34:
			op := Op{K: "set", Name: n, Key: g.key(), Val: genVal(r, cfg.BigVals), Prio: g.prio()}
			if old, ok := g.shadowV[n][string(op.Key)]; ok && len(old) > 0 && r.Chance(1, 5) {
				// overwrite with a value of the same length that differs only in its last byte
				// (or not at all), keeping or changing the priority
				v := append([]byte{}, old...)
				if r.Chance(3, 4) {
					v[len(v)-1] ^= byte(1 + r.Intn(255))
				}
				op.Val = v
				if r.Chance(1, 2) {
					op.Prio = g.shadow[n][string(op.Key)]
				}
			}
			if cfg.Invalid && r.Chance(1, 12) {
				switch r.Intn(5) {
				case 0:
					op.Key = []byte{}
				case 1:
					op.Key = nil
				case 2:
					op.Val = nil
				case 3:
					op.Prio = -1 - int32(r.Intn(5))
				case 4:
					op.Key = make([]byte, 65536)
				}
			}
			ops = append(ops, op)
		case x < 46:
			ops = append(ops, Op{K: "del", Name: n, Key: g.key()})
			if r.Chance(1, 12) {
				// the application looks at a handle's JSON form (json.Marshal(coll)) between mutations and flushes
				ops = append(ops, Op{K: "cjson", Name: n})
			}
			if cfg.Invalid && r.Chance(1, 10) {
				ops = append(ops, Op{K: "setnil", Name: n, Key: g.key()})
			}
		case x < 54:
			ops = append(ops, Op{K: "get", Name: n, Key: g.key()})
		case x < 60:
			ops = append(ops, Op{K: "geti", Name: n, Key: g.key(), WV: r.Chance(1, 2)})
		case x < 63:
			ops = append(ops, Op{K: "exist", Name: n, Key: g.key()})
		case x < 67:
			ops = append(ops, Op{K: []string{"min", "max"}[r.Intn(2)], Name: n, WV: r.Chance(1, 2)})
		case x < 72:
			if r.Chance(1, 3) {
				ops = append(ops, Op{K: "len", Name: n})
			} else {
				ops = append(ops, Op{K: "tot", Name: n})
			}
		case x < 80:
			if cfg.Structural {
				switch r.Intn(5) {
				case 4:
					// the smallest possible change between two flushes: nothing, one delete of the
					// treap's root or of some key, one overwrite with the same or another value
					ops = append(ops, Op{K: "flush"})
					switch r.Intn(5) {
					case 0:
						if k := g.rootKey(n); k != nil {
							ops = append(ops, Op{K: "del", Name: n, Key: k})
						}
					case 1:
						ops = append(ops, Op{K: "del", Name: n, Key: g.key()})
					case 2:
						ops = append(ops, Op{K: "set", Name: n, Key: g.key(), Val: genVal(r, false), Prio: g.prio()})
					case 3:
						if k := g.rootKey(n); k != nil {
							ops = append(ops, Op{K: "set", Name: n, Key: k, Val: genVal(r, false), Prio: g.shadow[n][string(k)]})
						}
					}
					ops = append(ops, Op{K: "flush"})
					if cfg.FileBacked && r.Chance(1, 3) {
						ops = append(ops, Op{K: "reopen"})
					}
				case 0, 1:
					ops = append(ops, Op{K: "flush"})
				case 2:
					ops = append(ops, Op{K: "evict", Name: n})
				case 3:
					if cfg.FileBacked {
						ops = append(ops, Op{K: "reopen"})
						if r.Chance(1, 2) {
							// mutations on a store with nothing loaded: deletes and overwrites of keys deep in the tree
							for j := 0; j < 1+r.Intn(4); j++ {
								if r.Chance(2, 3) {
									ops = append(ops, Op{K: "del", Name: n, Key: g.key()})
								} else {
									ops = append(ops, Op{K: "set", Name: n, Key: g.key(), Val: genVal(r, false), Prio: g.prio()})
								}
							}
							ops = append(ops, Op{K: "tot", Name: n})
							if r.Chance(1, 2) {
								ops = append(ops, Op{K: "flush"}, Op{K: "reopen"}, Op{K: "tot", Name: n})
							}
						}
					}
				}
			}
		case x < 88:
			if cfg.Visits {
				k := []string{"asc", "desc", "ascx", "descx", "itasc", "itdesc", "nasc", "ndesc", "nit"}[r.Intn(9)]
				stop := -1
				if r.Chance(1, 2) {
					stop = r.Intn(5)
				}
				tgt := g.key()
				if r.Chance(1, 5) {
					tgt = []byte{}
				}
				ops = append(ops, Op{K: k, Name: n, Key: tgt, WV: r.Chance(1, 2), N: stop})
			}
		case x < 92:
			if cfg.CollMgmt {
				nm := g.names[r.Intn(len(g.names))]
				switch r.Intn(4) {
				case 0:
					ops = append(ops, Op{K: "rmcoll", Name: nm})
					g.colls[nm] = false
				case 1, 2:
					// same comparator: the tree's order stays meaningful; on a collection without items any
					// comparator may be installed (SetCollection "installs the new comparator")
					back := false
					if cfg.CmpMode == 1 && len(g.shadow[nm]) == 0 && !g.everFlushed && r.Chance(1, 2) {
						old := g.cmpOf[nm]
						g.cmpOf[nm] = r.Intn(4)
						if old != 0 && r.Chance(1, 3) {
							g.cmpOf[nm] = 0 // back to the default order (the harness passes nil for it)
						}
						back = g.cmpOf[nm] != old // another comparator on an existing name: make the new order observable at once
					}
					ops = append(ops, Op{K: "coll", Name: nm, N: g.cmpOf[nm]})
					g.colls[nm] = true
					if back {
						// make the order observable at once
						for j := 0; j < 3; j++ {
							ops = append(ops, Op{K: "set", Name: nm, Key: g.key(), Val: genVal(r, false), Prio: g.prio()})
						}
						ops = append(ops, Op{K: "asc", Name: nm, Key: []byte{}, WV: true, N: -1})
					}
				case 3:
					ops = append(ops, Op{K: "names"})
				}
				if cfg.Structural && cfg.FileBacked && r.Chance(1, 3) {
					// a change of the NAME SET only between two flushes (the number of collections may stay the same)
					ops = append(ops, Op{K: "flush"})
					switch r.Intn(3) {
					case 0:
						ops = append(ops, Op{K: "rmcoll", Name: nm}, Op{K: "coll", Name: nm, N: g.cmpOf[nm]})
						delete(g.shadow, nm)
						g.colls[nm] = true
					case 1:
						other := collNamePool[r.Intn(len(collNamePool))]
						ops = append(ops, Op{K: "rmcoll", Name: nm}, Op{K: "coll", Name: other, N: g.cmpOf[other]})
						delete(g.shadow, nm)
						g.colls[nm] = false
					case 2:
						ops = append(ops, Op{K: "rmcoll", Name: nm})
						delete(g.shadow, nm)
						g.colls[nm] = false
					}
					ops = append(ops, Op{K: "flush"}, Op{K: "names"}, Op{K: "reopen"}, Op{K: "names"})
				}
				if cfg.FileBacked && cfg.CmpMode == 1 && g.colls[nm] && g.cmpOf[nm] != 0 && r.Chance(1, 2) {
					// a collection with its own key order that is EMPTY when the file is loaded: removed, re-created, flushed,
					// re-opened; the items set afterwards must be ordered by the comparator supplied at load time
					ops = append(ops, Op{K: "rmcoll", Name: nm}, Op{K: "coll", Name: nm, N: g.cmpOf[nm]}, Op{K: "flush"}, Op{K: "reopen"})
					delete(g.shadow, nm)
					for j := 0; j < 4; j++ {
						ops = append(ops, Op{K: "set", Name: nm, Key: g.key(), Val: genVal(r, false), Prio: g.prio()})
					}
					ops = append(ops, Op{K: "asc", Name: nm, Key: []byte{}, WV: true, N: -1}, Op{K: "min", Name: nm, WV: false}, Op{K: "max", Name: nm, WV: false})
				}
			}
		case x < 94:
			if cfg.Revert && cfg.FileBacked && r.Chance(1, 3) {
				// Flush, FlushRevert, the reverted mutations done again (the same bytes land on the same offsets),
				// Flush, re-open: the redone Flush must be durable like any other
				j := len(ops) - 1
				for j >= 0 && ops[j].K != "flush" && ops[j].K != "reopen" && ops[j].K != "revert" {
					j--
				}
				var redo []Op
				for _, o := range ops[j+1:] {
					if o.K == "set" || o.K == "del" {
						redo = append(redo, o)
					}
				}
				if len(redo) > 0 && len(redo) <= 6 {
					ops = append(ops, Op{K: "flush"}, Op{K: "revert"})
					ops = append(ops, redo...)
					ops = append(ops, Op{K: "flush"}, Op{K: "reopen"}, Op{K: "names"})
					for _, nm := range g.names {
						g.colls[nm] = true
					}
					break
				}
			}
			if cfg.Revert && cfg.FileBacked {
				ops = append(ops, Op{K: "revert"})
				// after a revert the handles are re-fetched by name; collections may be gone
				for _, nm := range g.names {
					g.colls[nm] = true // ops on missing collections yield "nocoll" on both sides
				}
			}
		default:
			ops = append(ops, Op{K: "names"})
		}
	}
	return ops
}
