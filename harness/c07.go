package main

import (
	"time"
	"bytes"
	"crypto/md5"
	"encoding/json"
	"fmt"
	"os"
	"strings"

	"github.com/cbehopkins/gkvlite"
)

func init() {
	checks["C07"] = checkC07
	replayFns["C07"] = replayC07
}

// faultSpec: at history step Step make the K-th file call fail; a
// failing write still stores Torn bytes.  K==0 means: enumerate every
// K=1,2,.. (and torn lengths) until the call completes without fault.
type faultSpec struct {
	Step int `json:"step"`
	K    int `json:"k"`
	Torn int `json:"torn"`
	// NoRetry: after the failed attempt the call is not repeated (otherwise the
	// same call is made again, fault-free, right after the failed attempt)
	NoRetry bool `json:"no_retry"`
}

type c07Case struct {
	Ops       []string    `json:"ops"`
	Plan      []faultSpec `json:"plan"`
	Immediate bool        `json:"immediate_verification"`
	AllTorn   bool        `json:"all_torn_lengths"`
	ModelTie  bool        `json:"model_tie"` // compare the whole run with DFaultRun.dfrun (failed Flush calls modelled byte for byte)
}

type c07Stats struct {
	Attempts   int
	Fired      int
	ByKind     map[string]int
	ByOp       map[string]int
	TornWrites int
	Known      map[string]int // known-finding keys hit (classified precisely by the run)
}

func errorLike(op Op, obs string) bool {
	if obs == "err" {
		return true
	}
	if strings.HasPrefix(obs, "vs") && strings.HasSuffix(obs, " err") {
		return true
	}
	return false
}

// runC07 executes a fault plan.  It returns the first violation.
// c07Profile runs the history fault-free and returns, per step, the
// file calls it made (kind and length), for planning the enumeration.
func c07Profile(c c07Case) [][]IOEvent {
	var prof [][]IOEvent
	c.Plan = nil
	c.Immediate = false
	c.ModelTie = false
	runC07x(c, &c07Stats{ByKind: map[string]int{}, ByOp: map[string]int{}}, &prof)
	return prof
}

func runC07(c c07Case, st *c07Stats) *Mismatch { return runC07x(c, st, nil) }

func runC07x(c c07Case, st *c07Stats, prof *[][]IOEvent) *Mismatch {
	var ops []Op
	for _, s := range c.Ops {
		ops = append(ops, ParseOp(s))
	}
	plan := map[int][]faultSpec{}
	for _, f := range c.Plan {
		plan[f.Step] = append(plan[f.Step], f)
	}
	w, cmpOf := newWorldFor(RunCfg{FileBacked: true})
	_ = cmpOf
	dirtyTail := false // a failed Flush advanced the store size past the last root record
	var frecs []frec
	modelable := c.ModelTie
	// read side of the fault model (LazyFault): a key-only lookup right after a re-open whose k-th ReadAt fails,
	// and the retried call
	fresh := false
	type pendingRF struct {
		op      Op
		k       int
		attempt string
		img     []byte
	}
	var pend *pendingRF
	readList := func(evs []IOEvent) (string, bool) {
		parts := []string{"r"}
		for _, e := range evs {
			if e.Kind != 'R' {
				return "", false
			}
			parts = append(parts, fmt.Sprintf("%d:%d", e.Off, e.Len))
		}
		return strings.Join(parts, " "), true
	}
	digest := func() string {
		b := w.File.Bytes()
		return fmt.Sprintf("%d %x", len(b), md5.Sum(b))
	}
	record := func(op Op, obs string) {
		if !modelable {
			return
		}
		if op.H != 0 {
			modelable = false
			return
		}
		frecs = append(frecs, frec{Line: op.String(), Op: op, Obs: obs, Digest: digest()})
	}
	verify := func(i int, op Op, what string) *Mismatch {
		for hi, h := range w.H {
			if h.Closed {
				continue
			}
			d := w.DumpImpl(hi)
			if w.Hang {
				return &Mismatch{Step: i, Op: op.String(), Kind: "hang", Expected: "(termination)", Observed: "HANG reading contents " + what}
			}
			if d == "PANIC" {
				return &Mismatch{Step: i, Op: op.String(), Kind: "panic", Expected: h.Ref.dump(), Observed: "PANIC: " + w.Panic, Note: fmt.Sprintf("reading handle %d %s", hi, what)}
			}
			if e := h.Ref.dump(); e != d {
				return &Mismatch{Step: i, Op: op.String(), Kind: "dump", Expected: e, Observed: d, Note: fmt.Sprintf("contents of handle %d %s", hi, what)}
			}
		}
		return checkReopenImage(w, cmpOf, i, op)
	}
	attempt := func(i int, op Op, k, torn int) (obs string, fired bool, tornLen int, m *Mismatch) {
		s := w.H[op.H].Store
		sizeB := gkvlite.VerifStoreSize(w.H[0].Store)
		sizeB0 := sizeB
		before := w.File.Bytes()
		if int64(len(before)) < sizeB {
			sizeB = int64(len(before))
		}
		_ = s
		l0 := w.File.LogLen()
		w.File.Arm(k, torn, false)
		obs = w.Do(op)
		fired = w.File.Failed() > 0
		w.File.Arm(0, 0, false)
		st.Attempts++
		if !w.Hang && obs != "PANIC" {
			if m := w.IO.checkIO(op, obs, w.File.LogFrom(l0), op.H == 0); m != nil {
				m.Step, m.Op = i, op.String()
				m.Note = fmt.Sprintf("file call %d of this call made to fail (torn=%d)", k, torn)
				return obs, fired, 0, m
			}
		}
		if false {
			for _, e := range w.File.LogFrom(l0) {
				fmt.Printf("  step %d k=%d torn=%d: %c off=%d len=%d fail=%v sizeB=%d\n", i, k, torn, e.Kind, e.Off, e.Len, e.Fail, e.SizeB)
			}
			fmt.Printf("  -> %s size=%d filelen=%d\n", obs, gkvlite.VerifStoreSize(w.H[0].Store), w.File.Len())
		}
		if w.Hang {
			return obs, fired, 0, &Mismatch{Step: i, Op: op.String(), Kind: "hang", Expected: "(termination)", Observed: fmt.Sprintf("HANG with file call %d failing", k)}
		}
		if obs == "PANIC" {
			return obs, fired, 0, &Mismatch{Step: i, Op: op.String(), Kind: "panic", Expected: "an error return", Observed: "PANIC: " + w.Panic, Note: fmt.Sprintf("file call %d of this call was made to fail (torn=%d)", k, torn)}
		}
		if !fired {
			return obs, false, 0, nil
		}
		st.Fired++
		st.ByOp[op.K]++
		for _, e := range w.File.LogFrom(l0) {
			if e.Fail {
				st.ByKind[string(e.Kind)]++
				if e.Kind == 'W' {
					tornLen = e.Len
					if torn > 0 {
						st.TornWrites++
					}
				}
			}
		}
		if op.K == "flush" && op.H == 0 && gkvlite.VerifStoreSize(w.H[0].Store) != sizeB0 {
			dirtyTail = true
		}
		if c.ModelTie && fresh && op.K == "geti" && !op.WV && op.H == 0 {
			evs := w.File.LogFrom(l0)
			if rl, ok := readList(evs); ok && len(evs) > 0 && evs[len(evs)-1].Fail {
				pend = &pendingRF{op: op, k: len(evs) - 1, attempt: rl, img: w.File.Bytes()}
			}
		}
		if modelable {
			if op.K == "flush" && op.H == 0 {
				kw, tl, ok := 0, 0, false
				for _, e := range w.File.LogFrom(l0) {
					if e.Kind != 'W' {
						ok = false
						break
					}
					if e.Fail {
						tl, ok = len(e.Data), true
						break
					}
					kw++
				}
				if ok {
					frecs = append(frecs, frec{Line: fmt.Sprintf("flushfail %d %d", kw, tl), Op: op, Fail: true, Obs: "err", Digest: digest()})
				} else {
					modelable = false
				}
			} else if op.K == "flush" || op.K == "reopen" {
				modelable = false // a failed re-open / snapshot-side call: outside the fault model
			}
		}
		if !errorLike(op, obs) {
			return obs, true, tornLen, &Mismatch{Step: i, Op: op.String(), Kind: "swallowed", Expected: "an error return (file call failed)", Observed: obs, Note: fmt.Sprintf("file call %d of this call was made to fail (torn=%d) but the call reported success", k, torn)}
		}
		after := w.File.Bytes()
		if int64(len(after)) < sizeB || !bytes.Equal(after[:sizeB], before[:sizeB]) {
			return obs, true, tornLen, &Mismatch{Step: i, Op: op.String(), Kind: "durable-damaged", Expected: fmt.Sprintf("the first %d bytes of the file unchanged by a failed call", sizeB), Observed: fmt.Sprintf("file length %d -> %d or bytes differ", len(before), len(after))}
		}
		if op.K == "revert" && op.H == 0 {
			// the store is only specified again after a re-open
			if r := w.Do(Op{K: "reopen"}); r != "ok" {
				return obs, true, tornLen, &Mismatch{Step: i, Op: op.String(), Kind: "reopen-after-failed-revert", Expected: "ok", Observed: r}
			}
			w.Expect(Op{K: "reopen"})
			record(Op{K: "reopen"}, "ok")
		}
		if hm := checkHeap(w); hm != nil && !heapCheckOff {
			hm.Step, hm.Op = i, op.String()
			hm.Note = fmt.Sprintf("after the failed call (file call %d failed, torn=%d)", k, torn)
			return obs, true, tornLen, hm
		}
		if c.Immediate {
			if m := verify(i, op, fmt.Sprintf("after the failed call (file call %d failed, torn=%d)", k, torn)); m != nil {
				return obs, true, tornLen, m
			}
		}
		return obs, true, tornLen, nil
	}
	finish := func(i int, op Op, got string, note string) *Mismatch {
		if op.K == "reopen" && op.H == 0 && got == "err" && len(w.Flushed) == 0 && w.File.Len() > 0 {
			// bytes in the file (a failed first Flush) but no Flush ever completed: the documented
			// "no roots" error is the right answer; the store in use stays as it is
			return nil
		}
		if op.H == 0 && got == "ok" && (op.K == "flush" || op.K == "reopen") {
			dirtyTail = false
		}
		if op.K == "revert" && op.H == 0 && got == "ok" && dirtyTail && len(w.Flushed) > 0 {
			// A failed Flush left data after the last root record.  The property asks
			// for the state of the Flush before the last completed one; the code is
			// known to return to the last completed one (known finding).  Accept
			// exactly that alternative, report it, and keep checking everything else.
			dirtyTail = false
			lenient := w.Flushed[len(w.Flushed)-1]
			d := w.DumpImpl(0)
			strict := NewRefStore()
			if len(w.Flushed) > 1 {
				strict = w.Flushed[len(w.Flushed)-2]
			}
			if d == lenient.dump() && d != strict.dump() {
				if st.Known == nil {
					st.Known = map[string]int{}
				}
				st.Known["revert-after-failed-flush"]++
				w.H[0].Ref = lenient.clone()
				return nil
			}
		}
		if op.K == "revert" && op.H == 0 && got == "ok" {
			dirtyTail = false
		}
		if w.Hang {
			return &Mismatch{Step: i, Op: op.String(), Kind: "hang", Expected: "(termination)", Observed: "HANG"}
		}
		if got == "PANIC" {
			return &Mismatch{Step: i, Op: op.String(), Kind: "panic", Expected: "(no panic)", Observed: "PANIC: " + w.Panic, Note: note}
		}
		exp := w.Expect(op)
		if op.K == "ascx" || op.K == "descx" {
			got = stripDepth(got)
		}
		if exp != got {
			return &Mismatch{Step: i, Op: op.String(), Kind: "obs", Expected: exp, Observed: got, Note: note}
		}
		return nil
	}
	for i, op := range ops {
		if op.H >= len(w.H) || w.H[op.H].Closed {
			continue
		}
		done := false
		lastGot := ""
		for _, sp := range plan[i] {
			if done {
				break
			}
			obs, fired, _, m := attempt(i, op, sp.K, sp.Torn)
			if m != nil {
				return m
			}
			if !fired {
				lastGot = obs
				record(op, obs)
				if m := finish(i, op, obs, "call whose planned fault position was not reached"); m != nil {
					return m
				}
				done = true
			} else if sp.NoRetry {
				done = true
			}
		}
		if !done {
			l0 := w.File.LogLen()
			got := w.Do(op)
			lastGot = got
			if !w.Hang && got != "PANIC" {
				if m := w.IO.checkIO(op, got, w.File.LogFrom(l0), op.H == 0); m != nil {
					m.Step, m.Op = i, op.String()
					return m
				}
			}
			if prof != nil {
				for len(*prof) < i {
					*prof = append(*prof, nil)
				}
				*prof = append(*prof, w.File.LogFrom(l0))
			}
			record(op, got)
			if pend != nil {
				if pend.op.String() == op.String() {
					if rl, ok := readList(w.File.LogFrom(l0)); ok {
						rc := w.H[0].Ref.Colls[op.Name]
						if rc != nil {
							exp, err := getModel().request(fmt.Sprintf("faultreads %d %s %s %d %s", rc.Cmp, hx([]byte(op.Name)), hx(op.Key), pend.k, hexFile(pend.img)))
							if err == nil {
								readFaultsCompared++
								if want := "failed " + pend.attempt + " | " + rl; exp != want {
									return &Mismatch{Step: i, Op: op.String(), Kind: "fault-reads-vs-model", Expected: exp, Observed: want,
										Note: fmt.Sprintf("ReadAt calls of the lookup whose call %d failed, and of the retried lookup, vs LazyFault.get_fault_reads", pend.k)}
								}
							}
						}
					}
				}
				pend = nil
			}
			if m := finish(i, op, got, "fault-free call (possibly after earlier failed calls)"); m != nil {
				return m
			}
		}
		fresh = op.K == "reopen" && op.H == 0 && lastGot == "ok"
	}
	if m := verify(len(ops), Op{K: "end"}, "at the end of the history"); m != nil {
		return m
	}
	if modelable && len(frecs) > 0 {
		if m := DFModelMismatch(frecs); m != nil {
			return m
		}
	}
	return nil
}

func genC07(r *Rng, immediate bool) c07Case {
	// phase 1: populate and flush; phase 2: re-open (nothing cached) and operate under faults
	g := GenCfg{FileBacked: true, NColls: 1 + r.Intn(2), NOps: 20 + r.Intn(120), PrioMode: 2 + r.Intn(2), Structural: false, NKeys: 10 + r.Intn(50)}
	ops := GenHistory(r, g)
	ops = append(ops, Op{K: "flush"})
	if r.Chance(1, 2) {
		more := GenHistory(r, GenCfg{FileBacked: true, NColls: 1, NOps: 10, PrioMode: 3})
		for _, o := range more {
			if o.K == "coll" {
				continue
			}
			o.Name = ops[0].Name
			ops = append(ops, o)
		}
		ops = append(ops, Op{K: "flush"})
	}
	ops = append(ops, Op{K: "reopen"})
	start := len(ops)
	g2 := GenCfg{FileBacked: true, NColls: 1, NOps: 12 + r.Intn(25), PrioMode: 3, Structural: false, Visits: true}
	names := []string{}
	for _, o := range ops {
		if o.K == "coll" {
			names = append(names, o.Name)
		}
	}
	// reuse keys of phase 1 so that the operations touch persisted items
	var keys [][]byte
	for _, o := range ops {
		if o.K == "set" && len(o.Key) > 0 {
			keys = append(keys, o.Key)
		}
	}
	for _, o := range GenHistory(r, g2) {
		if o.K == "coll" {
			continue
		}
		o.Name = names[r.Intn(len(names))]
		if len(keys) > 0 && r.Chance(3, 4) && (o.K == "set" || o.K == "del" || o.K == "get" || o.K == "geti" || o.K == "exist" || o.K == "asc" || o.K == "desc") {
			o.Key = keys[r.Intn(len(keys))]
		}
		if o.K == "set" {
			o.Prio = int32(r.U64() & 0x7fffffff)
		}
		ops = append(ops, o)
		switch r.Intn(14) {
		case 0:
			ops = append(ops, Op{K: "flush"})
		case 1:
			ops = append(ops, Op{K: "reopen"})
		case 2:
			if r.Chance(1, 3) {
				ops = append(ops, Op{K: "revert"})
			}
		}
	}
	ops = append(ops, Op{K: "flush"})
	c := c07Case{Ops: opsString(ops), Immediate: immediate}
	if !immediate {
		for i := start - 1; i < len(ops); i++ {
			if r.Chance(1, 2) {
				kmax := 12
				if r.Chance(1, 2) {
					kmax = 40
				}
				c.Plan = append(c.Plan, faultSpec{Step: i, K: 1 + r.Intn(kmax), Torn: r.Intn(3), NoRetry: r.Chance(1, 2)})
			}
		}
	} else {
		c.Plan = []faultSpec{{Step: start - 1 + r.Intn(len(ops)-start+1), K: 0}}
	}
	return c
}

func checkC07(rep *Report, rng *Rng, tier string) {
	c07Start := time.Now()
	n := 120
	if tier == "thorough" {
		n = 600
	}
	rep.Rule = "fault enumeration on seeded histories over a re-opened (nothing cached) file: (A) for chosen calls every file call k=1..all is made to fail in turn, writes also torn at 1, len/2, len-1 bytes (thorough: every length), each followed by: error returned, no panic/hang, bytes below the store size unchanged, contents of every handle equal to the pre-fault reference, a fresh Store on a copy of the image shows the last Flush; (B) random single faults on about half of the calls of a longer history with the contents verified only at the end (keeps the lazy/unloaded state alive so stale recycling marks surface); fault-free continuation compared with the reference; non-trivial = at least one fault fired, distinct = different history"
	st := &c07Stats{ByKind: map[string]int{}, ByOp: map[string]int{}}
	report := func(c c07Case, m *Mismatch) bool {
		if os.Getenv("VERIF_DEBUG") != "" {
			fmt.Fprintf(os.Stderr, "ORIGINAL mismatch: %+v\nnplan=%d nops=%d\n", *m, len(c.Plan), len(c.Ops))
		}
		rep.Pending(map[string]interface{}{"case": c, "mismatch": m})
		if m.Kind == "hang" {
			rep.Violation("", false, map[string]interface{}{"case": c, "mismatch": m})
			os.Exit(rep.Finish())
		}
		if m.Kind == "marked-node-in-current-tree" {
			// an internal invariant broke: search for a continuation that makes it
			// visible through the API (a later mutation recycles the marked node)
			if c3, m3 := searchVisible(c, m); m3 != nil {
				heapCheckOff = true
				c3 = shrinkC07(c3, m3.Kind)
				m4 := runC07(c3, &c07Stats{ByKind: map[string]int{}, ByOp: map[string]int{}})
				heapCheckOff = false
				if m4 == nil {
					m4 = m3
				}
				rep.Violation("", false, map[string]interface{}{"case": c3, "mismatch": m4, "found_via": m, "note": "replay with VERIF_NO_HEAPCHECK=1 to see the API-visible failure rather than the internal invariant"})
				return len(rep.Violations) >= 3
			}
		}
		c = shrinkC07(c, m.Kind)
		m2 := runC07(c, &c07Stats{ByKind: map[string]int{}, ByOp: map[string]int{}})
		if m2 == nil {
			m2 = m
		}
		if m2.Kind == "marked-node-in-current-tree" {
			{
				rep.Violation("", true, map[string]interface{}{"case": c, "mismatch": m2,
					"broken": "hypothesis of theorem c07_marks_restored / valid_action side condition (no stale reclaim marks in the current tree after a failed call), monitored on the implementation"})
			}
			return len(rep.Violations) >= 3
		}
		key := ""
		if m2.Kind == "swallowed" && strings.HasPrefix(m2.Op, "exist ") {
			key = "exist-swallows-error"
		}
		rep.Violation(key, false, map[string]interface{}{"case": c, "mismatch": m2})
		return len(rep.Violations) >= 3
	}
	// the two listed findings, probed deterministically on every run
	probeOps := func(ops ...Op) []string { return opsString(ops) }
	ex := c07Case{Ops: probeOps(Op{K: "coll", Name: "p"}, Op{K: "set", Name: "p", Key: []byte("k"), Val: []byte("v"), Prio: 1},
		Op{K: "flush"}, Op{K: "reopen"}, Op{K: "exist", Name: "p", Key: []byte("k")}),
		Plan: []faultSpec{{Step: 4, K: 1, NoRetry: true}}}
	if m := runC07(ex, st); m != nil {
		key := ""
		if m.Kind == "swallowed" && strings.HasPrefix(m.Op, "exist ") {
			key = "exist-swallows-error"
		}
		rep.Violation(key, false, map[string]interface{}{"case": ex, "mismatch": m})
	}
	rv := c07Case{Ops: probeOps(Op{K: "coll", Name: "p"}, Op{K: "set", Name: "p", Key: []byte("a"), Val: []byte("1"), Prio: 1},
		Op{K: "flush"}, Op{K: "set", Name: "p", Key: []byte("b"), Val: []byte("2"), Prio: 2}, Op{K: "flush"},
		Op{K: "set", Name: "p", Key: []byte("c"), Val: []byte("3"), Prio: 3}, Op{K: "flush"}, Op{K: "revert"}, Op{K: "names"}),
		Plan: []faultSpec{{Step: 6, K: 3, NoRetry: true}}}
	if m := runC07(rv, st); m != nil {
		rep.Violation("", false, map[string]interface{}{"case": rv, "mismatch": m})
	}
	rep.Evaluations += 2
	budget := 4000 // enumerated runs (mode A)
	if tier == "thorough" {
		budget = 30000
	}
	for i := 0; i < n; i++ {
		r := rng.Fork()
		c := genC07(r, i%2 == 0)
		allTorn := tier == "thorough" && i%8 == 0
		f0 := st.Fired
		if i < 2 {
			rep.Sample(map[string]interface{}{"n_ops": len(c.Ops), "plan": c.Plan, "immediate": c.Immediate, "ops_tail": c.Ops[len(c.Ops)-min(6, len(c.Ops)):]})
		}
		stop := false
		if !c.Immediate {
			rep.Evaluations++
			if m := runC07(c, st); m != nil {
				stop = report(c, m)
			}
		} else if budget > 0 {
			// mode A: every fault position of the chosen call, each on a fresh replay of the history
			step := c.Plan[0].Step
			prof := c07Profile(c)
			if step < len(prof) {
				for k, ev := range prof[step] {
					torns := []int{0}
					if ev.Kind == 'W' && ev.Len > 1 {
						torns = []int{0, 1, ev.Len / 2, ev.Len - 1}
						if allTorn {
							torns = nil
							for t := 0; t < ev.Len && t < 400; t++ {
								torns = append(torns, t)
							}
						}
					}
					for _, t := range torns {
						x := c
						x.Plan = []faultSpec{{Step: step, K: k + 1, Torn: t, NoRetry: (k+t)%2 == 0}}
						rep.Evaluations++
						budget--
						if m := runC07(x, st); m != nil {
							stop = report(x, m)
							break
						}
					}
					if stop || len(rep.Violations) > 0 {
						break
					}
				}
			}
		}
		if st.Fired > f0 {
			rep.Distinct(fmt.Sprint(fnv64(strings.Join(c.Ops, "\n"))))
		}
		if stop {
			break
		}
	}
	rep.Extra["seconds_modes_A_B"] = int(time.Since(c07Start).Seconds())
	// mode C: every WriteAt call of chosen Flush calls made to fail (torn at 0, 1, len/2, len-1), retried or not,
	// also twice in a row; the whole run -- every answer and the bytes of the file after every failed or completed
	// Flush, FlushRevert and re-open -- is compared with the byte-level fault model (DiskFault.flush_fault)
	nC, perC, maxK := 4, 1, 30
	if tier == "thorough" {
		nC, perC, maxK = 10, 2, 1 << 30 // every WriteAt position of the chosen Flush calls, each compared with the byte-level model: ~1 min per Flush
	}
	for i := 0; i < nC && len(rep.Violations) == 0; i++ {
		r := rng.Fork()
		c := genC07(r, true)
		c.ModelTie = true
		prof := c07Profile(c)
		var steps []int
		for si, evs := range prof {
			if si < len(c.Ops) && ParseOp(c.Ops[si]).K == "flush" && len(evs) > 1 {
				steps = append(steps, si)
			}
		}
		for j := 0; j < perC && len(steps) > 0 && len(rep.Violations) == 0; j++ {
			step := steps[r.Intn(len(steps))]
			for k, ev := range prof[step] {
				if len(prof[step]) > maxK && r.Intn(len(prof[step])) >= maxK {
					continue // quick tier: a sample of the call positions of a long Flush
				}
				torns := []int{0}
				if ev.Len > 1 {
					torns = []int{0, 1, ev.Len / 2, ev.Len - 1}
				}
				stop := false
				for _, t := range torns {
					x := c
					x.Plan = []faultSpec{{Step: step, K: k + 1, Torn: t, NoRetry: (k+t)%3 == 0}}
					if (k+t)%4 == 1 {
						// a second failed attempt right after the first, at another call
						x.Plan = append(x.Plan, faultSpec{Step: step, K: 1 + r.Intn(len(prof[step])), Torn: r.Intn(3), NoRetry: r.Chance(1, 2)})
					}
					rep.Evaluations++
					if m := runC07(x, st); m != nil {
						stop = report(x, m)
						break
					}
				}
				if stop || len(rep.Violations) > 0 {
					break
				}
			}
		}
	}
	rep.Extra["seconds_until_end_of_mode_C"] = int(time.Since(c07Start).Seconds())
	// mode D: a key-only lookup right after a re-open (nothing cached) with every one of its ReadAt calls made to fail
	// in turn, then retried: the calls of the failed attempt and of the retry are compared with LazyFault.get_fault_reads
	nD := 6
	if tier == "thorough" {
		nD = 40
	}
	for i := 0; i < nD && len(rep.Violations) == 0; i++ {
		r := rng.Fork()
		g := GenCfg{FileBacked: true, NColls: 1, NOps: 20 + r.Intn(60), PrioMode: 2, NKeys: 8 + r.Intn(30)}
		ops := GenHistory(r, g)
		var keys [][]byte
		for _, o := range ops {
			if o.K == "set" && len(o.Key) > 0 {
				keys = append(keys, o.Key)
			}
		}
		if len(keys) == 0 {
			continue
		}
		name := ops[0].Name
		ops = append(ops, Op{K: "flush"})
		base := opsString(ops)
		for j := 0; j < 3 && len(rep.Violations) == 0; j++ {
			key := keys[r.Intn(len(keys))]
			if r.Chance(1, 4) {
				key = append(append([]byte{}, key...), 'x') // usually absent
			}
			c := c07Case{Ops: append(append([]string{}, base...), opsString([]Op{{K: "reopen"}, {K: "geti", Name: name, Key: key}})...), ModelTie: true}
			step := len(c.Ops) - 1
			prof := c07Profile(c)
			if step >= len(prof) {
				continue
			}
			for k := range prof[step] {
				x := c
				x.Plan = []faultSpec{{Step: step, K: k + 1}}
				rep.Evaluations++
				if m := runC07(x, st); m != nil {
					report(x, m)
					break
				}
			}
		}
	}
	rep.Extra["lookups_with_a_failing_read_compared_with_model"] = readFaultsCompared
	rep.Extra["fault_runs_compared_with_byte_level_model"] = dfaultCompared
	rep.Extra["faulted_histories_meeting_fhistory_ok"] = dfaultHistOK
	rep.Extra["faulted_histories_outside_fhistory_ok"] = dfaultHistNotOK
	rep.Extra["failed_flushes_compared_with_flush_fault"] = dfaultFlushFails
	for k, n := range st.Known {
		rep.Violation(k, false, map[string]interface{}{"hits": n})
	}
	rep.Extra["fault_attempts"] = st.Attempts
	rep.Extra["faults_fired"] = st.Fired
	rep.Extra["failed_call_kinds"] = st.ByKind
	rep.Extra["faulted_api_calls"] = st.ByOp
	rep.Extra["torn_write_attempts"] = st.TornWrites
}

// searchVisible extends a history that ends in a failed call with
// fault-free mutations of every known key and returns the first
// extension on which the contents seen through the API are wrong.
func searchVisible(c c07Case, m *Mismatch) (c07Case, *Mismatch) {
	var ops []Op
	for _, s := range c.Ops {
		ops = append(ops, ParseOp(s))
	}
	if m.Step >= len(ops) {
		return c, nil
	}
	ops = ops[:m.Step+1]
	name := ops[m.Step].Name
	seen := map[string]bool{}
	var keys [][]byte
	for _, o := range ops {
		if o.K == "set" && len(o.Key) > 0 && !seen[string(o.Key)] {
			seen[string(o.Key)] = true
			keys = append(keys, o.Key)
		}
	}
	noHeap := func(x c07Case) *Mismatch {
		heapCheckOff = true
		defer func() { heapCheckOff = false }()
		return runC07(x, &c07Stats{ByKind: map[string]int{}, ByOp: map[string]int{}})
	}
	for _, k1 := range keys {
		for _, kind := range []string{"del", "set"} {
			ext := append([]Op{}, ops...)
			ext = append(ext, Op{K: kind, Name: name, Key: k1, Val: []byte("x"), Prio: 5})
			for _, k2 := range keys {
				ext = append(ext, Op{K: "set", Name: name, Key: k2, Val: []byte("y"), Prio: 7})
			}
			var plan []faultSpec
			for _, p := range c.Plan {
				if p.Step == m.Step {
					p.NoRetry = true
				}
				if p.Step <= m.Step {
					plan = append(plan, p)
				}
			}
			x := c07Case{Ops: opsString(ext), Plan: plan, Immediate: false}
			if m3 := noHeap(x); m3 != nil && m3.Kind != "marked-node-in-current-tree" {
				return x, m3
			}
		}
	}
	return c, nil
}

var heapCheckOff bool

func shrinkC07(c c07Case, kind string) c07Case {
	hangs0 := hangsSeen
	fails := func(x c07Case) bool {
		if hangsSeen > hangs0+1 {
			return false // goroutines stuck on a lock the failure left held: further replays only wait for the watchdog
		}
		m := runC07(x, &c07Stats{ByKind: map[string]int{}, ByOp: map[string]int{}})
		return m != nil && m.Kind == kind && m.Kind != "hang"
	}
	// drop plan entries
	for i := 0; i < len(c.Plan); {
		x := c
		x.Plan = append(append([]faultSpec{}, c.Plan[:i]...), c.Plan[i+1:]...)
		if fails(x) {
			c = x
		} else {
			i++
		}
	}
	// drop ops (re-indexing the plan)
	for i := len(c.Ops) - 1; i >= 0; i-- {
		used := false
		for _, p := range c.Plan {
			if p.Step == i {
				used = true
			}
		}
		if used {
			continue
		}
		x := c
		x.Ops = append(append([]string{}, c.Ops[:i]...), c.Ops[i+1:]...)
		x.Plan = nil
		for _, p := range c.Plan {
			if p.Step > i {
				p.Step--
			}
			x.Plan = append(x.Plan, p)
		}
		if fails(x) {
			c = x
		}
	}
	return c
}

func replayC07(path string) int {
	b, _ := os.ReadFile(path)
	var rp struct {
		Case c07Case `json:"case"`
	}
	if err := json.Unmarshal(b, &rp); err != nil {
		fmt.Println(err)
		return 2
	}
	heapCheckOff = os.Getenv("VERIF_NO_HEAPCHECK") != ""
	m := runC07(rp.Case, &c07Stats{ByKind: map[string]int{}, ByOp: map[string]int{}})
	if m != nil {
		mb, _ := json.MarshalIndent(m, "", " ")
		fmt.Printf("REPRODUCED property=C07\n%s\n", mb)
		return 1
	}
	fmt.Println("not reproduced")
	return 0
}
