package main

import (
	"crypto/md5"
	"io"
	"fmt"
	"strconv"
	"strings"

	"github.com/cbehopkins/gkvlite"
)

func init() {
	checks["C02"] = checkC02
	checks["C04"] = checkC04
	checks["C06"] = checkC06
	checks["C09"] = checkC09
	checks["C10"] = checkC10
	checks["C13"] = checkC13
	checks["C19"] = checkC19
	postOracles["depth"] = func(cfg *RunCfg) { cfg.PostStep = depthOracle }
	postOracles["shape"] = func(cfg *RunCfg) { cfg.PostStep = shapeOracle }
	postOracles["churn"] = func(cfg *RunCfg) { cfg.PostStep = churnOracle }
}

// ---------------------------------------------------------------- C02

func checkC02(rep *Report, rng *Rng, tier string) {
	n := 300
	if tier == "thorough" {
		n = 4000
	}
	dmodelOn = true
	modelOn = true
	probeNonUTF8Name(rep)
	probeBigRootRecord(rep, "C02")
	probeLongKeys(rep, "C02")
	rep.Rule = "seeded histories of mutations over 1-3 collections (4 comparators) with Flush at arbitrary positions, collection creation/removal, evictions, and re-opens after which the history continues on the re-opened store; after EVERY step a fresh Store is opened on a copy of the current file image and its full contents (names, keys, values, priorities, totals) are compared with the reference state of the last successful Flush; non-trivial = at least one flush and 8 ops"
	HistoryLoop(rep, rng, n, func(r *Rng, i int) (RunCfg, []Op, string) {
		d, ops := genC02(r, i)
		return d.RunCfg(), ops, d.String()
	}, nil)
	modelCompare(rep, "C02")
	rep.Extra["steps_compared_with_byte_level_model_DStore"] = dmodelSteps
	rep.Extra["histories_satisfying_history_ok_of_c02_history"] = dmodelHistOK
	rep.Extra["histories_outside_history_ok"] = dmodelHistNotOK
}

// ---------------------------------------------------------------- C04

func checkC04(rep *Report, rng *Rng, tier string) {
	n := 350
	if tier == "thorough" {
		n = 4000
	}
	modelOn = true
	rep.Rule = "seeded histories interleaving mutations, flushes, evictions, collection removal/replacement and Close of the original with creation of 1-4 snapshots (also snapshots of snapshots), reads through them, refused Set/Delete/Flush, snapshot FlushRevert and closes in any order; after every step the full contents of the original and of every open snapshot are compared with the frozen reference maps, the recycling invariants are evaluated on the heap dump, and the file's write log must show no write/truncate caused by a snapshot-side call; non-trivial = at least one snapshot and 8 ops"
	HistoryLoop(rep, rng, n, func(r *Rng, i int) (RunCfg, []Op, string) {
		g := GenCfg{FileBacked: r.Chance(2, 3), NColls: 1 + r.Intn(3), NOps: 30 + r.Intn(60), Structural: true, CollMgmt: r.Chance(1, 2), PrioMode: r.Intn(4), Visits: r.Chance(1, 2), NKeys: 6 + r.Intn(20)}
		ops := GenHistory(r, g)
		ops = weaveSnapshotsEx(r, ops, 1+r.Intn(4), g.FileBacked)
		if g.FileBacked && r.Chance(1, 2) {
			// Collection.Write() on the original.  Written-but-unflushed records are discarded by a re-open, and a
			// new Store on the same file would write over locations an open snapshot of the OLD store still uses
			// (two writers on one file): such histories have no re-open.
			var keep []Op
			for _, o := range ops {
				if !(o.K == "reopen" && o.H == 0) {
					keep = append(keep, o)
				}
			}
			ops = keep
			for j := 0; j < 2; j++ {
				at := 1 + r.Intn(len(ops)-1)
				ops = append(ops[:at:at], append([]Op{{K: "cwrite", Name: ops[0].Name}}, ops[at:]...)...)
			}
		}
		if r.Chance(1, 4) {
			// close the original somewhere; the snapshots must stay readable
			at := len(ops)/2 + r.Intn(len(ops)/2)
			ops = append(ops[:at:at], append([]Op{{K: "close", H: 0}}, ops[at:]...)...)
		}
		d := CfgDesc{Check: "C04", FileBacked: g.FileBacked, DumpEvery: true, Post: "churn"}
		switch i % 5 {
		case 1:
			// values stored encoded and one byte longer: a snapshot must run the same read hook as the original,
			// record offsets must follow the stored form; byte totals are those of the stored values (API-level
			// oracles only: the models do not see this configuration's totals)
			d.CBSet = cbCodec
			if i%10 == 6 {
				d.CBSet = cbCodecRaw
			}
			for j := range ops {
				if ops[j].K == "tot" {
					ops[j].K = "len"
				}
			}
		case 3:
			d.CBSet = cbAllNeutral &^ cbKeyCompare
		}
		return d.RunCfg(), ops, d.String()
	}, nil)
	modelCompare(rep, "C04")
}

// ---------------------------------------------------------------- C06

func depthOracle(w *World, i int, op Op, obs string) *Mismatch {
	if op.K != "ascx" && op.K != "descx" {
		return nil
	}
	c := w.H[op.H].Store.GetCollection(op.Name)
	if c == nil {
		return nil
	}
	d := gkvlite.VerifDump(c)
	depthOf := map[string]int{}
	complete := true
	var walk func(n *gkvlite.VerifNode, depth int)
	walk = func(n *gkvlite.VerifNode, depth int) {
		if n == nil {
			return
		}
		if !n.ItemCached {
			complete = false
		} else {
			depthOf[string(n.Key)] = depth
		}
		walk(n.Left, depth+1)
		walk(n.Right, depth+1)
	}
	walk(d.Root, 0)
	for _, t := range strings.Fields(obs)[1:] {
		if t == "err" {
			continue
		}
		f := strings.Split(t, "/")
		if len(f) != 4 {
			continue
		}
		key := string(unhx(f[0]))
		got, _ := strconv.Atoi(f[3])
		if want, ok := depthOf[key]; ok {
			if want != got {
				return &Mismatch{Kind: "depth", Expected: fmt.Sprintf("key %s at its true depth %d in the tree", f[0], want), Observed: fmt.Sprintf("reported depth %d", got)}
			}
		} else if complete {
			return &Mismatch{Kind: "depth", Expected: "delivered key present in the tree", Observed: "key " + f[0] + " not found in the heap dump"}
		}
	}
	return nil
}

func checkC06(rep *Report, rng *Rng, tier string) {
	n := 300
	if tier == "thorough" {
		n = 4000
	}
	modelOn = true
	rep.Rule = "seeded collection contents (4 comparators incl. case-insensitive with mixed-case keys) followed by visits with every interesting target (each key, neighbours, below min, above max, empty), both value modes, every stop position, plain/Ex/iterator variants, ascending and descending, in cache states reached by flush/evict/re-open/previous visits; delivered (key,value,priority) sequences compared with the reference and the Coq model, depths with the true depth in the implementation's own tree (heap dump) and with the model where C13 makes the shape canonical; non-trivial = at least 8 ops incl. a visit"
	HistoryLoop(rep, rng, n, func(r *Rng, i int) (RunCfg, []Op, string) {
		d, ops := genC06(r, i)
		return d.RunCfg(), ops, d.String()
	}, nil)
	modelCompare(rep, "C06")
}

// ---------------------------------------------------------------- C09 (dynamic part)

func checkC09(rep *Report, rng *Rng, tier string) {
	n := 400
	if tier == "thorough" {
		n = 4000
	}
	rep.Rule = "every WriteAt/Truncate issued on the instrumented file in seeded histories mixing all API calls (mutations, lookups, visits, iterators, evictions, flushes, re-opens, reverts, snapshots and their reads/reverts/closes, collection management) is checked: writes only during Flush on the writable store and at or beyond the end of the last durable root record, truncates only during FlushRevert on the writable store, nothing during read-only calls; after every step the bytes below the last durable root end are compared with a saved copy; non-trivial = at least one flush"
	HistoryLoop(rep, rng, n, func(r *Rng, i int) (RunCfg, []Op, string) {
		// FlushRevert on the original truncates bytes an open snapshot may still need (it is not among the
		// operations C04 lists), so a history has either reverts of the original or snapshots, not both
		rev := r.Chance(1, 2)
		g := GenCfg{FileBacked: true, NColls: 1 + r.Intn(3), NOps: 40 + r.Intn(80), Structural: true, CollMgmt: r.Chance(1, 2), PrioMode: r.Intn(4), Visits: true, Revert: rev, BigVals: r.Chance(1, 4), NKeys: 6 + r.Intn(20)}
		ops := GenHistory(r, g)
		if !rev {
			ops = weaveSnapshotsEx(r, ops, r.Intn(3), true)
		} else {
			// crash debris after the last root record, then the file is opened again
			var out []Op
			for _, o := range ops {
				out = append(out, o)
				if o.K == "flush" && r.Chance(1, 3) {
					out = append(out, Op{K: "junk", N: 1 + r.Intn(60), Prio: int32(r.Intn(1000))})
				}
			}
			ops = out
		}
		d := CfgDesc{Check: "C09", FileBacked: true, Post: "prefix"}
		if i%4 == 2 {
			// a before-write hook that itself appends to the store (persists another collection) before returning
			// the item unchanged: every record must still go to the end of the file
			d.CBSet = cbNestedWrite
			d.ReopenDump = true
		}
		return d.RunCfg(), ops, d.String()
	}, nil)
	rep.Extra["note"] = "writes and truncates are also checked in every other history-based check (the monitor is part of the shared runner)"
}

func init() {
	postOracles["prefix"] = func(cfg *RunCfg) {
		var saved []byte
		cfg.OnWorld = func(w *World) { saved = nil }
		cfg.PostStep = func(w *World, i int, op Op, obs string) *Mismatch {
			if w.File == nil {
				return nil
			}
			cur := w.File.Bytes()
			de := int(w.IO.DurableEnd)
			if op.K == "revert" && op.H == 0 {
				if len(cur) < len(saved) {
					saved = saved[:len(cur)]
				}
			}
			if len(cur) < len(saved) {
				return &Mismatch{Kind: "file-shrunk", Expected: fmt.Sprintf("file at least %d bytes (durable)", len(saved)), Observed: fmt.Sprintf("%d bytes", len(cur))}
			}
			for j := range saved {
				if cur[j] != saved[j] {
					return &Mismatch{Kind: "durable-byte-modified", Expected: fmt.Sprintf("byte %d below the durable end unchanged", j), Observed: fmt.Sprintf("%#x -> %#x", saved[j], cur[j])}
				}
			}
			if de <= len(cur) {
				saved = append([]byte{}, cur[:de]...)
			}
			return nil
		}
	}
}

// ---------------------------------------------------------------- C10

var churnCount int

// churnOracle forces reuse of whatever has been freed: an unrelated
// memory-only store allocates and frees nodes; afterwards (next step's
// dumps, and immediately here) every open handle must still read its
// reference contents.
func churnOracle(w *World, i int, op Op, obs string) *Mismatch {
	if i%5 != 4 {
		return nil
	}
	res := w.guard(func() string {
		s, _ := gkvlite.NewStore(nil)
		c := s.SetCollection("churn", nil)
		nfree := len(gkvlite.VerifFreeNodes())
		for j := 0; j < nfree+8; j++ {
			c.SetItem(&gkvlite.Item{Key: []byte(fmt.Sprintf("churn%05d", j)), Val: []byte("zzzzzzzz"), Priority: int32(j * 7919 % 10007)})
		}
		for j := 0; j < nfree+8; j += 2 {
			c.Delete([]byte(fmt.Sprintf("churn%05d", j)))
		}
		churnCount++
		if churnCount%2 == 0 {
			s.Close()
		}
		return "ok"
	})
	if res != "ok" {
		return &Mismatch{Kind: "panic", Expected: "(no panic)", Observed: res + ": " + w.Panic, Note: "unrelated store churning the free lists"}
	}
	for hi, h := range w.H {
		if h.Closed || h.Ref == nil {
			continue
		}
		d := w.DumpImpl(hi)
		if d == "PANIC" {
			return &Mismatch{Kind: "panic", Expected: h.Ref.dump(), Observed: "PANIC: " + w.Panic, Note: fmt.Sprintf("reading handle %d after unrelated allocation reused freed nodes", hi)}
		}
		if e := h.Ref.dump(); e != d {
			return &Mismatch{Kind: "dump", Expected: e, Observed: d, Note: fmt.Sprintf("contents of handle %d after unrelated allocation reused freed nodes", hi)}
		}
	}
	return nil
}

func checkC10(rep *Report, rng *Rng, tier string) {
	n := 350
	if tier == "thorough" {
		n = 4000
	}
	modelOn = true
	rep.Rule = "seeded histories with snapshots (and snapshots of snapshots) created and closed in every order, iterators abandoned mid-way, collections replaced (SetCollection on an existing name) and removed, stores closed and re-opened, reverts; after every step: no node reachable from any open handle is on the process-wide free list and no node of a current tree carries a reclaim mark (heap dump), full contents of every handle equal the reference; every 5th step an unrelated store allocates more nodes than are free (forcing reuse) and everything is re-read; non-trivial = at least 8 ops with a snapshot or collection replacement"
	HistoryLoop(rep, rng, n, func(r *Rng, i int) (RunCfg, []Op, string) {
		rev := r.Chance(1, 4)
		g := GenCfg{FileBacked: r.Chance(1, 2), NColls: 1 + r.Intn(3), NOps: 40 + r.Intn(80), Structural: true, CollMgmt: true, PrioMode: r.Intn(4), Visits: true, Revert: rev, NKeys: 8 + r.Intn(30)}
		ops := GenHistory(r, g)
		if !rev {
			ops = weaveSnapshotsEx(r, ops, 1+r.Intn(4), false)
		}
		// in-flight visits whose visitors mutate the collection being visited (ascending and descending)
		for j := 0; j < 3; j++ {
			at := len(ops)/3 + r.Intn(len(ops)-len(ops)/3)
			k := []string{"vmut", "vmutd", "vmutd", "vall"}[r.Intn(4)]
			tgt := []byte{}
			if k != "vmut" {
				tgt = []byte{0xff, 0xff, 0xff}
			}
			ops = append(ops[:at:at], append([]Op{{K: k, Name: ops[0].Name, Key: tgt, WV: true, N: -1}}, ops[at:]...)...)
		}
		d := CfgDesc{Check: "C10", FileBacked: g.FileBacked, DumpEvery: true, Post: "churn"}
		return d.RunCfg(), ops, d.String()
	}, nil)
}

// ---------------------------------------------------------------- C13

// shapeOracle checks, on the implementation's own cached tree, search
// order under the comparator, exact aggregates at every node and (when
// allowed by the history so far) heap order.
func shapeOracle(w *World, i int, op Op, obs string) *Mismatch {
	h := w.H[0]
	if h.Closed {
		return nil
	}
	for _, name := range h.Store.GetCollectionNames() {
		c := h.Store.GetCollection(name)
		rc, ok := h.Ref.Colls[name]
		if !ok {
			continue
		}
		cmp := comparators[rc.Cmp]
		d := gkvlite.VerifDump(c)
		var bad *Mismatch
		// returns count, bytes, complete(all cached), min key, max key
		var walk func(n *gkvlite.VerifNode, lo, hi []byte, parentPrio int64) (uint64, uint64, bool)
		walk = func(n *gkvlite.VerifNode, lo, hi []byte, parentPrio int64) (uint64, uint64, bool) {
			if n == nil || bad != nil {
				return 0, 0, true
			}
			complete := n.ItemCached && (n.LeftEmpty || n.LeftCached) && (n.RightEmpty || n.RightCached)
			if n.ItemCached {
				if lo != nil && cmp(lo, n.Key) >= 0 || hi != nil && cmp(n.Key, hi) >= 0 {
					bad = &Mismatch{Kind: "search-order", Expected: "every key between the keys of its ancestors", Observed: fmt.Sprintf("collection %q: key %x out of place", name, n.Key)}
					return 0, 0, false
				}
				if w.HeapOK[name] && parentPrio >= 0 && int64(n.Priority) > parentPrio {
					bad = &Mismatch{Kind: "heap-order", Expected: "no child outranks its parent (no key was overwritten with a lower priority)", Observed: fmt.Sprintf("collection %q: key %x priority %d > parent priority %d", name, n.Key, n.Priority, parentPrio)}
					return 0, 0, false
				}
			}
			var lk, hk []byte = lo, hi
			pp := int64(-1)
			if n.ItemCached {
				lk, hk = n.Key, n.Key
				pp = int64(n.Priority)
			}
			var ln, lb, rn, rb uint64
			var lc, rcmp bool = true, true
			if !n.LeftEmpty {
				if n.LeftCached {
					ln, lb, lc = walk(n.Left, lo, hk, pp)
				} else {
					lc = false
				}
			}
			if !n.RightEmpty {
				if n.RightCached {
					rn, rb, rcmp = walk(n.Right, lk, hi, pp)
				} else {
					rcmp = false
				}
			}
			if bad != nil {
				return 0, 0, false
			}
			if complete && lc && rcmp {
				var ib uint64
				if n.ItemLen > 0 {
					ib = uint64(n.ItemLen) - 16
				} else {
					ib = uint64(len(n.Key) + len(n.Val))
				}
				if n.NumNodes != ln+rn+1 || n.NumBytes != lb+rb+ib {
					bad = &Mismatch{Kind: "aggregates", Expected: fmt.Sprintf("numNodes=%d numBytes=%d at node %x", ln+rn+1, lb+rb+ib, n.Key), Observed: fmt.Sprintf("numNodes=%d numBytes=%d", n.NumNodes, n.NumBytes)}
					return 0, 0, false
				}
				return n.NumNodes, n.NumBytes, true
			}
			return n.NumNodes, n.NumBytes, false
		}
		walk(d.Root, nil, nil, -1)
		if bad != nil {
			return bad
		}
	}
	return nil
}

func checkC13(rep *Report, rng *Rng, tier string) {
	n := 350
	if tier == "thorough" {
		n = 3000
	}
	modelOn = true
	rep.Rule = "seeded histories of sets/deletes/overwrites with tied, rising, falling and distinct priorities interleaved with flush/evict/re-open; after every step the implementation's own cached tree (heap dump) is checked for search order under the comparator, exact numNodes/numBytes at every fully cached node and heap order while no key was overwritten with a lower priority; (key,priority,depth) sequences are compared with the Coq model whenever priorities are pairwise distinct (canonical shape); thorough: every insertion order x priority ranking of up to 5 keys; non-trivial = at least 8 ops"
	HistoryLoop(rep, rng, n, func(r *Rng, i int) (RunCfg, []Op, string) {
		g := GenCfg{FileBacked: r.Chance(1, 2), NColls: 1 + r.Intn(2), NOps: 30 + r.Intn(80), CmpMode: r.Intn(2), Structural: true, PrioMode: r.Intn(4), NKeys: 5 + r.Intn(40)}
		if i%3 == 0 {
			// deeper trees, file-backed: re-opened stores with unloaded subtrees below the mutated paths
			g.FileBacked, g.NColls, g.NOps, g.NKeys = true, 1, 150+r.Intn(100), 40+r.Intn(40)
			if g.PrioMode == 0 {
				g.PrioMode = 2
			}
		}
		g.Revert = g.FileBacked && i%2 == 1 // FlushRevert rebuilds the collections from the file: same order, same invariants
		ops := GenHistory(r, g)
		var out []Op
		for _, o := range ops {
			out = append(out, o)
			if r.Chance(1, 6) {
				out = append(out, Op{K: "ascx", Name: o.Name, Key: []byte{}, N: -1})
			}
		}
		for _, o := range ops {
			if o.K == "coll" {
				out = append(out, Op{K: "ascx", Name: o.Name, Key: []byte{}, N: -1}, Op{K: "descx", Name: o.Name, Key: []byte{0xff, 0xff, 0xff, 0xff}, N: -1})
			}
		}
		d := CfgDesc{Check: "C13", FileBacked: g.FileBacked, CmpCB: g.CmpMode == 1, Post: "shape"}
		return d.RunCfg(), out, d.String()
	}, nil)
	if tier == "thorough" {
		exhaustiveC13(rep, 5)
	} else {
		exhaustiveC13(rep, 4)
	}
	modelCompare(rep, "C13")
}

// exhaustiveC13: every insertion order x every priority ranking for key
// sets of size <= k; the (key,depth) sequence must be the same for all
// insertion orders of one ranking (canonical shape) and equal the model's.
func exhaustiveC13(rep *Report, k int) {
	keys := [][]byte{[]byte("a"), []byte("b"), []byte("c"), []byte("d"), []byte("e")}
	count := 0
	for n := 1; n <= k; n++ {
		perms := permutations(n)
		for _, rank := range perms {
			want := ""
			for _, order := range perms {
				var ops []Op
				ops = append(ops, Op{K: "coll", Name: "x"})
				for _, idx := range order {
					ops = append(ops, Op{K: "set", Name: "x", Key: keys[idx], Val: []byte("v"), Prio: int32(10 * (rank[idx] + 1))})
				}
				ops = append(ops, Op{K: "ascx", Name: "x", Key: []byte{}, N: -1})
				cfg := CfgDesc{Check: "C13", Post: "shape"}.RunCfg()
				_, obs, m := RunOps(cfg, ops)
				count++
				if m == nil {
					got := obs[len(obs)-1]
					if want == "" {
						want = got
						if mm, _ := ModelMismatch(false, ops, obs); mm != nil {
							m = mm
						}
					} else if got != want {
						m = &Mismatch{Step: len(ops) - 1, Op: ops[len(ops)-1].String(), Kind: "non-canonical-shape", Expected: want, Observed: got, Note: "same keys and priorities, different insertion order"}
					}
				}
				if m != nil {
					rep.Violation("", false, map[string]interface{}{"config": CfgDesc{Check: "C13", Post: "shape"}.String(), "ops": opsString(ops), "mismatch": m})
					return
				}
			}
		}
	}
	rep.Evaluations += count
	rep.Extra["exhaustive_orders_x_rankings"] = count
	rep.Extra["exhaustive_max_keys"] = k
}

func permutations(n int) [][]int {
	var res [][]int
	var rec func(cur []int, used []bool)
	rec = func(cur []int, used []bool) {
		if len(cur) == n {
			res = append(res, append([]int{}, cur...))
			return
		}
		for i := 0; i < n; i++ {
			if !used[i] {
				used[i] = true
				rec(append(cur, i), used)
				used[i] = false
			}
		}
	}
	rec(nil, make([]bool, n))
	return res
}

// ---------------------------------------------------------------- C19

func checkC19(rep *Report, rng *Rng, tier string) {
	n := 70
	if tier == "thorough" {
		n = 500 // every history costs ~50 model evaluations on file images (exact read lists, runs with flushes)
	}
	rep.Rule = "seeded histories over flushed, re-opened (nothing cached) and partially evicted stores with large and small values; every ReadAt issued during a key-only call (GetItem/MinItem/MaxItem/visits/iterators with withValue=false, Exist, Len, Set, Delete) is intersected with the byte ranges of all item values (known from the write log): the intersection must be empty; every successful NewStore must issue exactly Stat + the 24-byte trailer read + one read of the root record, whatever the file size; non-trivial = at least one re-open and 8 ops"
	opens := 0
	HistoryLoop(rep, rng, n, func(r *Rng, i int) (RunCfg, []Op, string) {
		g := GenCfg{FileBacked: true, NColls: 1 + r.Intn(2), NOps: 30 + r.Intn(80), Structural: true, PrioMode: r.Intn(4), Visits: true, BigVals: true, NKeys: 6 + r.Intn(40), CmpMode: r.Intn(2)}
		ops := GenHistory(r, g)
		var out []Op
		for _, o := range ops {
			if (o.K == "geti" || o.K == "min" || o.K == "max" || strings.HasPrefix(o.K, "asc") || strings.HasPrefix(o.K, "desc") || strings.HasPrefix(o.K, "it") || o.K == "nasc" || o.K == "ndesc" || o.K == "nit") && r.Chance(2, 3) {
				o.WV = false
			}
			if o.K == "tot" && r.Chance(1, 2) {
				o.K = "len"
			}
			out = append(out, o)
			if r.Chance(1, 8) {
				out = append(out, Op{K: "flush"}, Op{K: "reopen"})
				opens++
				k := []string{"geti", "get", "exist", "min", "max", "geti", "asc", "desc", "ascx", "descx", "set", "del", "set", "del"}[r.Intn(14)]
				key := o.Key
				if len(key) == 0 {
					key = []byte("a")
				}
				stop := -1
				if r.Chance(1, 2) {
					stop = r.Intn(6)
				}
				if k == "set" || k == "del" {
					// the first mutation on a store with nothing cached: its exact ReadAt calls vs LazyMut
					if r.Chance(1, 2) && len(key) < 60 {
						key = append(append([]byte{}, key...), byte('a'+r.Intn(26))) // usually a new key
					}
					out = append(out, Op{K: k, Name: o.Name, Key: key, Val: genVal(r, false), Prio: int32(r.U64() & 0x7fffffff)})
				} else {
					out = append(out, Op{K: k, Name: o.Name, Key: key, WV: r.Chance(1, 2), N: stop})
				}
			}
			if r.Chance(1, 10) {
				// items cached WITH their values (just set and flushed), then a key-only visit whose visitor runs other
				// visits (which evict what they leave): the outer visit re-reads the evicted items and must stay key-only
				out = append(out, Op{K: "flush"}, Op{K: []string{"nasc", "ndesc"}[r.Intn(2)], Name: o.Name, Key: []byte{byte(0xff * r.Intn(2))}, WV: false, N: -1})
			}
			if r.Chance(1, 40) {
				out = append(out, Op{K: "copyfail"})
			}
			if r.Chance(1, 30) && o.Name != "" {
				// a run with Flush inside it (LazySeq3): mutate, flush, a visit that drops the flushed items again, lookups
				// that read them back at the offsets the flush gave them, a second round on top
				key := o.Key
				if len(key) == 0 || len(key) > 60 {
					key = []byte("k")
				}
				nk := append(append([]byte{}, key...), byte('a'+r.Intn(26)))
				vis := func() Op {
					return Op{K: []string{"asc", "desc"}[r.Intn(2)], Name: o.Name, Key: []byte{byte(0xff * r.Intn(2))}, WV: r.Chance(1, 2), N: -1}
				}
				out = append(out, Op{K: "flush"}, Op{K: "reopen"},
					Op{K: "set", Name: o.Name, Key: nk, Val: genVal(r, false), Prio: int32(r.U64() & 0x7fffffff)},
					Op{K: "set", Name: o.Name, Key: key, Val: genVal(r, false), Prio: int32(r.U64() & 0x7fffffff)},
					Op{K: "flush"}, vis(),
					Op{K: "geti", Name: o.Name, Key: nk, WV: r.Chance(1, 2)},
					Op{K: "geti", Name: o.Name, Key: key, WV: true},
					Op{K: []string{"del", "set"}[r.Intn(2)], Name: o.Name, Key: nk, Val: genVal(r, false), Prio: int32(r.U64() & 0x7fffffff)},
					Op{K: "flush"}, vis(),
					Op{K: []string{"min", "max"}[r.Intn(2)], Name: o.Name, WV: true},
					Op{K: "geti", Name: o.Name, Key: key, WV: r.Chance(1, 2)},
					Op{K: "len", Name: o.Name})
				opens++
			}
		}
		if i%8 == 3 {
			// a LARGE collection: every item loaded with its value by one scan of the re-opened store (over a hundred value
			// loads through one handle), then key-only calls on the same handle, after evictions and on a second re-open
			var nm string
			for _, o := range out {
				if o.K == "coll" {
					nm = o.Name
					break
				}
			}
			if nm != "" {
				big := []Op{}
				for j := 0; j < 110+r.Intn(60); j++ {
					big = append(big, Op{K: "set", Name: nm, Key: []byte(fmt.Sprintf("big-%04d", j*7%1000)), Val: genVal(r, j%9 == 0), Prio: int32(r.U64() & 0x7fffffff)})
				}
				k1, k2 := []byte("big-0007"), []byte("big-0497")
				big = append(big, Op{K: "flush"}, Op{K: "reopen"},
					Op{K: "asc", Name: nm, Key: []byte{}, WV: true, N: -1},
					Op{K: "len", Name: nm}, Op{K: "exist", Name: nm, Key: k1}, Op{K: "min", Name: nm, WV: false},
					Op{K: "geti", Name: nm, Key: k2, WV: false}, Op{K: "desc", Name: nm, Key: []byte{0xff}, WV: false, N: -1},
					Op{K: "evict", Name: nm}, Op{K: "len", Name: nm}, Op{K: "max", Name: nm, WV: false},
					Op{K: "set", Name: nm, Key: k1, Val: []byte("x"), Prio: 5}, Op{K: "del", Name: nm, Key: k2},
					Op{K: "flush"}, Op{K: "reopen"},
					Op{K: "desc", Name: nm, Key: []byte{0xff}, WV: true, N: -1}, Op{K: "len", Name: nm}, Op{K: "exist", Name: nm, Key: k1})
				out = append(out, big...)
				opens += 2
			}
		}
		d := CfgDesc{Check: "C19", FileBacked: true, CmpCB: g.CmpMode == 1, Post: "lazyreads"}
		if i%3 == 1 {
			// callbacks that do not change which bytes are read or written: key-only operations must stay key-only
			d.CBSet = []int{cbAfterRead, cbBeforeWrite | cbAfterRead | cbItemAlloc, cbItemAlloc, cbAfterRead | cbValLength}[r.Intn(4)]
		}
		return d.RunCfg(), out, d.String()
	}, nil)
	// concurrent key-only rounds (item-load races must not fetch values either)
	rounds, concReads := 12, 0
	if tier == "thorough" {
		rounds = 150
	}
	for i := 0; i < rounds && len(rep.Violations) == 0; i++ {
		seed := rng.U64()
		msg, nr := concurrentKeyOnly(seed, 120)
		concReads += nr
		rep.Evaluations++
		if msg != "" {
			rep.Violation("", false, map[string]interface{}{"concurrent_key_only_round_seed": seed, "observed": msg,
				"note": "schedule dependent; re-run ./check C19 to retry"})
		}
	}
	rep.Extra["concurrent_key_only_rounds"] = rounds
	rep.Extra["concurrent_key_only_reads_checked"] = concReads
	rep.Extra["reopens_generated"] = opens
	rep.Extra["read_lists_compared_with_model"] = lazyCompared
	rep.Extra["open_read_lists_compared_with_model"] = lazyOpenCompared
	rep.Extra["mutation_read_lists_compared_with_model"] = lazyMutCompared
	rep.Extra["calls_in_runs_after_reopen_compared_with_model"] = lazySeqCompared
	rep.Extra["flushes_inside_runs_compared_with_model"] = lazySeqFlushes
	rep.Extra["calls_after_a_flush_inside_runs_compared_with_model"] = lazySeqAfterFlush
	rep.Extra["calls_reading_records_flushed_inside_the_run"] = lazySeqRereads
}

func genC02(r *Rng, i int) (CfgDesc, []Op) {
	g := GenCfg{FileBacked: true, NColls: 1 + r.Intn(3), NOps: 30 + r.Intn(70), CmpMode: r.Intn(2), Structural: true, CollMgmt: r.Chance(1, 2),
		PrioMode: r.Intn(4), BigVals: r.Chance(1, 5), Invalid: r.Chance(1, 4), NKeys: 6 + r.Intn(30)}
	ops := GenHistory(r, g)
	d := CfgDesc{Check: "C02", FileBacked: true, CmpCB: g.CmpMode == 1, ReopenDump: true, DumpEvery: i%3 == 0, Digests: true}
	return d, ops
}

func genC06(r *Rng, i int) (CfgDesc, []Op) {
	g := GenCfg{FileBacked: r.Chance(2, 3), NColls: 1 + r.Intn(2), NOps: 15 + r.Intn(40), CmpMode: r.Intn(2), Structural: true, PrioMode: r.Intn(4), NKeys: 4 + r.Intn(20)}
	ops := GenHistory(r, g)
	var names []string
	var keys [][]byte
	for _, o := range ops {
		if o.K == "coll" {
			names = append(names, o.Name)
		}
		if o.K == "set" && len(o.Key) > 0 && len(o.Key) < 100 {
			keys = append(keys, o.Key)
		}
	}
	nv := 20 + r.Intn(40)
	for j := 0; j < nv; j++ {
		var tgt []byte
		switch r.Intn(8) {
		case 0:
			tgt = []byte{}
		case 1:
			tgt = []byte{0}
		case 2:
			tgt = []byte{0xff, 0xff, 0xff}
		case 3:
			if len(keys) > 0 {
				k := keys[r.Intn(len(keys))]
				tgt = append(append([]byte{}, k...), 0)
			}
		case 4:
			if len(keys) > 0 {
				k := keys[r.Intn(len(keys))]
				tgt = append([]byte{}, k[:len(k)-1]...)
			}
		default:
			if len(keys) > 0 {
				tgt = keys[r.Intn(len(keys))]
			}
		}
		if tgt == nil {
			tgt = []byte{}
		}
		stop := -1
		if r.Chance(2, 3) {
			stop = r.Intn(len(keys) + 2)
		}
		k := []string{"asc", "desc", "ascx", "descx", "itasc", "itdesc", "nasc", "ndesc", "nit"}[r.Intn(9)]
		ops = append(ops, Op{K: k, Name: names[r.Intn(len(names))], Key: tgt, WV: r.Chance(2, 3), N: stop})
		switch r.Intn(12) {
		case 0:
			ops = append(ops, Op{K: "flush"})
		case 1:
			ops = append(ops, Op{K: "evict", Name: names[r.Intn(len(names))]})
		case 2:
			if g.FileBacked {
				ops = append(ops, Op{K: "reopen"})
			}
		case 3:
			if len(keys) > 0 {
				ops = append(ops, Op{K: "set", Name: names[r.Intn(len(names))], Key: keys[r.Intn(len(keys))], Val: genVal(r, false), Prio: int32(r.U64() & 0x7fffffff)})
			}
		}
	}
	d := CfgDesc{Check: "C06", FileBacked: g.FileBacked, CmpCB: g.CmpMode == 1, Post: "depth"}
	return d, ops
}

var lazyCompared, lazyOpenCompared, lazyMutCompared, lazySeqCompared, lazySeqFlushes, lazySeqAfterFlush, lazySeqRereads int

func init() {
	postOracles["lazyreads"] = func(cfg *RunCfg) {
		fresh := false // the store has just been re-opened: nothing is cached
		cfg.OnWorld = func(w *World) { fresh = false }
		// a RUN of lookups and mutations on one collection after a re-open: the ReadAt calls of every call of the run vs
		// LazySeq.srun_reads (what one call loaded stays in memory for the next)
		var seqLines []string
		var seqImg []byte
		seqName, seqNamed, seqOn := "", false, false
		seqStep := func(w *World, op Op, got string) *Mismatch {
			if op.K == "reopen" && op.H == 0 {
				seqOn, seqLines, seqName, seqNamed = false, nil, "", false
				if img := w.File.Bytes(); int64(len(img)) == w.IO.DurableEnd && len(img) > 0 && len(img) <= 14000 {
					seqOn, seqImg = true, img
				}
				return nil
			}
			if !seqOn {
				return nil
			}
			if op.H != 0 {
				seqOn = false
				return nil
			}
			b := map[bool]string{true: "t", false: "f"}
			line := ""
			switch op.K {
			case "geti":
				line = fmt.Sprintf("get %s %s", hx(op.Key), b[op.WV])
			case "get":
				line = fmt.Sprintf("get %s t", hx(op.Key))
			case "exist":
				line = fmt.Sprintf("get %s f", hx(op.Key))
			case "min", "max":
				line = op.K + " " + b[op.WV]
			case "set":
				if itemValid(op.Key, op.Val, op.Prio) {
					line = fmt.Sprintf("set %s %s %d", hx(op.Key), hx(op.Val), op.Prio)
				}
			case "del":
				line = "del " + hx(op.Key)
			case "asc", "desc", "ascx", "descx":
				// a whole visit (the visitor answers true to the first N deliveries; N < 0: to all)
				if rc0, ok0 := w.H[0].Ref.Colls[op.Name]; ok0 {
					budget := op.N
					if budget < 0 {
						budget = len(rc0.Items) + 1
					}
					dir := "asc"
					if op.K == "desc" || op.K == "descx" {
						dir = "desc"
					}
					line = fmt.Sprintf("vis %s %s %s %d", dir, hx(op.Key), b[op.WV], budget)
				}
			case "len":
				line = "len"
			case "tot":
				line = "tot"
			case "flush":
				// Store.Flush inside the run (LazySeq3): only once the run has its collection
				if seqNamed {
					line = "flush"
					op.Name = seqName
				}
			}
			rc, ok := w.H[0].Ref.Colls[op.Name]
			if line == "" || !ok || (seqNamed && seqName != op.Name) || w.ChunkMem || len(seqLines) >= 14 {
				seqOn = false
				return nil
			}
			seqName, seqNamed = op.Name, true
			seqLines = append(seqLines, line)
			m := getModel()
			if _, err := io.WriteString(m.in, fmt.Sprintf("seq3reads %d %s %d %s\n%s\n", rc.Cmp, hx([]byte(op.Name)), len(seqLines), hexFile(seqImg), strings.Join(seqLines, "\n"))); err != nil {
				seqOn = false
				return nil
			}
			var outs []string
			for {
				l, err := m.out.ReadString('\n')
				if err != nil {
					seqOn = false
					return nil
				}
				l = strings.TrimRight(l, "\n")
				if l == "END" {
					break
				}
				outs = append(outs, l)
			}
			if len(outs) != len(seqLines)+1 {
				seqOn = false
				return nil
			}
			lazySeqCompared++
			if line != "flush" {
				for _, l := range seqLines {
					if l == "flush" {
						lazySeqAfterFlush++
						break
					}
				}
				for _, e := range w.LastEvents {
					if e.Kind == 'R' && e.Off >= int64(len(seqImg)) {
						lazySeqRereads++
						break
					}
				}
			}
			if exp := outs[len(outs)-2]; exp != got {
				return &Mismatch{Kind: "reads-vs-model", Expected: exp, Observed: got,
					Note: fmt.Sprintf("ReadAt calls of call %d of a run of calls after re-opening vs the Coq model LazySeq3.srun3 (run: %s)", len(seqLines), strings.Join(seqLines, "; "))}
			}
			if line == "flush" {
				// the file the model predicts after the Flush of the run vs the file the implementation wrote
				lazySeqFlushes++
				img := w.File.Bytes()
				sum := md5.Sum(img)
				if gotf := fmt.Sprintf("file %d %x", len(img), sum); gotf != outs[len(outs)-1] {
					return &Mismatch{Kind: "file-vs-model", Expected: outs[len(outs)-1], Observed: gotf,
						Note: fmt.Sprintf("the file after the Flush inside a run of calls after re-opening vs LazySeq3.flush_trees (run: %s)", strings.Join(seqLines, "; "))}
				}
			}
			return nil
		}
		cfg.PostStep = func(w *World, i int, op Op, obs string) *Mismatch {
			wasFresh := fresh
			fresh = op.K == "reopen" && op.H == 0 && obs == "ok"
			if w.File != nil {
				var rl []string
				for _, e := range w.LastEvents {
					if e.Kind == 'R' {
						rl = append(rl, fmt.Sprintf("%d:%d", e.Off, e.Len))
					}
				}
				if (op.K == "reopen" || op.K == "flush") && obs != "ok" {
					seqOn = false
				} else if m := seqStep(w, op, strings.Join(append([]string{"r"}, rl...), " ")); m != nil {
					return m
				}
			}
			if w.File == nil || op.H != 0 {
				return nil
			}
			var reads []string
			for _, e := range w.LastEvents {
				if e.Kind == 'R' {
					reads = append(reads, fmt.Sprintf("%d:%d", e.Off, e.Len))
				}
			}
			got := strings.Join(append([]string{"r"}, reads...), " ")
			img := w.File.Bytes()
			if fresh && int64(len(img)) == w.IO.DurableEnd && len(img) > 0 {
				// NewStore: Stat, then exactly the reads the model predicts
				exp, err := getModel().request("openreads " + hexFile(img))
				lazyOpenCompared++
				if err == nil && exp != got {
					return &Mismatch{Kind: "open-reads-vs-model", Expected: exp, Observed: got, Note: "ReadAt calls of NewStore vs Lazy.open_reads"}
				}
			}
			if !wasFresh {
				return nil
			}
			if op.K == "asc" || op.K == "desc" || op.K == "ascx" || op.K == "descx" {
				rc, ok := w.H[0].Ref.Colls[op.Name]
				if !ok {
					return nil
				}
				dir := "asc"
				if op.K == "desc" || op.K == "descx" {
					dir = "desc"
				}
				budget := op.N
				if budget < 0 {
					budget = len(rc.Items) + 1
				}
				b := "f"
				if op.WV {
					b = "t"
				}
				exp, err := getModel().request(fmt.Sprintf("visitreads %s %d %s %s %s %d %s", dir, rc.Cmp, hx([]byte(op.Name)), hx(op.Key), b, budget, hexFile(img)))
				if err != nil {
					return &Mismatch{Kind: "model-runner", Expected: "model evaluation", Observed: err.Error()}
				}
				lazyCompared++
				if exp != got {
					return &Mismatch{Kind: "reads-vs-model", Expected: exp, Observed: got,
						Note: "ReadAt calls (offset:length) of the first visit after re-opening vs the Coq model Lazy.visit_reads"}
				}
				return nil
			}
			if op.K == "set" || op.K == "del" {
				rc, ok := w.H[0].Ref.Colls[op.Name]
				if !ok || (op.K == "set" && op.Val == nil) {
					return nil
				}
				exp, err := getModel().request(fmt.Sprintf("mutreads %s %d %s %s %d %s", op.K, rc.Cmp, hx([]byte(op.Name)), hx(op.Key), op.Prio, hexFile(img)))
				if err != nil {
					return &Mismatch{Kind: "model-runner", Expected: "model evaluation", Observed: err.Error()}
				}
				lazyMutCompared++
				if exp != got {
					return &Mismatch{Kind: "reads-vs-model", Expected: exp, Observed: got,
						Note: "ReadAt calls (offset:length) of the first SetItem / Delete after re-opening vs the Coq model LazyMut.set_treads / del_treads"}
				}
				return nil
			}
			kind, wv := "", op.WV
			switch op.K {
			case "get":
				kind, wv = "get", true
			case "geti":
				kind = "get"
			case "exist":
				kind, wv = "get", false
			case "min", "max":
				kind = op.K
			default:
				return nil
			}
			rc, ok := w.H[0].Ref.Colls[op.Name]
			if !ok {
				return nil
			}
			b := "f"
			if wv {
				b = "t"
			}
			exp, err := getModel().request(fmt.Sprintf("reads %s %d %s %s %s %s", kind, rc.Cmp, hx([]byte(op.Name)), hx(op.Key), b, hexFile(img)))
			if err != nil {
				return &Mismatch{Kind: "model-runner", Expected: "model evaluation", Observed: err.Error()}
			}
			lazyCompared++
			if exp != got {
				return &Mismatch{Kind: "reads-vs-model", Expected: exp, Observed: got,
					Note: "ReadAt calls (offset:length) of the first call after re-opening vs the Coq model Lazy.get_reads / minmax_reads"}
			}
			return nil
		}
	}
}
