package main

import (
	"bytes"
	"fmt"
	"time"

	"github.com/cbehopkins/gkvlite"
)

// Deterministic interleaving for C15: an item is cached key-only; reader A reloads it with its value and is PARKED
// inside the ReadAt of the value; reader B performs the same reload to the end; A is released and finds the cache slot
// changed.  Whatever each reader does with the stale item and with its own copy, no count may drop below zero, both
// handed-out items have a positive count, and after the releases and Close every count is zero.
func runC15Parked(seed uint64, withEvict bool) string {
	r := NewRng(seed)
	rc := NewRefCounter()
	cb := rc.callbacks(gkvlite.StoreCallbacks{})
	mf := NewMemFile()
	mf.logOn = false
	s, err := gkvlite.NewStoreEx(mf, cb)
	if err != nil {
		return "open: " + err.Error()
	}
	c := s.SetCollection("p", nil)
	n := 4 + r.Intn(6)
	target := r.Intn(n)
	valLen := 700 + r.Intn(100)
	val := bytes.Repeat([]byte{byte('A' + r.Intn(20))}, valLen)
	key := func(i int) []byte { return []byte(fmt.Sprintf("k%02d", i)) }
	for i := 0; i < n; i++ {
		v := []byte(fmt.Sprintf("value-%d", i))
		if i == target {
			v = val
		}
		if err := c.SetItem(&gkvlite.Item{Key: key(i), Val: v, Priority: int32(r.U64() & 0x7fffffff)}); err != nil {
			return "set: " + err.Error()
		}
	}
	if err := s.Flush(); err != nil {
		return "flush: " + err.Error()
	}
	s.Close()
	s2, err := gkvlite.NewStoreEx(mf, cb) // nothing cached
	if err != nil {
		return "reopen: " + err.Error()
	}
	c2 := s2.GetCollection("p")
	if ok := c2.Exist(key(target)); !ok { // the item is cached key-only
		return "exist: false"
	}
	parked := make(chan struct{})
	gate := make(chan struct{})
	armed := true
	mf.park = func(kind byte, off int64, ln int) {
		if armed && kind == 'R' && ln == valLen {
			armed = false
			close(parked)
			<-gate
		}
	}
	type res struct {
		it  *gkvlite.Item
		err error
		pan interface{}
	}
	done := make(chan res, 1)
	go func() {
		var out res
		defer func() {
			if p := recover(); p != nil {
				out.pan = p
			}
			done <- out
		}()
		out.it, out.err = c2.GetItem(key(target), true)
	}()
	select {
	case <-parked:
	case <-done:
		mf.park = nil
		return "skip"
	case <-time.After(5 * time.Second):
		mf.park = nil
		return "skip"
	}
	// reader B, on this goroutine, while A sits inside the ReadAt of the value
	itB, errB := c2.GetItem(key(target), true)
	if withEvict {
		c2.EvictSomeItems()
		c2.Exist(key(target))
	}
	close(gate)
	var a res
	select {
	case a = <-done:
	case <-time.After(10 * time.Second):
		return "reader A did not return within 10 s after being released"
	}
	mf.park = nil
	if a.pan != nil {
		return fmt.Sprintf("reader A panicked: %v", a.pan)
	}
	if a.err != nil || errB != nil || a.it == nil || itB == nil {
		return fmt.Sprintf("GetItem: A=%v/%v B=%v/%v", a.it != nil, a.err, itB != nil, errB)
	}
	check := func() string {
		rc.mu.Lock()
		defer rc.mu.Unlock()
		if len(rc.neg) > 0 {
			return "a count dropped below zero: " + rc.neg[0]
		}
		return ""
	}
	if m := check(); m != "" {
		return m
	}
	for _, it := range []*gkvlite.Item{a.it, itB} {
		rc.mu.Lock()
		cnt := rc.cnt[it]
		rc.mu.Unlock()
		if cnt <= 0 {
			return fmt.Sprintf("an item handed to a caller has count %d", cnt)
		}
		if !bytes.Equal(it.Key, key(target)) || !bytes.Equal(it.Val, val) {
			return fmt.Sprintf("an item handed to a caller holds key %q and a value of %d bytes (recycled?)", it.Key, len(it.Val))
		}
	}
	s2.ItemDecRef(c2, a.it)
	s2.ItemDecRef(c2, itB)
	if m := check(); m != "" {
		return m
	}
	s2.Close()
	if m := check(); m != "" {
		return m
	}
	if out := rc.outstanding(); len(out) > 0 {
		return fmt.Sprintf("after both releases and Close: %v", out)
	}
	return ""
}
