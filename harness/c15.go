package main

import (
	"fmt"
	"sort"
	"sync"

	"github.com/cbehopkins/gkvlite"
)

// RefCounter tracks, per *Item, the references gkvlite holds according
// to its own ItemAlloc/ItemAddRef/ItemDecRef callbacks.
type RefCounter struct {
	mu      sync.Mutex
	cnt     map[*gkvlite.Item]int
	own     map[*gkvlite.Item]bool // items the ItemAlloc callback produced (loaded from the file)
	Recycled int
	hold     bool            // recycling suspended (during CopyTo: known finding copyto-destination-uncounted)
	deferred []*gkvlite.Item // items whose count reached zero while suspended
	neg     []string
	zeroOut []string
	Allocs  int
	AddRefs int
	DecRefs int
}

func NewRefCounter() *RefCounter {
	return &RefCounter{cnt: map[*gkvlite.Item]int{}, own: map[*gkvlite.Item]bool{}}
}

func (rc *RefCounter) callbacks(cb gkvlite.StoreCallbacks) gkvlite.StoreCallbacks {
	cb.ItemAlloc = func(c *gkvlite.Collection, keyLength uint32) *gkvlite.Item {
		i := &gkvlite.Item{Key: make([]byte, keyLength)}
		rc.mu.Lock()
		rc.cnt[i] = 1
		rc.own[i] = true
		rc.Allocs++
		rc.mu.Unlock()
		return i
	}
	cb.ItemAddRef = func(c *gkvlite.Collection, i *gkvlite.Item) {
		rc.mu.Lock()
		rc.cnt[i]++
		rc.AddRefs++
		rc.mu.Unlock()
	}
	cb.ItemDecRef = func(c *gkvlite.Collection, i *gkvlite.Item) {
		rc.mu.Lock()
		rc.cnt[i]--
		rc.DecRefs++
		if rc.cnt[i] < 0 {
			rc.neg = append(rc.neg, fmt.Sprintf("item key=%x count=%d", i.Key, rc.cnt[i]))
		}
		if rc.cnt[i] == 0 && rc.own[i] {
			if rc.hold {
				rc.deferred = append(rc.deferred, i)
			} else {
				rc.recycle(i)
			}
		}
		rc.mu.Unlock()
	}
	return cb
}

// recycle: a recycling allocator.  Once gkvlite has released its last reference to an item the allocator produced,
// the key and value buffers belong to the allocator again and are overwritten (as if handed to the next item).
func (rc *RefCounter) recycle(i *gkvlite.Item) {
	for j := range i.Key {
		i.Key[j] = 0xA5
	}
	for j := range i.Val {
		i.Val[j] = 0xA5
	}
	rc.Recycled++
}

// suspend / resume bracket a CopyTo: its destination store shares the source's Items without counting its references
// (known finding copyto-destination-uncounted, probed separately), so recycling is postponed until the destination
// has been compared and closed.
func (rc *RefCounter) suspend() {
	rc.mu.Lock()
	rc.hold = true
	rc.mu.Unlock()
}

func (rc *RefCounter) resume() {
	rc.mu.Lock()
	rc.hold = false
	for _, i := range rc.deferred {
		if rc.cnt[i] == 0 {
			rc.recycle(i)
		}
	}
	rc.deferred = nil
	rc.mu.Unlock()
}

// handedOut checks that an item given to the caller has a positive count.
func (rc *RefCounter) handedOut(i *gkvlite.Item) {
	rc.mu.Lock()
	if rc.cnt[i] <= 0 {
		rc.zeroOut = append(rc.zeroOut, fmt.Sprintf("item key=%x handed to the caller with count=%d", i.Key, rc.cnt[i]))
	}
	rc.mu.Unlock()
}

func (rc *RefCounter) get(p uintptr, items map[uintptr]*gkvlite.Item) int { return 0 }

func (rc *RefCounter) outstanding() []string {
	rc.mu.Lock()
	defer rc.mu.Unlock()
	var r []string
	for i, n := range rc.cnt {
		if n != 0 {
			r = append(r, fmt.Sprintf("key=%x count=%d", i.Key, n))
		}
	}
	sort.Strings(r)
	return r
}

func walkDump(n *gkvlite.VerifNode, f func(*gkvlite.VerifNode)) {
	if n == nil {
		return
	}
	f(n)
	walkDump(n.Left, f)
	walkDump(n.Right, f)
}

func init() {
	checks["C15"] = checkC15
	postOracles["refcount"] = func(cfg *RunCfg) {
		var rc *RefCounter
		cfg.OnWorld = func(w *World) { rc = w.RC }
		_ = rc
		cfg.PostStep = func(w *World, i int, op Op, obs string) *Mismatch {
			rc := w.RC
			rc.mu.Lock()
			neg, zo := rc.neg, rc.zeroOut
			rc.mu.Unlock()
			if len(neg) > 0 {
				return &Mismatch{Kind: "refcount-negative", Expected: "no item count below zero", Observed: neg[0]}
			}
			if len(zo) > 0 {
				return &Mismatch{Kind: "refcount-handed-out", Expected: "items handed to the caller have a positive count", Observed: zo[0]}
			}
			// every item cached in a tree reachable from an open handle is positive
			byPtr := map[uintptr]int{}
			rc.mu.Lock()
			for it, n := range rc.cnt {
				byPtr[itemPtr(it)] = n
			}
			rc.mu.Unlock()
			var bad string
			for _, h := range w.H {
				if h.Closed {
					continue
				}
				for _, name := range h.Store.GetCollectionNames() {
					d := gkvlite.VerifDump(h.Store.GetCollection(name))
					walkDump(d.Root, func(n *gkvlite.VerifNode) {
						if n.ItemCached && byPtr[n.ItemPtr] <= 0 && bad == "" {
							bad = fmt.Sprintf("item key=%x cached in collection %q has count %d", n.Key, name, byPtr[n.ItemPtr])
						}
					})
				}
			}
			if bad != "" {
				return &Mismatch{Kind: "refcount-reachable", Expected: "items reachable from an open handle have a positive count", Observed: bad}
			}
			return nil
		}
		cfg.PostRun = func(w *World) *Mismatch {
			// close everything, snapshots and store, in an order derived from the history
			order := make([]int, len(w.H))
			for i := range order {
				order[i] = i
			}
			if len(order)%2 == 0 {
				for i, j := 0, len(order)-1; i < j; i, j = i+1, j-1 {
					order[i], order[j] = order[j], order[i]
				}
			}
			res := w.guard(func() string {
				for _, hi := range order {
					if !w.H[hi].Closed {
						w.H[hi].Store.Close()
						w.H[hi].Closed = true
					}
				}
				return "ok"
			})
			if res != "ok" {
				return &Mismatch{Kind: "panic", Expected: "(no panic)", Observed: res + ": " + w.Panic, Op: "close all"}
			}
			if out := w.RC.outstanding(); len(out) > 0 {
				if len(out) > 5 {
					out = append(out[:5], fmt.Sprintf("... %d more", len(out)-5))
				}
				return &Mismatch{Kind: "refcount-leak", Op: "close all", Expected: "every count is zero once the store and all snapshots are closed", Observed: fmt.Sprint(out)}
			}
			return nil
		}
	}
}

func checkC15(rep *Report, rng *Rng, tier string) {
	n := 400
	if tier == "thorough" {
		n = 5000
	}
	probeGetReference(rep)
	probeCopyToUncounted(rep)
	// two readers reloading the same key-only cached item with its value, one parked inside its value read
	parkedRuns, parkedSkipped := 0, 0
	for k := 0; k < 40 && len(rep.Violations) == 0; k++ {
		seed := rng.U64()
		w := &World{Timeout: 30e9}
		res := w.guard(func() string { return runC15Parked(seed, k%2 == 1) })
		rep.Evaluations++
		parkedRuns++
		if res == "skip" {
			parkedSkipped++
		} else if res != "" {
			rep.Violation("", false, map[string]interface{}{"scenario": "item cached key-only; reader A reloads it with its value and is parked inside the value read; reader B does the same reload to the end; A is released", "scenario_seed": seed, "with_eviction": k%2 == 1,
				"observed": res, "expected": "no count below zero, both handed-out items positive and intact, all counts zero after the releases and Close"})
		}
	}
	rep.Extra["parked_two_reader_reloads"] = parkedRuns
	rep.Extra["parked_two_reader_reloads_skipped"] = parkedSkipped
	rep.Rule = "seeded histories of mutations, lookups, visits (plain, Ex, iterators, early stops), evictions, flushes, re-opens, snapshots (reads through them, closes in varying order) over 1-3 collections with ItemAlloc/ItemAddRef/ItemDecRef installed; after every step: no count below zero, every item handed to the caller or cached under an open handle (verif-tag dump) has a positive count; at the end everything is closed and every count must be zero; non-trivial = at least 8 ops"
	HistoryLoop(rep, rng, n, func(r *Rng, i int) (RunCfg, []Op, string) {
		g := GenCfg{FileBacked: r.Chance(3, 4), NColls: 1 + r.Intn(3), NOps: 30 + r.Intn(70), Structural: true, Visits: true, PrioMode: r.Intn(4), Invalid: r.Chance(1, 3), CollMgmt: r.Chance(1, 3)}
		ops := GenHistory(r, g)
		ops = weaveSnapshots(r, ops, r.Intn(3))
		if r.Chance(1, 3) && len(ops) > 6 {
			// CopyTo takes and must give back references on the source's items (also with several collections)
			for k := 1 + r.Intn(2); k > 0; k-- {
				at := 3 + r.Intn(len(ops)-3)
				ops = append(ops[:at:at], append([]Op{{K: "copyto", N: []int{-1, 0, 1, 2, 5}[r.Intn(5)]}}, ops[at:]...)...)
			}
		}
		if g.FileBacked && r.Chance(1, 2) {
			// right after a re-open (nothing cached): a snapshot, ONE mutation of the original, then reads through the
			// snapshot of the other keys -- a version that is still referenced must not end up with private copies of
			// records whose references nobody gives back
			var keys [][]byte
			var names []string
			for _, o := range ops {
				if o.K == "set" && len(o.Key) > 0 && len(o.Key) < 100 {
					keys = append(keys, o.Key)
				}
				if o.K == "coll" {
					names = append(names, o.Name)
				}
			}
			nsnap := 0
			for _, o := range ops {
				if o.K == "snap" {
					nsnap++
				}
			}
			if len(keys) > 1 && len(names) > 0 {
				nm := names[r.Intn(len(names))]
				extra := []Op{{K: "flush"}, {K: "reopen"}, {K: "snap"}}
				k0 := keys[r.Intn(len(keys))]
				if r.Chance(1, 2) {
					extra = append(extra, Op{K: "del", Name: nm, Key: k0})
				} else {
					extra = append(extra, Op{K: "set", Name: nm, Key: k0, Val: []byte("replaced"), Prio: int32(r.U64() & 0x7fffffff)})
				}
				for q := 0; q < 4; q++ {
					extra = append(extra, Op{K: "geti", H: nsnap + 1, Name: nm, Key: keys[r.Intn(len(keys))], WV: r.Chance(1, 2)})
				}
				if r.Chance(1, 2) {
					extra = append(extra, Op{K: "close", H: nsnap + 1})
				}
				ops = append(ops, extra...)
			}
		}
		for j := range ops {
			// Get() cannot return the reference it takes (known finding, probed separately)
			if ops[j].K == "get" {
				ops[j].K = "geti"
				ops[j].WV = true
			}
			if ops[j].K == "tot" && r.Chance(1, 3) {
				ops[j].K = "len"
			}
		}
		d := CfgDesc{Check: "C15", FileBacked: g.FileBacked, Post: "refcount", CBSet: cbRefCount}
		return d.RunCfg(), ops, d.String()
	}, nil)
}
