package main

import (
	"bytes"
	"fmt"
	"time"

	"github.com/cbehopkins/gkvlite"
)

// Deterministic interleavings for C05: a reader is PARKED inside one particular ReadAt (the read of an item's value)
// while the main goroutine runs other calls, then released.  No timing is involved: the reader signals when it is
// parked; if it never parks (the read pattern differs) the scenario is skipped, not failed.

type parkedScenario struct {
	Name     string
	Reader   string // "get" | "min" | "geti"
	Meanwhile string
}

var parkedScenarios = []parkedScenario{
	{"value read vs key-only visit + Exist (item cache)", "get", "evict-recache"},
	{"value read vs key-only visit + Exist (item cache), GetItem", "geti", "evict-recache"},
	{"value read vs overwrite of the key + node reuse", "get", "overwrite-recycle"},
	{"value read vs delete of the key + node reuse", "get", "delete-recycle"},
	{"MinItem value read vs two mutations + node reuse", "min", "overwrite-recycle"},
	{"value read vs EvictSomeItems + key-only GetItem", "get", "evictsome-recache"},
}

// runParked returns "" when the scenario behaved, "skip" when the reader never parked, or a description of the failure.
func runParked(sc parkedScenario, seed uint64) string {
	r := NewRng(seed)
	mf := NewMemFile()
	mf.logOn = false
	s, err := gkvlite.NewStore(mf)
	if err != nil {
		return "open: " + err.Error()
	}
	c := s.SetCollection("p", nil)
	n := 6 + r.Intn(6)
	target := 1 + r.Intn(n-2)
	if sc.Reader == "min" {
		target = 0
	}
	valLen := 700 + r.Intn(100) // a length no other read of this file has
	oldVal := bytes.Repeat([]byte{byte('A' + r.Intn(20))}, valLen)
	newVal := bytes.Repeat([]byte{byte('a' + r.Intn(20))}, valLen+1)
	key := func(i int) []byte { return []byte(fmt.Sprintf("k%02d", i)) }
	for i := 0; i < n; i++ {
		v := []byte(fmt.Sprintf("value-%d", i))
		if i == target {
			v = oldVal
		}
		if err := c.SetItem(&gkvlite.Item{Key: key(i), Val: v, Priority: int32(r.U64() & 0x7fffffff)}); err != nil {
			return "set: " + err.Error()
		}
	}
	if err := s.Flush(); err != nil {
		return "flush: " + err.Error()
	}
	s2, err := gkvlite.NewStore(mf) // nothing cached
	if err != nil {
		return "reopen: " + err.Error()
	}
	c2 := s2.GetCollection("p")
	if sc.Meanwhile == "evict-recache" || sc.Meanwhile == "evictsome-recache" {
		c2.Exist(key(target)) // the item is cached key-only
	}
	parked := make(chan struct{})
	gate := make(chan struct{})
	armed := true
	mf.park = func(kind byte, off int64, ln int) {
		if armed && kind == 'R' && ln == valLen {
			armed = false
			close(parked)
			<-gate
		}
	}
	type res struct {
		val []byte
		key []byte
		err error
		pan interface{}
	}
	done := make(chan res, 1)
	go func() {
		var out res
		defer func() {
			if p := recover(); p != nil {
				out.pan = p
			}
			done <- out
		}()
		switch sc.Reader {
		case "get":
			out.val, out.err = c2.Get(key(target))
			out.key = key(target)
		case "geti":
			it, e := c2.GetItem(key(target), true)
			out.err = e
			if it != nil {
				out.val, out.key = it.Val, it.Key
			}
		case "min":
			it, e := c2.MinItem(true)
			out.err = e
			if it != nil {
				out.val, out.key = it.Val, it.Key
			}
		}
	}()
	select {
	case <-parked:
	case r0 := <-done:
		mf.park = nil
		_ = r0
		return "skip"
	case <-time.After(5 * time.Second):
		mf.park = nil
		return "skip"
	}
	// the reader sits inside the ReadAt of the value; meanwhile, on this goroutine:
	accept := [][]byte{oldVal}
	var merr error
	other, _ := gkvlite.NewStore(nil)
	oc := other.SetCollection("other", nil)
	recycle := func() {
		for i := 0; i < 60; i++ {
			oc.SetItem(&gkvlite.Item{Key: []byte(fmt.Sprintf("other-%03d", i)), Val: []byte("VALUE-OF-OTHER-STORE"), Priority: int32(i)})
		}
	}
	switch sc.Meanwhile {
	case "evict-recache":
		merr = c2.VisitItemsAscend([]byte{}, false, func(*gkvlite.Item) bool { return true })
		c2.Exist(key(target))
	case "evictsome-recache":
		for i := 0; i < 8; i++ {
			c2.EvictSomeItems()
		}
		if it, e := c2.GetItem(key(target), false); e != nil {
			merr = e
		} else if it != nil {
			s2.ItemDecRef(c2, it)
		}
	case "overwrite-recycle":
		merr = c2.SetItem(&gkvlite.Item{Key: key(target), Val: newVal, Priority: int32(r.U64() & 0x7fffffff)})
		if merr == nil {
			merr = c2.SetItem(&gkvlite.Item{Key: key(n - 1), Val: []byte("again"), Priority: int32(r.U64() & 0x7fffffff)})
		}
		recycle()
		accept = append(accept, newVal)
	case "delete-recycle":
		_, merr = c2.Delete(key(target))
		if merr == nil {
			merr = c2.SetItem(&gkvlite.Item{Key: key(n - 1), Val: []byte("again"), Priority: int32(r.U64() & 0x7fffffff)})
		}
		recycle()
	}
	close(gate)
	var out res
	select {
	case out = <-done:
	case <-time.After(10 * time.Second):
		return "the parked reader did not return within 10 s after its read was released (deadlock)"
	}
	mf.park = nil
	if merr != nil {
		return "a call made while the reader was parked failed: " + merr.Error()
	}
	if out.pan != nil {
		return fmt.Sprintf("the reader panicked: %v", out.pan)
	}
	if out.err != nil {
		return "the reader returned an error: " + out.err.Error()
	}
	if !bytes.Equal(out.key, key(target)) {
		return fmt.Sprintf("the reader returned the item of key %q, not of %q", out.key, key(target))
	}
	ok := false
	for _, a := range accept {
		if bytes.Equal(out.val, a) {
			ok = true
		}
	}
	if sc.Meanwhile == "delete-recycle" && out.val != nil && !ok {
		ok = false
	}
	if !ok {
		return fmt.Sprintf("the reader returned a value (%d bytes, %q...) that key %q had in no version", len(out.val), trunc(string(out.val), 24), key(target))
	}
	return ""
}

// runParkedNode: reader A looks a key up on a store that has nothing cached and is parked at the END of its k-th node
// ReadAt (the bytes are in its buffer, the call has not returned); reader B then looks up keys on other paths, loading
// other nodes; A is released.  Both must answer from the one version there is, and a full visit afterwards must show
// every item (a node parsed from another node's bytes stays cached).
func runParkedNode(seed uint64) string {
	r := NewRng(seed)
	mf := NewMemFile()
	mf.logOn = false
	s, err := gkvlite.NewStore(mf)
	if err != nil {
		return "open: " + err.Error()
	}
	c := s.SetCollection("p", nil)
	n := 10 + r.Intn(30)
	key := func(i int) []byte { return []byte(fmt.Sprintf("k%03d", i)) }
	val := func(i int) []byte { return []byte(fmt.Sprintf("value-%d", i)) }
	for i := 0; i < n; i++ {
		if err := c.SetItem(&gkvlite.Item{Key: key(i), Val: val(i), Priority: int32(r.U64() & 0x7fffffff)}); err != nil {
			return "set: " + err.Error()
		}
	}
	if err := s.Flush(); err != nil {
		return "flush: " + err.Error()
	}
	s2, err := gkvlite.NewStore(mf) // nothing cached
	if err != nil {
		return "reopen: " + err.Error()
	}
	c2 := s2.GetCollection("p")
	const nodeLen = 52
	kth := 1 + r.Intn(3)
	seen := 0
	parked := make(chan struct{})
	gate := make(chan struct{})
	armed := true
	mf.parkAfter = func(kind byte, off int64, ln int) {
		if armed && kind == 'R' && ln == nodeLen {
			seen++
			if seen == kth {
				armed = false
				close(parked)
				<-gate
			}
		}
	}
	ka := r.Intn(n)
	type res struct {
		val []byte
		err error
		pan interface{}
	}
	done := make(chan res, 1)
	go func() {
		var out res
		defer func() {
			if p := recover(); p != nil {
				out.pan = p
			}
			done <- out
		}()
		out.val, out.err = c2.Get(key(ka))
	}()
	select {
	case <-parked:
	case <-done:
		mf.parkAfter = nil
		return "skip"
	case <-time.After(5 * time.Second):
		mf.parkAfter = nil
		return "skip"
	}
	var msg string
	for j := 0; j < 6 && msg == ""; j++ {
		kb := r.Intn(n)
		v, err := c2.Get(key(kb))
		if err != nil || !bytes.Equal(v, val(kb)) {
			msg = fmt.Sprintf("reader B: Get(%s) = %q, %v while reader A is parked in a node read", key(kb), v, err)
		}
	}
	close(gate)
	var a res
	select {
	case a = <-done:
	case <-time.After(10 * time.Second):
		return "reader A did not return within 10 s after being released"
	}
	mf.parkAfter = nil
	if msg != "" {
		return msg
	}
	if a.pan != nil {
		return fmt.Sprintf("reader A panicked: %v", a.pan)
	}
	if a.err != nil || !bytes.Equal(a.val, val(ka)) {
		return fmt.Sprintf("reader A: Get(%s) = %q, %v after being parked at the end of its node read no. %d", key(ka), a.val, a.err, kth)
	}
	cnt := 0
	var verr string
	err = c2.VisitItemsAscend(nil, true, func(i *gkvlite.Item) bool {
		if !bytes.Equal(i.Key, key(cnt)) || !bytes.Equal(i.Val, val(cnt)) {
			verr = fmt.Sprintf("visit afterwards: item %d is %q=%q", cnt, i.Key, i.Val)
			return false
		}
		cnt++
		return true
	})
	if err != nil {
		return "visit afterwards: " + err.Error()
	}
	if verr != "" {
		return verr
	}
	if cnt != n {
		return fmt.Sprintf("visit afterwards delivers %d of %d items", cnt, n)
	}
	return ""
}

// runSetCollRace: a snapshot and a handle that REPLACED the collection's handle (SetCollection on the existing name) share
// one version record; readers hammer both at once (every read pins and unpins that record).  Afterwards every key is still
// readable through both, the record's reference count is what the open handles account for (a following mutation and the
// snapshot's Close proceed), and nothing panicked or hung.
func runSetCollRace(seed uint64, millis int) string {
	r := NewRng(seed)
	s, err := gkvlite.NewStore(nil)
	if err != nil {
		return "open: " + err.Error()
	}
	c := s.SetCollection("x", nil)
	n := 20 + r.Intn(60)
	key := func(i int) []byte { return []byte(fmt.Sprintf("k%03d", i)) }
	for i := 0; i < n; i++ {
		if err := c.SetItem(&gkvlite.Item{Key: key(i), Val: key(i), Priority: int32(r.U64() & 0x7fffffff)}); err != nil {
			return "set: " + err.Error()
		}
	}
	snap := s.Snapshot()
	cs := snap.GetCollection("x")
	c2 := s.SetCollection("x", nil) // replaces the handle, shares the version
	stop := make(chan struct{})
	errc := make(chan string, 16)
	done := make(chan struct{}, 16)
	reader := func(col *gkvlite.Collection, id int) {
		defer func() {
			if p := recover(); p != nil {
				select {
				case errc <- fmt.Sprintf("reader %d panicked: %v", id, p):
				default:
				}
			}
			done <- struct{}{}
		}()
		rr := NewRng(seed + uint64(id)*977)
		for {
			select {
			case <-stop:
				return
			default:
			}
			k := rr.Intn(n)
			v, err := col.Get(key(k))
			if err != nil || !bytes.Equal(v, key(k)) {
				select {
				case errc <- fmt.Sprintf("reader %d: Get(%s) = %q, %v", id, key(k), v, err):
				default:
				}
				return
			}
			if rr.Chance(1, 8) {
				cnt := 0
				col.VisitItemsAscend(nil, false, func(i *gkvlite.Item) bool { cnt++; return cnt < 10 })
			}
		}
	}
	const per = 4
	for i := 0; i < per; i++ {
		go reader(cs, i)
		go reader(c2, per+i)
	}
	time.Sleep(time.Duration(millis) * time.Millisecond)
	close(stop)
	for i := 0; i < 2*per; i++ {
		select {
		case <-done:
		case <-time.After(20 * time.Second):
			return "a reader did not stop within 20 s (blocked on a lock)"
		}
	}
	select {
	case m := <-errc:
		return m
	default:
	}
	// afterwards: a mutation through the replacement handle, the snapshot still shows the old contents, close it, read on
	if err := c2.SetItem(&gkvlite.Item{Key: []byte("new"), Val: []byte("new"), Priority: 1}); err != nil {
		return "set after the readers: " + err.Error()
	}
	for i := 0; i < n; i++ {
		if v, err := cs.Get(key(i)); err != nil || !bytes.Equal(v, key(i)) {
			return fmt.Sprintf("snapshot after the readers: Get(%s) = %q, %v", key(i), v, err)
		}
	}
	if v, _ := cs.Get([]byte("new")); v != nil {
		return "the snapshot shows a key set after it was taken"
	}
	snap.Close()
	for i := 0; i < n; i++ {
		if err := c2.SetItem(&gkvlite.Item{Key: []byte(fmt.Sprintf("m%03d", i)), Val: []byte("v"), Priority: int32(i)}); err != nil {
			return "set after closing the snapshot: " + err.Error()
		}
	}
	for i := 0; i < n; i++ {
		if v, err := c2.Get(key(i)); err != nil || !bytes.Equal(v, key(i)) {
			return fmt.Sprintf("after closing the snapshot and %d more inserts: Get(%s) = %q, %v", n, key(i), v, err)
		}
	}
	return ""
}
