package main

func init() { checks["C11"] = checkC11 }

func checkC11(rep *Report, rng *Rng, tier string) {
	n := 300
	if tier == "thorough" {
		n = 3000
	}
	rep.Rule = "seeded source histories (1-4 collections incl. empty ones, 4 comparators, flushed / unflushed / evicted / freshly re-opened, also snapshots as sources) followed by CopyTo with flushEvery in {-1,0,1,2,3,n-1,n,n+1,10n}: the returned store must have exactly the source's collections, keys, values and priorities; for flushEvery>0 the destination file re-opens to that state, the Coq decoder reconstructs it, and every live item record occurs exactly once in the destination file; the source's contents and file are unchanged (no write/truncate on the source file during CopyTo); a third of the copies run with ONE transient fault on a destination file call (any position, writes torn or not): CopyTo must return an error, never a silently incomplete copy; non-trivial = at least 8 ops and one CopyTo"
	HistoryLoop(rep, rng, n, func(r *Rng, i int) (RunCfg, []Op, string) {
		g := GenCfg{FileBacked: r.Chance(3, 4), NColls: 1 + r.Intn(4), NOps: 20 + r.Intn(60), CmpMode: r.Intn(2), Structural: true, PrioMode: r.Intn(4), NKeys: 4 + r.Intn(25), BigVals: r.Chance(1, 6)}
		ops := GenHistory(r, g)
		nitems := 0
		for _, o := range ops {
			if o.K == "set" {
				nitems++
			}
		}
		fe := []int{-1, 0, 1, 2, 3, nitems - 1, nitems, nitems + 1, 10 * nitems, 1 + r.Intn(6)}
		// some empty collections sorting after the others
		if r.Chance(1, 3) {
			ops = append(ops, Op{K: "coll", Name: "zz-empty", N: 0})
		}
		if r.Chance(1, 4) {
			ops = append(ops, Op{K: "coll", Name: "m-empty", N: 0})
		}
		switch r.Intn(4) {
		case 0:
			ops = append(ops, Op{K: "flush"})
		case 1:
			if g.FileBacked {
				ops = append(ops, Op{K: "flush"}, Op{K: "reopen"})
			}
		}
		ncopy := 1 + r.Intn(3)
		src := 0
		if r.Chance(1, 4) {
			ops = append(ops, Op{K: "snap"})
			src = 1
		}
		for j := 0; j < ncopy; j++ {
			f := fe[r.Intn(len(fe))]
			if f < -1 {
				f = -1
			}
			cp := Op{K: "copyto", H: src, N: f}
			if r.Chance(1, 3) {
				// one transient fault on a destination file call: an error, never a silently incomplete copy
				cp.Prio, cp.WV = int32(1+r.Intn(4+4*nitems)), r.Chance(1, 2)
			}
			ops = append(ops, cp)
			if r.Chance(1, 2) && len(ops) > 3 {
				// keep mutating the source between copies
				o := ops[1+r.Intn(len(ops)-2)]
				if o.K == "set" || o.K == "del" {
					ops = append(ops, o)
				}
			}
		}
		cmpCB := g.CmpMode == 1
		if cmpCB && r.Chance(1, 2) {
			// comparators given to SetCollection only (no KeyCompareForCollection callback): the source is then
			// never re-opened, and the copy must still use each collection's comparator
			cmpCB = false
			var keep []Op
			for _, o := range ops {
				if o.K != "reopen" {
					keep = append(keep, o)
				}
			}
			ops = keep
		}
		d := CfgDesc{Check: "C11", FileBacked: g.FileBacked, CmpCB: cmpCB, DumpEvery: true}
		return d.RunCfg(), ops, d.String()
	}, nil)
	rep.Extra["destination_files_compared_with_model"] = copyRunCompared
}
