package main

import (
	"fmt"
	"strings"

	"github.com/cbehopkins/gkvlite"
)

func init() {
	checks["C14"] = checkC14
	postOracles["decode"] = func(cfg *RunCfg) { cfg.PostStep = decodeOracle }
}

// decodeOracle: the Coq decoder (no code shared with gkvlite) must
// reconstruct the flushed reference state from the file bytes, and the
// file must conform to layout v4 (Disk.conforms_v4).
func decodeOracle(w *World, i int, op Op, obs string) *Mismatch {
	if w.File == nil || op.H != 0 {
		return nil
	}
	if !((op.K == "flush" && obs == "ok") || i%7 == 0) {
		return nil
	}
	img := w.File.Bytes()
	got := DecodeModel(img)
	if got == "timeout" {
		return nil
	}
	exp := "empty"
	if len(w.Flushed) > 0 {
		exp = w.Flushed[len(w.Flushed)-1].dump()
	}
	switch {
	case len(img) == 0:
		if got != "empty" {
			return &Mismatch{Kind: "decode", Expected: "empty", Observed: got}
		}
		return nil
	case len(w.Flushed) == 0:
		// junk only, or a store reverted to nothing
		if got == "noroots" || got == "empty" {
			return nil
		}
		return &Mismatch{Kind: "decode", Expected: "no root record", Observed: trunc(got, 300)}
	}
	if !strings.HasPrefix(got, "ok ") {
		return &Mismatch{Kind: "decode", Expected: "the independent decoder reconstructs the flushed state: " + trunc(exp, 200), Observed: got,
			Note: "Disk.decode_store (extracted from Coq) on the bytes of the implementation's file"}
	}
	f := strings.SplitN(got, " ", 3)
	dump := ""
	if len(f) == 3 {
		dump = f[2]
	}
	if dump != exp {
		return &Mismatch{Kind: "decode", Expected: exp, Observed: dump, Note: "Disk.decode_store (extracted from Coq) on the bytes of the implementation's file vs the reference state at the last Flush"}
	}
	if op.K == "flush" && obs == "ok" {
		if sz := gkvlite.VerifStoreSize(w.H[0].Store); fmt.Sprint(sz) != f[1] || int(sz) != len(img) {
			return &Mismatch{Kind: "decode-size", Expected: fmt.Sprintf("root record ends at the store size %d = file length %d", sz, len(img)), Observed: "decoder found the last root ending at " + f[1]}
		}
	}
	cmpOf := map[string]int{}
	for n, c := range w.Flushed[len(w.Flushed)-1].Colls {
		cmpOf[n] = c.Cmp
	}
	if c := ConformsModel(img, cmpOf); c != "true" {
		return &Mismatch{Kind: "conforms-v4", Expected: "true", Observed: c, Note: "Disk.conforms_v4: record lengths, self-delimiting items, children before parents, exact persisted aggregates, search order, sorted names"}
	}
	return nil
}

func checkC14(rep *Report, rng *Rng, tier string) {
	n := 220
	if tier == "thorough" {
		n = 3000
	}
	probeNonUTF8Name(rep)
	probeLongKeys(rep, "C14")
	dmodelOn = true
	rep.Rule = "seeded histories over 1-3 collections (names with JSON-escaped characters, 4 comparators, keys of 1..65535 bytes, empty and large values, values containing the magic markers) with flushes, re-opens and reverts; after every successful Flush (and every 7th step) the file bytes are decoded by Disk.decode_store extracted from Coq and compared with the reference state of the last Flush, the decoder's root end must equal the store size, and Disk.conforms_v4 must accept the file; non-trivial = at least one flush"
	HistoryLoop(rep, rng, n, func(r *Rng, i int) (RunCfg, []Op, string) {
		d, ops := genC14(r, i)
		return d.RunCfg(), ops, d.String()
	}, nil)
	rep.Extra["steps_compared_with_byte_level_model_DStore"] = dmodelSteps
	rep.Extra["histories_satisfying_history_ok_of_c02_history"] = dmodelHistOK
	rep.Extra["histories_outside_history_ok"] = dmodelHistNotOK
}

func genC14(r *Rng, i int) (CfgDesc, []Op) {
	g := GenCfg{FileBacked: true, NColls: 1 + r.Intn(3), NOps: 20 + r.Intn(60), CmpMode: r.Intn(2), Structural: true, CollMgmt: r.Chance(1, 3),
		PrioMode: r.Intn(4), BigVals: r.Chance(1, 5), Revert: r.Chance(1, 4), NKeys: 5 + r.Intn(30)}
	ops := GenHistory(r, g)
	ops = append(ops, Op{K: "flush"})
	d := CfgDesc{Check: "C14", FileBacked: true, CmpCB: g.CmpMode == 1, Post: "decode", Digests: true}
	return d, ops
}
