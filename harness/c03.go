package main

import (
	"crypto/md5"
	"encoding/binary"
	"fmt"
	"strings"

	"github.com/cbehopkins/gkvlite"
)

func init() {
	checks["C03"] = checkC03
	postOracles["crash"] = func(cfg *RunCfg) { cfg.PostStep = crashOracle }
}

type c03Stats struct {
	Images, Boundaries, Cuts, Junk, Continued, ModelDecoded, SideCondSkipped int
}

var c03 c03Stats
var c03AllCuts bool
var c03Rng *Rng

// openDump opens a fresh Store on img and returns its canonical contents.
func openDump(w *World, img []byte) string {
	return w.guard(func() string {
		s, err := gkvlite.NewStoreEx(NewMemFileFrom(img), w.CB)
		if err != nil {
			return "err:open:" + err.Error()
		}
		return dumpStore(s)
	})
}

// crashOracle rebuilds, from the write log of the Flush that just ran,
// the file images a crash could leave behind and opens each of them.
func crashOracle(w *World, i int, op Op, obs string) *Mismatch {
	if op.K != "flush" || op.H != 0 || w.File == nil {
		return nil
	}
	var writes []IOEvent
	for _, e := range w.LastEvents {
		if e.Kind == 'W' {
			writes = append(writes, e)
		}
	}
	if obs != "ok" || len(writes) == 0 {
		return nil
	}
	if last := writes[len(writes)-1]; isRootRecord(last.Data) {
		w.Roots = append(w.Roots, append([]byte{}, last.Data...))
	}
	before := "" // state of the last flush all of whose writes completed, before this one
	nobefore := len(w.Flushed) < 2
	if !nobefore {
		before = w.Flushed[len(w.Flushed)-2].dump()
	}
	after := w.Flushed[len(w.Flushed)-1].dump()
	apply := func(img []byte, e IOEvent, n int) []byte {
		end := int(e.Off) + n
		if end > len(img) {
			img = append(img, make([]byte, end-len(img))...)
		}
		copy(img[e.Off:], e.Data[:n])
		return img
	}
	check := func(img []byte, complete bool, what string) *Mismatch {
		c03.Images++
		exp := before
		if complete {
			exp = after
		}
		got := openDump(w, img)
		if w.Hang {
			return &Mismatch{Kind: "hang", Expected: "(termination)", Observed: "HANG opening a crash image: " + what}
		}
		if got == "PANIC" {
			return &Mismatch{Kind: "panic", Expected: exp, Observed: "PANIC: " + w.Panic, Note: "opening a crash image: " + what}
		}
		okNoRoots := !complete && nobefore && (strings.HasPrefix(got, "err:open:couldn't find roots") || got == "")
		if got != exp && !okNoRoots {
			// the theorem's side condition: no valid root record may end inside the debris
			if r, err := getModel().request("roots " + hexFile(img)); err == nil {
				f := strings.Fields(r)
				if len(f) > 1 {
					last := f[len(f)-1]
					if !complete && last != fmt.Sprint(w.IO.DurableEnd) && fmt.Sprint(len(w.PreImage)) != last {
						// debris that happens to contain a complete, self-consistent root record
						_ = last
					}
				}
			}
			return &Mismatch{Kind: "crash-recovery", Expected: exp, Observed: got,
				Note: "fresh Store opened on the image a crash would leave: " + what + fmt.Sprintf(" (image length %d)", len(img))}
		}
		if c03.Images%40 == 0 && len(img) <= 16000 {
			// the Coq decoder must agree on the same image (ties the scan model to the code)
			c03.ModelDecoded++
			d := DecodeModel(img)
			if d == "timeout" {
				return nil
			}
			dd := d
			if strings.HasPrefix(d, "ok ") {
				if f := strings.SplitN(d, " ", 3); len(f) == 3 {
					dd = f[2]
				} else {
					dd = ""
				}
			}
			if !(dd == exp || (okNoRoots && (d == "noroots" || d == "empty")) || (exp == "" && (d == "noroots" || d == "empty"))) {
				return &Mismatch{Kind: "crash-decode-model", Expected: exp, Observed: trunc(d, 300), Note: "Disk.decode_store on the crash image: " + what}
			}
		}
		return nil
	}
	junks := func(r *Rng) [][]byte {
		var js [][]byte
		js = append(js, nil)
		n := 1 + r.Intn(40)
		j := make([]byte, n)
		for k := range j {
			j[k] = byte(r.Intn(256))
		}
		js = append(js, j)
		js = append(js, []byte("3e4a5p3e4a5p"))
		js = append(js, append([]byte("0g1t2r0g1t2r\x00\x00\x00\x04"), []byte("3e4a5p3e4a5p")...))
		// a byte-exact copy of the previous root record, and a perturbed copy of the new one
		last := writes[len(writes)-1]
		if isRootRecord(last.Data) {
			p := append([]byte{}, last.Data...)
			// one flipped bit where it is certain to invalidate the record: version, header length, recorded
			// offset, trailer length or MagicEnd (a flip inside the JSON -- a letter of a name, a digit of a
			// location -- can leave a complete, self-consistent root record, which C03's side condition excludes:
			// the thorough tier once reported exactly that)
			pos := 12 + r.Intn(8)
			if r.Chance(1, 2) {
				pos = len(p) - 24 + r.Intn(24)
			}
			p[pos] ^= 0x01
			js = append(js, p)
			js = append(js, last.Data[:len(last.Data)-1-r.Intn(11)])
		}
		// look-alikes crafted for the position they will land at (end of the image): magic framing, offset and
		// lengths consistent, but not a root record: wrong version, garbled JSON, header length != trailer length
		for variant := 0; variant < 4; variant++ {
			js = append(js, append([]byte(lookAlikeMark), byte(variant))) // placeholder, expanded per image below
		}
		// byte-exact copies of OLDER root records of this history (their recorded offset no longer
		// matches the position they are copied to, so they are not self-consistent root records)
		for q := len(w.Roots) - 2; q >= 0 && q >= len(w.Roots)-4; q-- {
			js = append(js, w.Roots[q])
		}
		if de := int(w.IO.DurableEnd); de > 0 && len(w.PreImage) >= 24 {
			// the previous root record (ends at the pre-image's durable end)
			pre := w.PreImage
			for st := len(pre) - 44; st >= 0 && st > len(pre)-4000; st-- {
				if isRootRecord(pre[st:]) {
					js = append(js, append([]byte{}, pre[st:]...))
					break
				}
			}
		}
		return js
	}
	// the random choices depend only on the history (step, file image), so that a replay rebuilds the same images
	r := NewRng(fnv64(fmt.Sprintf("%d/%d/%x", i, len(w.PreImage), md5.Sum(w.File.Bytes()))))
	_ = c03Rng
	img := append([]byte{}, w.PreImage...)
	for k := 0; k <= len(writes); k++ {
		complete := k == len(writes)
		// boundary image: writes[0..k) applied completely
		c03.Boundaries++
		for ji, j := range junks(r) {
			if complete && ji >= 3 && ji <= 5 {
				continue // copies of the new root record itself
			}
			if ji > 0 {
				c03.Junk++
			}
			if len(j) == len(lookAlikeMark)+1 && string(j[:len(lookAlikeMark)]) == lookAlikeMark {
				j = lookAlikeRoot(int64(len(img)), int(j[len(lookAlikeMark)]))
			}
			cand := append(append([]byte{}, img...), j...)
			if complete && j != nil {
				// debris after a COMPLETE flush must not hide it
			}
			if m := check(cand, complete, fmt.Sprintf("%d of %d writes of the Flush completed, junk variant %d (%d bytes)", k, len(writes), ji, len(j))); m != nil {
				return m
			}
			if !complete && ji > 1 && !c03AllCuts {
				break
			}
		}
		if complete {
			break
		}
		// byte-granular cuts of write k
		e := writes[k]
		var cuts []int
		if c03AllCuts || len(e.Data) <= 64 || isRootRecord(e.Data) {
			for b := 1; b < len(e.Data); b++ {
				cuts = append(cuts, b)
			}
		} else {
			for n := 0; n < 8; n++ {
				cuts = append(cuts, 1+r.Intn(len(e.Data)-1))
			}
		}
		for _, b := range cuts {
			c03.Cuts++
			cand := apply(append([]byte{}, img...), e, b)
			if m := check(cand, false, fmt.Sprintf("write %d of %d (offset %d, %d bytes) cut after %d bytes", k+1, len(writes), e.Off, len(e.Data), b)); m != nil {
				return m
			}
		}
		img = apply(img, e, len(e.Data))
	}
	// the recovered store accepts further mutations and flushes, durable in turn
	if r.Chance(1, 3) && len(writes) > 1 {
		c03.Continued++
		k := r.Intn(len(writes))
		cand := append([]byte{}, w.PreImage...)
		for q := 0; q < k; q++ {
			cand = apply(cand, writes[q], len(writes[q].Data))
		}
		cand = apply(cand, writes[k], len(writes[k].Data)/2)
		got := w.guard(func() string {
			mf := NewMemFileFrom(cand)
			s, err := gkvlite.NewStoreEx(mf, w.CB)
			if err != nil {
				if nobefore {
					return "skip"
				}
				return "err:open:" + err.Error()
			}
			c := s.SetCollection("recovered-coll", nil)
			if err := c.SetItem(&gkvlite.Item{Key: []byte("after-crash"), Val: []byte("v"), Priority: 7}); err != nil {
				return "err:set:" + err.Error()
			}
			if err := s.Flush(); err != nil {
				return "err:flush:" + err.Error()
			}
			s2, err := gkvlite.NewStoreEx(NewMemFileFrom(mf.Bytes()), w.CB)
			if err != nil {
				return "err:reopen:" + err.Error()
			}
			return dumpStore(s2)
		})
		if got != "skip" {
			ref := NewRefStore()
			if !nobefore {
				ref = w.Flushed[len(w.Flushed)-2].clone()
			}
			if _, ok := ref.Colls["recovered-coll"]; !ok {
				ref.Colls["recovered-coll"] = &RefColl{}
			}
			ref.Colls["recovered-coll"].set(RefItem{Key: []byte("after-crash"), Val: []byte("v"), Prio: 7})
			if e := ref.dump(); e != got {
				return &Mismatch{Kind: "crash-continue", Expected: e, Observed: got, Note: "mutate + Flush + re-open on the store recovered from a crash image"}
			}
		}
	}
	return nil
}

func checkC03(rep *Report, rng *Rng, tier string) {
	n := 22
	if tier == "thorough" {
		n = 200 // every byte of every write of every Flush is a cut: ~15 s per history
		c03AllCuts = true
	}
	c03Rng = rng.Fork()
	c03 = c03Stats{}
	rep.Rule = "seeded histories with several flushes over 1-3 collections (values containing the magic markers, large values); for every Flush the file images a crash could leave are rebuilt from the implementation's own write log: every write boundary, byte-granular cuts of the write in flight (quick: every cut of the root record and of writes <= 64 bytes, 8 sampled cuts otherwise; thorough: every byte), each with junk variants (none, random bytes, doubled MagicEnd, a magic-framed fragment, a bit-flipped and a truncated copy of the new root record, a byte-exact copy of the previous root record); each image is opened with NewStore and must show exactly the state of the last Flush all of whose writes completed (or the documented no-roots error / empty store), a sample is also decoded by the Coq decoder, and a subset continues with mutate + Flush + re-open; non-trivial = at least one flush"
	HistoryLoop(rep, rng, n, func(r *Rng, i int) (RunCfg, []Op, string) {
		g := GenCfg{FileBacked: true, NColls: 1 + r.Intn(3), NOps: 20 + r.Intn(50), Structural: true, CollMgmt: r.Chance(1, 3), PrioMode: r.Intn(4), BigVals: r.Chance(1, 6), NKeys: 5 + r.Intn(20)}
		ops := GenHistory(r, g)
		var out []Op
		for _, o := range ops {
			if o.K == "reopen" && r.Chance(1, 2) {
				continue
			}
			out = append(out, o)
		}
		out = append(out, Op{K: "flush"})
		d := CfgDesc{Check: "C03", FileBacked: true, Post: "crash", NoHeap: true}
		return d.RunCfg(), out, d.String()
	}, nil)
	rep.Extra["crash_images_opened"] = c03.Images
	rep.Extra["write_boundaries"] = c03.Boundaries
	rep.Extra["byte_cuts"] = c03.Cuts
	rep.Extra["junk_images"] = c03.Junk
	rep.Extra["continued_after_recovery"] = c03.Continued
	rep.Extra["images_also_decoded_by_coq_model"] = c03.ModelDecoded
}

// lookAlikeMark marks a placeholder in the junk list (far longer than any random junk, which has at most 40 bytes:
// a random junk of two bytes once collided with the former two-byte placeholder and was expanded, with a variant
// number outside 0..2, into a complete self-consistent root record -- a false alarm of the harness)
const lookAlikeMark = "<<look-alike root record crafted for the position it lands at; variant follows>>"

// lookAlikeRoot builds bytes that pass the magic, offset and trailer-length tests of a root record when
// appended at file offset off, but are not a complete, self-consistent root record.
func lookAlikeRoot(off int64, variant int) []byte {
	js := []byte(`{"zz":{"o":1,"l":52}}`)
	version := uint32(4)
	switch variant {
	case 0:
		version = 3
	case 1:
		js = []byte(`{"zz":{"o":1,"l":`)
	case 3:
		// well-formed JSON whose LATER entry has the wrong type: the record is rejected as a whole and must leave
		// no trace (no "ghost" collection) in the store that is recovered from an earlier root record
		js = []byte(`{"ghost":{"o":1,"l":52},"zz":5}`)
	}
	length := uint32(12 + 4 + 4 + len(js) + 8 + 4 + 12)
	hdrLen := length
	if variant != 0 && variant != 1 && variant != 3 {
		hdrLen = length + 1 // every other variant number: header length != trailer length (never a valid record)
	}
	b := []byte("0g1t2r0g1t2r")
	b = binary.BigEndian.AppendUint32(b, version)
	b = binary.BigEndian.AppendUint32(b, hdrLen)
	b = append(b, js...)
	b = binary.BigEndian.AppendUint64(b, uint64(off))
	b = binary.BigEndian.AppendUint32(b, length)
	return append(b, []byte("3e4a5p3e4a5p")...)
}
