package main

import (
	"encoding/binary"
	"encoding/json"
	"fmt"
	"os"
	"runtime"
	"sync"
	"sync/atomic"
	"time"

	"github.com/cbehopkins/gkvlite"
)

func init() {
	checks["C05"] = checkC05
	replayFns["C05"] = replayC05
}

// One round of the concurrency workload.  Two collections "a" and "b" hold the same n keys.
// The single mutator goroutine performs numbered mutations: in generation g it sets every key
// of b (in ascending key order) to g, then every key of a.  Therefore
//   - every version of a collection has the shape  g g g .. g g-1 g-1 .. g-1  (a prefix already at g),
//     and its version number  V = (g-1)*n + (length of the prefix at g)  counts the mutations applied;
//   - at every instant V(b) >= V(a).
//
// A reader brackets each call with the mutator's progress counters (mutations finished before the
// call started / started before the call ended); what it reads must be ONE version whose number lies
// in that window.  The flusher flushes concurrently; every flushed image must re-open to consistent
// versions with V(b) >= V(a) (b is pinned after a, in name order).
type c05Cfg struct {
	Seed       uint64 `json:"seed"`
	FileBacked bool   `json:"file_backed"`
	NKeys      int    `json:"n_keys"`
	Readers    int    `json:"readers"`
	Flusher    bool   `json:"flusher"`
	Millis     int    `json:"millis"`
	Churn      bool   `json:"churn_collection"`
}

type c05Result struct {
	Bad       []string
	Mutations int64
	Reads     int64
	Flushes   int64
	Snapshots int64
}

func c05Key(i int) []byte { return []byte(fmt.Sprintf("key%04d", i)) }

func c05Val(g uint32) []byte {
	b := make([]byte, 8)
	binary.BigEndian.PutUint32(b, g)
	copy(b[4:], "GENV")
	return b
}

// versionOf checks that vals (in ascending key order) is one version and returns its number.
func c05VersionOf(vals []uint32, n int) (int64, string) {
	if len(vals) != n {
		return 0, fmt.Sprintf("%d items delivered, the collection always holds %d", len(vals), n)
	}
	g := vals[0]
	j := 0
	for j < n && vals[j] == g {
		j++
	}
	for k := j; k < n; k++ {
		if vals[k] != g-1 {
			return 0, fmt.Sprintf("mixed versions: generations %v (a version is a prefix at g followed by g-1)", vals)
		}
	}
	return int64(g-1)*int64(n) + int64(j), ""
}

func runC05Round(cfg c05Cfg) c05Result {
	var res c05Result
	var mu sync.Mutex
	bad := func(format string, a ...interface{}) {
		mu.Lock()
		if len(res.Bad) < 5 {
			res.Bad = append(res.Bad, fmt.Sprintf(format, a...))
		}
		mu.Unlock()
	}
	var mf *MemFile
	var s *gkvlite.Store
	var err error
	if cfg.FileBacked {
		mf = NewMemFile()
		mf.logOn = false
		// widen the windows inside Flush: now and then a write (or read) takes a little longer
		var ioCount uint64
		mf.park = func(kind byte, off int64, n int) {
			c := atomic.AddUint64(&ioCount, 1)
			if kind == 'W' && c%5 == 0 {
				time.Sleep(time.Duration(20+c%7*15) * time.Microsecond)
			} else if c%97 == 0 {
				runtime.Gosched()
			}
		}
		s, err = gkvlite.NewStore(mf)
	} else {
		s, err = gkvlite.NewStore(nil)
	}
	if err != nil {
		res.Bad = append(res.Bad, "open: "+err.Error())
		return res
	}
	n := cfg.NKeys
	a := s.SetCollection("a", nil)
	b := s.SetCollection("b", nil)
	var churn *gkvlite.Collection
	if cfg.Churn {
		churn = s.SetCollection("churn", nil)
	}
	rng := NewRng(cfg.Seed)
	prio := func() int32 { return int32(rng.U64() & 0x7fffffff) }
	// generation 1 everywhere, before any concurrency
	for i := 0; i < n; i++ {
		b.SetItem(&gkvlite.Item{Key: c05Key(i), Val: c05Val(1), Priority: prio()})
		a.SetItem(&gkvlite.Item{Key: c05Key(i), Val: c05Val(1), Priority: prio()})
	}
	if cfg.FileBacked {
		if err := s.Flush(); err != nil {
			res.Bad = append(res.Bad, "initial flush: "+err.Error())
			return res
		}
	}
	// per-collection progress counters: mutations started / finished (version numbers)
	var startedA, doneA, startedB, doneB int64
	atomic.StoreInt64(&startedA, int64(n))
	atomic.StoreInt64(&doneA, int64(n))
	atomic.StoreInt64(&startedB, int64(n))
	atomic.StoreInt64(&doneB, int64(n))
	var stop int32
	var wg sync.WaitGroup
	guard := func(name string, f func()) {
		wg.Add(1)
		go func() {
			defer wg.Done()
			defer func() {
				if r := recover(); r != nil {
					msg := fmt.Sprint(r)
					if len(msg) > 300 {
						msg = msg[:300]
					}
					bad("PANIC in %s: %s", name, msg)
					atomic.StoreInt32(&stop, 1)
				}
			}()
			f()
		}()
	}
	// the single mutating goroutine
	guard("mutator", func() {
		mr := NewRng(cfg.Seed + 1)
		for g := uint32(2); atomic.LoadInt32(&stop) == 0; g++ {
			for pass := 0; pass < 2; pass++ {
				c, st, dn := b, &startedB, &doneB
				if pass == 1 {
					c, st, dn = a, &startedA, &doneA
				}
				for i := 0; i < n; i++ {
					atomic.AddInt64(st, 1)
					if err := c.SetItem(&gkvlite.Item{Key: c05Key(i), Val: c05Val(g), Priority: int32(mr.U64() & 0x7fffffff)}); err != nil {
						bad("mutator: SetItem failed: %v", err)
						return
					}
					atomic.AddInt64(dn, 1)
					atomic.AddInt64(&res.Mutations, 1)
					if churn != nil && mr.Chance(1, 3) {
						k := []byte(fmt.Sprintf("c%03d", mr.Intn(30)))
						if mr.Chance(1, 2) {
							churn.SetItem(&gkvlite.Item{Key: k, Val: []byte("x"), Priority: int32(mr.U64() & 0x7fffffff)})
						} else {
							churn.Delete(k)
						}
					}
					if mr.Chance(1, 40) {
						c.EvictSomeItems()
					}
					if mr.Chance(1, 8) {
						runtime.Gosched()
					}
					if atomic.LoadInt32(&stop) != 0 {
						// finish the pass so that the final contents are easy to state? no: stop anywhere
						return
					}
				}
			}
		}
	})
	// read one collection completely through a visit and check it is ONE version inside the window
	readColl := func(who string, c *gkvlite.Collection, st, dn *int64, desc bool, rr *Rng) (int64, bool) {
		lo := atomic.LoadInt64(dn)
		var vals []uint32
		vis := func(i *gkvlite.Item) bool {
			if len(i.Val) >= 4 {
				vals = append(vals, binary.BigEndian.Uint32(i.Val))
			} else {
				vals = append(vals, 0)
			}
			if rr.Chance(1, 6) {
				runtime.Gosched()
			}
			return true
		}
		var err error
		if desc {
			err = c.VisitItemsDescend([]byte("z"), true, vis)
			for l, r := 0, len(vals)-1; l < r; l, r = l+1, r-1 {
				vals[l], vals[r] = vals[r], vals[l]
			}
		} else {
			err = c.VisitItemsAscend([]byte{}, true, vis)
		}
		hi := atomic.LoadInt64(st)
		atomic.AddInt64(&res.Reads, 1)
		if err != nil {
			bad("%s: visit error: %v", who, err)
			return 0, false
		}
		v, msg := c05VersionOf(vals, n)
		if msg != "" {
			bad("%s: visit did not deliver one version: %s", who, msg)
			return 0, false
		}
		if v < lo || v > hi {
			bad("%s: visit delivered version %d, but the versions current during the call were %d..%d", who, v, lo, hi)
			return v, false
		}
		return v, true
	}
	for r := 0; r < cfg.Readers; r++ {
		r := r
		guard(fmt.Sprintf("reader%d", r), func() {
			rr := NewRng(cfg.Seed + 100 + uint64(r))
			for atomic.LoadInt32(&stop) == 0 {
				switch rr.Intn(6) {
				case 0, 1:
					readColl("reader(a)", a, &startedA, &doneA, rr.Chance(1, 2), rr)
				case 2:
					readColl("reader(b)", b, &startedB, &doneB, rr.Chance(1, 2), rr)
				case 3:
					// point reads
					i := rr.Intn(n)
					lo := (atomic.LoadInt64(&doneA) - int64(i) - 1 + int64(n)) / int64(n) // generation of key i in version doneA (at least)
					v, err := a.Get(c05Key(i))
					hi := (atomic.LoadInt64(&startedA) - int64(i) - 1 + int64(n)) / int64(n)
					atomic.AddInt64(&res.Reads, 1)
					if err != nil || len(v) < 4 {
						bad("reader: Get(%s) = %x, %v", c05Key(i), v, err)
					} else if g := int64(binary.BigEndian.Uint32(v)); g < lo || g > hi {
						bad("reader: Get(%s) returned generation %d, but the key's generations during the call were %d..%d", c05Key(i), g, lo, hi)
					}
				case 4:
					a.AllocStats() // takes all three allocator locks: must not deadlock against a version being reclaimed
					cnt, _, err := a.GetTotals()
					mi, err2 := a.MinItem(true)
					ma, err3 := a.MaxItem(false)
					atomic.AddInt64(&res.Reads, 1)
					if err != nil || err2 != nil || err3 != nil || cnt != uint64(n) || mi == nil || ma == nil || string(mi.Key) != string(c05Key(0)) || string(ma.Key) != string(c05Key(n-1)) {
						bad("reader: totals/min/max wrong: count=%d err=%v %v %v", cnt, err, err2, err3)
					}
				case 5:
					// a snapshot pins a then b (name order): both must be single versions with V(b) >= V(a)
					loA, loB := atomic.LoadInt64(&doneA), atomic.LoadInt64(&doneB)
					sn := s.Snapshot()
					hiA, hiB := atomic.LoadInt64(&startedA), atomic.LoadInt64(&startedB)
					atomic.AddInt64(&res.Snapshots, 1)
					var va, vb int64
					ok := true
					for _, nm := range []string{"a", "b"} {
						var vals []uint32
						c := sn.GetCollection(nm)
						if c == nil {
							bad("snapshot lacks collection %s", nm)
							ok = false
							break
						}
						err := c.VisitItemsAscend([]byte{}, true, func(i *gkvlite.Item) bool {
							vals = append(vals, binary.BigEndian.Uint32(i.Val))
							return true
						})
						if err != nil {
							bad("snapshot visit error: %v", err)
							ok = false
							break
						}
						v, msg := c05VersionOf(vals, n)
						if msg != "" {
							bad("snapshot of %s is not one version: %s", nm, msg)
							ok = false
							break
						}
						if nm == "a" {
							va = v
						} else {
							vb = v
						}
					}
					if ok {
						if va < loA || va > hiA || vb < loB || vb > hiB {
							bad("snapshot versions a=%d (window %d..%d) b=%d (window %d..%d) not current during Snapshot()", va, loA, hiA, vb, loB, hiB)
						}
						if vb < va {
							bad("snapshot captured b in an older state (%d) than a (%d) although b is pinned after a and is always updated first", vb, va)
						}
					}
					sn.Close()
				}
				if churn != nil && rr.Chance(1, 4) {
					var prev []byte
					err := churn.VisitItemsAscend([]byte{}, false, func(i *gkvlite.Item) bool {
						if prev != nil && string(prev) >= string(i.Key) {
							bad("churn collection visited out of order: %s then %s", prev, i.Key)
						}
						prev = append([]byte{}, i.Key...)
						return true
					})
					if err != nil {
						bad("churn visit error: %v", err)
					}
				}
				if rr.Chance(1, 3) {
					time.Sleep(time.Duration(rr.Intn(200)) * time.Microsecond)
				}
			}
		})
	}
	if cfg.Flusher && cfg.FileBacked {
		guard("flusher", func() {
			fr := NewRng(cfg.Seed + 7)
			for atomic.LoadInt32(&stop) == 0 {
				loA, loB := atomic.LoadInt64(&doneA), atomic.LoadInt64(&doneB)
				err := s.Flush()
				hiA, hiB := atomic.LoadInt64(&startedA), atomic.LoadInt64(&startedB)
				if err != nil {
					bad("concurrent Flush failed: %v", err)
					return
				}
				atomic.AddInt64(&res.Flushes, 1)
				// the file ends in this flush's root record only if nothing was appended since; cut at the store size
				img := mf.Bytes()
				if sz := gkvlite.VerifStoreSize(s); int(sz) < len(img) {
					// later writes may already have been appended: they are after the root record and are ignored by the open
					_ = sz
				}
				s2, err := gkvlite.NewStore(NewMemFileFrom(img))
				if err != nil {
					bad("re-open of the image after a concurrent Flush failed: %v", err)
					return
				}
				var va, vb int64
				ok := true
				for _, nm := range []string{"a", "b"} {
					var vals []uint32
					c := s2.GetCollection(nm)
					if c == nil {
						bad("flushed image lacks collection %s", nm)
						ok = false
						break
					}
					err := c.VisitItemsAscend([]byte{}, true, func(i *gkvlite.Item) bool {
						vals = append(vals, binary.BigEndian.Uint32(i.Val))
						return true
					})
					if err != nil {
						bad("flushed image: visit error: %v", err)
						ok = false
						break
					}
					v, msg := c05VersionOf(vals, n)
					if msg != "" {
						bad("flushed image: %s is not one version: %s", nm, msg)
						ok = false
						break
					}
					if nm == "a" {
						va = v
					} else {
						vb = v
					}
				}
				if ok {
					// the image may already contain a LATER complete flush? no: there is one flusher and it is here
					if va < loA || va > hiA || vb < loB || vb > hiB {
						bad("Flush persisted versions a=%d (current during the Flush: %d..%d) b=%d (%d..%d)", va, loA, hiA, vb, loB, hiB)
					}
					if vb < va {
						bad("Flush persisted b in an older state (%d) than a had when it was captured (%d)", vb, va)
					}
				}
				time.Sleep(time.Duration(fr.Intn(300)) * time.Microsecond)
			}
		})
	}
	done := make(chan struct{})
	go func() {
		time.Sleep(time.Duration(cfg.Millis) * time.Millisecond)
		atomic.StoreInt32(&stop, 1)
		wg.Wait()
		close(done)
	}()
	select {
	case <-done:
	case <-time.After(time.Duration(cfg.Millis)*time.Millisecond + 20*time.Second):
		bad("DEADLOCK/HANG: the goroutines did not finish within 20 s after being told to stop")
		return res
	}
	// no lost update: the final contents are the mutator's last writes
	for _, nm := range []string{"a", "b"} {
		c := s.GetCollection(nm)
		var vals []uint32
		c.VisitItemsAscend([]byte{}, true, func(i *gkvlite.Item) bool {
			vals = append(vals, binary.BigEndian.Uint32(i.Val))
			return true
		})
		want := atomic.LoadInt64(&doneA)
		if nm == "b" {
			want = atomic.LoadInt64(&doneB)
		}
		v, msg := c05VersionOf(vals, n)
		if msg != "" {
			bad("final contents of %s: %s", nm, msg)
		} else if v != want {
			// a mutation may have been started and not counted as done when stop was observed mid-call: allow +1 only if started > done
			st := atomic.LoadInt64(&startedA)
			if nm == "b" {
				st = atomic.LoadInt64(&startedB)
			}
			if !(v == st) {
				bad("lost update: final version of %s is %d, the mutator completed %d mutations", nm, v, want)
			}
		}
	}
	if len(res.Bad) == 0 {
		if m := checkRefsStore(s); m != "" {
			bad("after the round: %s", m)
		}
	}
	s.Close()
	return res
}

// checkRefsStore: quiescent reference counts of a store without snapshots: every collection's current version has refs = 1.
func checkRefsStore(s *gkvlite.Store) string {
	for _, name := range s.GetCollectionNames() {
		d := gkvlite.VerifDump(s.GetCollection(name))
		if d.Refs != 1 {
			return fmt.Sprintf("collection %q: version refs=%d after all readers, snapshots and the flusher finished (expected 1)", name, d.Refs)
		}
	}
	return ""
}

func checkC05(rep *Report, rng *Rng, tier string) {
	rounds, millis := 48, 150
	if tier == "thorough" {
		rounds, millis = 400, 400
	}
	if flagDeep {
		rounds *= 3
	}
	rep.Rule = "deterministic interleavings (a reader parked inside the ReadAt of an item's value while the item is evicted and re-cached key-only, overwritten, deleted, and freed nodes are reused by another store: the reader must return the value the key had in one version); concurrent rounds with real goroutines (GOMAXPROCS=" + fmt.Sprint(runtime.GOMAXPROCS(0)) + "): one mutator (numbered SetItem calls over two collections, b updated before a, plus EvictSomeItems and an insert/delete churn collection), 1-3 readers (whole ascending/descending visits, Get, totals/min/max, Snapshot + reads + Close) and one flusher over a mutex-protected file; every read-only call is bracketed by the mutator's progress counters and must deliver ONE version whose number lies in the window current during the call; every concurrent Flush image is re-opened and must hold single versions with V(b) >= V(a) inside the Flush's window; no panic, no hang (watchdog), no lost update, reference counts back to 1 at the end; non-trivial = a round with at least 50 mutations and 20 reads"
	// deterministic interleavings first: a reader parked inside the read of an item's value
	parkedRun, parkedSkipped := 0, 0
	reps := 3
	if tier == "thorough" {
		reps = 40
	}
	for _, sc := range parkedScenarios {
		for k := 0; k < reps && len(rep.Violations) == 0; k++ {
			seed := rng.U64()
			rep.Evaluations++
			switch msg := runParked(sc, seed); msg {
			case "":
				parkedRun++
				rep.Distinct("parked/" + sc.Name + fmt.Sprint(seed))
			case "skip":
				parkedSkipped++
			default:
				rep.Violation("", false, map[string]interface{}{"parked_scenario": sc, "seed": seed, "observed": msg,
					"note": "deterministic: the reader is parked inside the ReadAt of the value (no timing involved)"})
			}
		}
	}
	// a reader parked at the end of a NODE read while another reader loads other nodes
	nodeRun := 0
	for k := 0; k < reps*6 && len(rep.Violations) == 0; k++ {
		seed := rng.U64()
		rep.Evaluations++
		w := &World{Timeout: 30e9}
		switch msg := w.guard(func() string { return runParkedNode(seed) }); msg {
		case "":
			nodeRun++
		case "skip":
			parkedSkipped++
		default:
			rep.Violation("", false, map[string]interface{}{"parked_scenario": "reader A parked at the end of its k-th node ReadAt (bytes delivered, call not returned) while reader B looks up keys on other paths", "seed": seed, "observed": msg,
				"note": "deterministic: no timing involved"})
		}
	}
	// readers on a snapshot and on a handle that replaced the collection's handle: one version record, one lock
	raceRounds := 6
	if tier == "thorough" {
		raceRounds = 60
	}
	for k := 0; k < raceRounds && len(rep.Violations) == 0; k++ {
		seed := rng.U64()
		rep.Evaluations++
		w := &World{Timeout: 90e9}
		if msg := w.guard(func() string { return runSetCollRace(seed, 150) }); msg != "" {
			rep.Violation("", false, map[string]interface{}{"scenario": "4 readers on a snapshot + 4 readers on the handle SetCollection returned for the same name, 150 ms; then a mutation, reads through the snapshot, Close, more mutations, reads", "seed": seed, "observed": msg,
				"note": "schedule dependent; re-run ./check to retry"})
		}
	}
	rep.Extra["shared_version_reader_rounds"] = raceRounds
	rep.Extra["parked_node_read_scenarios_run"] = nodeRun
	rep.Extra["parked_reader_scenarios_run"] = parkedRun
	rep.Extra["parked_reader_scenarios_skipped"] = parkedSkipped
	var tot c05Result
	for i := 0; i < rounds && len(rep.Violations) == 0; i++ {
		r := rng.Fork()
		cfg := c05Cfg{Seed: r.U64(), FileBacked: r.Chance(2, 3), NKeys: 3 + r.Intn(40), Readers: 1 + r.Intn(3), Flusher: r.Chance(3, 4), Millis: millis, Churn: r.Chance(1, 2)}
		res := runC05Round(cfg)
		rep.Evaluations++
		tot.Mutations += res.Mutations
		tot.Reads += res.Reads
		tot.Flushes += res.Flushes
		tot.Snapshots += res.Snapshots
		if res.Mutations >= 50 && res.Reads >= 20 {
			rep.Distinct(fmt.Sprint(cfg.Seed))
		}
		if i < 2 {
			rep.Sample(map[string]interface{}{"round": cfg, "mutations": res.Mutations, "reads": res.Reads, "flushes": res.Flushes, "snapshots": res.Snapshots})
		}
		if len(res.Bad) > 0 {
			rep.Violation("", false, map[string]interface{}{"round": cfg, "observed": res.Bad,
				"note": "a schedule-dependent failure: replay re-runs the same round configuration up to 30 times"})
			if len(rep.Violations) >= 2 {
				break
			}
		}
	}
	rep.Extra["mutations"] = tot.Mutations
	rep.Extra["read_only_calls_checked"] = tot.Reads
	rep.Extra["concurrent_flushes_reopened"] = tot.Flushes
	rep.Extra["snapshots_checked"] = tot.Snapshots
}

func replayC05(path string) int {
	b, _ := os.ReadFile(path)
	var rp struct {
		Round c05Cfg `json:"round"`
	}
	if err := json.Unmarshal(b, &rp); err != nil {
		fmt.Println(err)
		return 2
	}
	for i := 0; i < 30; i++ {
		res := runC05Round(rp.Round)
		if len(res.Bad) > 0 {
			fmt.Printf("REPRODUCED property=C05 (attempt %d): %v\n", i+1, res.Bad)
			return 1
		}
	}
	fmt.Println("not reproduced in 30 attempts")
	return 0
}
