package main

import (
	"errors"
	"io"
	"os"
	"sync"
	"time"
)

// IOEvent is one call made by gkvlite on the StoreFile.
type IOEvent struct {
	Kind  byte // 'R' read, 'W' write, 'S' stat, 'T' truncate
	Off   int64
	Len   int
	Data  []byte // bytes written (writes only; the part that reached the file)
	Label string // API call in progress (set by the harness)
	Fail  bool   // the call was made to fail
	SizeB int64  // file length before the call
}

var errInjected = errors.New("injected file fault")

// MemFile is the instrumented in-memory StoreFile used by all harnesses.
type MemFile struct {
	mu    sync.Mutex
	data  []byte
	log   []IOEvent
	logOn bool
	label string

	calls    int  // calls seen since Arm
	failAt   int  // 1-based index of the call to fail (0: none)
	failTorn int  // for a failing write: number of bytes that still reach the file
	sticky   bool // fail every call from failAt on
	failed   int  // number of calls failed so far

	park func(kind byte, off int64, n int) // scheduler hook (C05/C18)
	parkAfter func(kind byte, off int64, n int) // the same, after the bytes were copied into the caller's buffer
}

func NewMemFile() *MemFile { return &MemFile{logOn: true} }

func NewMemFileFrom(b []byte) *MemFile {
	return &MemFile{logOn: true, data: append([]byte{}, b...)}
}

func (f *MemFile) Bytes() []byte {
	f.mu.Lock()
	defer f.mu.Unlock()
	return append([]byte{}, f.data...)
}

func (f *MemFile) Len() int {
	f.mu.Lock()
	defer f.mu.Unlock()
	return len(f.data)
}

func (f *MemFile) SetLabel(l string) {
	f.mu.Lock()
	f.label = l
	f.mu.Unlock()
}

func (f *MemFile) LogLen() int {
	f.mu.Lock()
	defer f.mu.Unlock()
	return len(f.log)
}

func (f *MemFile) LogFrom(i int) []IOEvent {
	f.mu.Lock()
	defer f.mu.Unlock()
	return append([]IOEvent{}, f.log[i:]...)
}

// Arm makes the k-th call from now fail (k>=1).  torn is the number of
// bytes a failing write still stores.  Disarm with Arm(0,0,false).
func (f *MemFile) Arm(k, torn int, sticky bool) {
	f.mu.Lock()
	f.calls, f.failAt, f.failTorn, f.sticky, f.failed = 0, k, torn, sticky, 0
	f.mu.Unlock()
}

func (f *MemFile) Calls() int {
	f.mu.Lock()
	defer f.mu.Unlock()
	return f.calls
}

func (f *MemFile) Failed() int {
	f.mu.Lock()
	defer f.mu.Unlock()
	return f.failed
}

// must be called with f.mu held
func (f *MemFile) shouldFail() bool {
	f.calls++
	if f.failAt > 0 && (f.calls == f.failAt || (f.sticky && f.calls > f.failAt)) {
		f.failed++
		return true
	}
	return false
}

func (f *MemFile) doPark(kind byte, off int64, n int) {
	if p := f.park; p != nil {
		p(kind, off, n)
	}
}

func (f *MemFile) ReadAt(p []byte, off int64) (int, error) {
	f.doPark('R', off, len(p))
	n, err := f.readAt(p, off)
	if pa := f.parkAfter; pa != nil {
		pa('R', off, len(p)) // the bytes are in the caller's buffer; the call has not returned yet
	}
	return n, err
}

func (f *MemFile) readAt(p []byte, off int64) (int, error) {
	f.mu.Lock()
	defer f.mu.Unlock()
	fail := f.shouldFail()
	if f.logOn {
		f.log = append(f.log, IOEvent{Kind: 'R', Off: off, Len: len(p), Label: f.label, Fail: fail, SizeB: int64(len(f.data))})
	}
	if fail {
		return 0, errInjected
	}
	if off < 0 {
		return 0, errors.New("negative offset")
	}
	if off >= int64(len(f.data)) {
		if len(p) == 0 {
			return 0, nil
		}
		return 0, io.EOF
	}
	n := copy(p, f.data[off:])
	if n < len(p) {
		return n, io.EOF
	}
	return n, nil
}

func (f *MemFile) WriteAt(p []byte, off int64) (int, error) {
	f.doPark('W', off, len(p))
	f.mu.Lock()
	defer f.mu.Unlock()
	fail := f.shouldFail()
	n := len(p)
	if fail {
		n = f.failTorn
		if n > len(p) {
			n = len(p)
		}
		if n < 0 {
			n = 0
		}
	}
	sizeB := int64(len(f.data))
	if off < 0 {
		return 0, errors.New("negative offset")
	}
	if n > 0 || !fail {
		end := int(off) + n
		if end > len(f.data) {
			f.data = append(f.data, make([]byte, end-len(f.data))...)
		}
		copy(f.data[off:], p[:n])
	}
	if f.logOn {
		f.log = append(f.log, IOEvent{Kind: 'W', Off: off, Len: len(p), Data: append([]byte{}, p[:n]...), Label: f.label, Fail: fail, SizeB: sizeB})
	}
	if fail {
		return n, errInjected
	}
	return n, nil
}

type memInfo struct{ size int64 }

func (m memInfo) Name() string       { return "memfile" }
func (m memInfo) Size() int64        { return m.size }
func (m memInfo) Mode() os.FileMode  { return 0600 }
func (m memInfo) ModTime() time.Time { return time.Time{} }
func (m memInfo) IsDir() bool        { return false }
func (m memInfo) Sys() interface{}   { return nil }

func (f *MemFile) Stat() (os.FileInfo, error) {
	f.doPark('S', 0, 0)
	f.mu.Lock()
	defer f.mu.Unlock()
	fail := f.shouldFail()
	if f.logOn {
		f.log = append(f.log, IOEvent{Kind: 'S', Label: f.label, Fail: fail, SizeB: int64(len(f.data))})
	}
	if fail {
		return nil, errInjected
	}
	return memInfo{int64(len(f.data))}, nil
}

func (f *MemFile) Truncate(size int64) error {
	f.doPark('T', size, 0)
	f.mu.Lock()
	defer f.mu.Unlock()
	fail := f.shouldFail()
	if f.logOn {
		f.log = append(f.log, IOEvent{Kind: 'T', Off: size, Label: f.label, Fail: fail, SizeB: int64(len(f.data))})
	}
	if fail {
		return errInjected
	}
	if size < 0 {
		return errors.New("negative size")
	}
	if size <= int64(len(f.data)) {
		f.data = f.data[:size]
	} else {
		f.data = append(f.data, make([]byte, int(size)-len(f.data))...)
	}
	return nil
}
