package main

import (
	"flag"
	"fmt"
	"os"
	"sort"
)

type checkFn func(rep *Report, rng *Rng, tier string)

var checks = map[string]checkFn{}

var replayFns = map[string]func(path string) int{}

var (
	flagRunner string
	flagDeep   bool // a proof obligation is broken: search harder for a failing input
)

func main() {
	if len(os.Args) < 2 {
		fmt.Println("usage: harness <Cxx> [--tier quick|thorough] [--seed n] [--out file] | harness replay <file>")
		os.Exit(2)
	}
	prop := os.Args[1]
	fs := flag.NewFlagSet("harness", flag.ExitOnError)
	tier := fs.String("tier", "quick", "quick|thorough")
	seed := fs.Uint64("seed", 1, "PRNG seed")
	out := fs.String("out", "", "result json")
	replays := fs.String("replays", "/verif/replays", "replay dir")
	known := fs.String("known", "/verif/known_findings.txt", "known findings file")
	fs.StringVar(&flagRunner, "runner", "/verif/runner/model", "extracted model runner")
	replay := fs.String("replay", "", "replay file")
	fs.BoolVar(&flagDeep, "deep", false, "search at higher intensity (used when an obligation is broken)")
	fs.Parse(os.Args[2:])
	if *replay != "" {
		os.Exit(replayFile(*replay))
	}
	fn, ok := checks[prop]
	if !ok {
		var ks []string
		for k := range checks {
			ks = append(ks, k)
		}
		sort.Strings(ks)
		fmt.Println("unknown check", prop, "have", ks)
		os.Exit(2)
	}
	rep := NewReport(prop, *tier, *seed, *out, *replays, *known)
	fn(rep, NewRng(*seed), *tier)
	os.Exit(rep.Finish())
}
